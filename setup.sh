#!/bin/sh
# Build the mirfacts driver and pre-generate the fact base of /repo's current tree (offline).
set -e
cd "$(dirname "$0")"
export CARGO_NET_OFFLINE=true
(cd tools/mirfacts && cargo build --release --offline)
python3 -m analysis.factgen all
echo "setup ok"
