#!/usr/bin/env python3
"""Development helper: run the rules of all (or given) properties in ONE process on the tree named by
GV_REPO (default /repo) and print the fired obligation keys per property (known findings excluded).
Not a registered check: the registered commands are `./check Cxx`."""
import importlib, os, sys, traceback
V = os.path.dirname(os.path.dirname(os.path.abspath(__file__)))
sys.path.insert(0, V)
from analysis import factgen, mir, engine

def main():
    props = [a.upper() for a in sys.argv[1:] if not a.startswith('-')] or ['C%02d' % i for i in range(1, 21)]
    try:
        paths, info = factgen.ensure_facts('all')
    except factgen.BuildFailed as e:
        print('BUILD FAILED\n' + str(e)); return 2
    F = mir.Facts(paths)
    known_open = {k['key'] for k in engine.load_known() if k['status'] == 'known'}
    out = {}
    for p in props:
        mod = importlib.import_module('analysis.rules.' + p.lower())
        ctx = engine.Ctx(p, F, 'all')
        try:
            mod.run(ctx)
        except mir.AnchorError as e:
            out.setdefault(p, []).append('anchor: %s' % e)
        except Exception:
            out.setdefault(p, []).append('CRASH: ' + traceback.format_exc().strip().splitlines()[-1])
        for o in ctx.obligations:
            if not o['ok'] and o['key'] not in known_open:
                out.setdefault(p, []).append('%s  [%s] %s' % (o['key'], o['loc'], o['desc'][:160]))
    for p in props:
        for l in out.get(p, []):
            print('%s: %s' % (p, l))
    rules = sorted({'%s:%s' % (p, l.split('|')[0]) for p, ls in out.items() for l in ls})
    print('caught-by: ' + ' '.join(rules))
    return 1 if out else 0

if __name__ == '__main__':
    sys.exit(main())
