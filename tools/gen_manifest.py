#!/usr/bin/env python3
"""Refresh MANIFEST.json's per-check level text from the rule modules' EXPLANATION / ASSUMPTIONS strings
(everything else in the manifest is kept).  Run after editing a rule module's EXPLANATION."""
import importlib, json, os, sys
V = os.path.dirname(os.path.dirname(os.path.abspath(__file__)))
sys.path.insert(0, V)
PRE = ("Static analysis of the type-checked program (rustc MIR of /repo's current tree): structural necessary conditions of the property, "
       "checked on every CFG path / call site / table entry the rules name. ")
POST = " A violation names file:line, function and construct. The behavioural property over all histories/schedules/inputs is NOT decided; see level_note."
TRUST = ("; trusted base: rustc nightly MIR + callee resolution, the mirfacts exporter, transcribed MQTT spec tables, the reviewed invariant table "
         "(analysis/tables/panic_sites.py) where used")
mp = os.path.join(V, 'MANIFEST.json')
m = json.load(open(mp))
for c in m['checks']:
    mod = importlib.import_module('analysis.rules.' + c['property_id'].lower())
    c['level_claimed']['text'] = PRE + mod.EXPLANATION + POST
    c['level_note'] = ' '.join(mod.ASSUMPTIONS) + TRUST
json.dump(m, open(mp, 'w'), indent=1)
print('manifest refreshed for %d checks' % len(m['checks']))
