#!/bin/sh
# usage: tools/confirm3.sh Cxx   — confirm both round-3 seeds of a property in the sub-agent's worktree /tmp/seed-Cxx-3
# (demo passes without / fails with the change; workspace builds; all stable baseline tests pass with the change).
R=${R:-3}; P=$1; W=/tmp/seed-$P-$R
cd $W || exit 2
export CARGO_NET_OFFLINE=true
for lx in a b; do
  D=/verif/seeded/$P-$R$lx
  [ -f $D/patch.diff ] || continue
  PATCH=$D/patch.diff; for o in $D/patch.orig-*.diff; do [ -f "$o" ] && PATCH=$o; done
  git reset -q --hard HEAD; git clean -q -fd -e target
  git apply $D/demo.diff || { echo "$P-$R$lx: demo.diff does not apply"; continue; }
  MOD=$(grep -ho "mod [a-z_0-9]*seeded[a-z_0-9]*" $D/demo.diff | head -1 | awk '{print $2}'); [ -z "$MOD" ] && MOD=seeded
  R1=$(cargo test --offline -p ${PKG:-gneiss-mqtt} --features ${FEATURES:-testing,tokio,threaded} --lib $MOD 2>&1 | grep "^test result" | head -1)
  echo "##### $P-$R$lx ($MOD) demo WITHOUT change: $R1"
  git apply $PATCH || { echo "$P-$R$lx: patch does not apply"; continue; }
  cargo build --workspace --offline 2>&1 | tail -1
  R2=$(cargo test --offline -p ${PKG:-gneiss-mqtt} --features ${FEATURES:-testing,tokio,threaded} --lib $MOD 2>&1 | grep "^test result" | head -1)
  echo "##### $P-$R$lx demo WITH change:    $R2"
  git apply -R $D/demo.diff
  /verif/tools/baseline_check.sh $W | head -4
done
git reset -q --hard HEAD; git clean -q -fd -e target
