#!/usr/bin/env python3
"""Regenerate DESIGN.md section 6 (per-property rule tables) from evidence/*.json, between the
RULETABLES markers.  Run after all 20 quick checks have refreshed the evidence."""
import json, os, re
V = os.path.dirname(os.path.dirname(os.path.abspath(__file__)))
out = []
tot_ob = tot_rules = 0
for i in range(1, 21):
    pid = 'C%02d' % i
    e = json.load(open(os.path.join(V, 'evidence', pid + '.json')))
    c = e['coverage']
    rules = c['rules']
    tot_ob += c['obligations']
    tot_rules += len(rules)
    out.append('### %s — %d rules, %d obligations on the pinned tree\n' % (pid, len(rules), c['obligations']))
    out.append('| rule | primitive | obl. | decided clause |')
    out.append('|---|---|---|---|')
    for rid, r in rules.items():
        out.append('| %s | %s | %d | %s |' % (rid, r['primitive'], r['obligations'], r['text'].replace('|', '/')))
    nd = [a[len('not decided: '):] for a in e['assumptions'] if a.startswith('not decided: ')]
    other = [a for a in e['assumptions'] if not a.startswith('not decided: ') and not a.startswith('trusted base')]
    out.append('')
    out.append('*Not decided:* ' + ' '.join(nd + other))
    out.append('')
body = '\n'.join(out)
p = os.path.join(V, 'DESIGN.md')
s = open(p).read()
hdr = 'Totals on the pinned tree + fixes: **%d obligations over %d rules**.\n\n' % (tot_ob, tot_rules)
if '<!-- RULETABLES -->' not in s:
    a = s.index('## 6. Per-property rules as built')
    b = s.index('## 7. ')
    s = s[:a] + '## 6. Per-property rules as built\n\n<!-- RULETABLES -->\n<!-- /RULETABLES -->\n\n' + s[b:]
s = re.sub(r'<!-- RULETABLES -->.*?<!-- /RULETABLES -->', lambda _: '<!-- RULETABLES -->\n' + hdr + body + '\n<!-- /RULETABLES -->', s, flags=re.S)
s = re.sub(r'On the pinned tree \+ fixes: \d+ obligations over \d+ rules\.', 'On the pinned tree + fixes: %d obligations over %d rules.' % (tot_ob, tot_rules), s)
open(p, 'w').write(s)
print(tot_ob, tot_rules)
