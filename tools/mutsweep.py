#!/usr/bin/env python3
"""Checker blind-spot sweep (development tool, not a registered check).

Generates one-line syntactic mutants of the anchored production sources of /repo, applies each to
a scratch copy (outside /repo and /verif), regenerates the MIR facts and runs the rules of all 20
properties in-process.  Output: one JSON line per mutant with status
  nocompile | noeffect (facts identical: test-only / dead text) | detected (rules fired) |
  crash (a rule raised) | survived (compiles, MIR changed, every rule silent).
Survivors are *candidates* for triage: either equivalent mutants / outside every property, or a
clause the rules do not cover.  Nothing here is evidence; the sweep only guides strengthening.

usage: tools/mutsweep.py --out FILE [--jobs N] [--files a.rs,b.rs] [--sample K] [--seed S] [--fnfilter regex]
"""
import argparse
import hashlib
import json
import multiprocessing as mp
import os
import random
import re
import shutil
import subprocess
import sys
import tempfile
import time
import traceback

VERIF = os.path.dirname(os.path.dirname(os.path.abspath(__file__)))
sys.path.insert(0, VERIF)
REPO = '/repo'
ALL = ['C%02d' % i for i in range(1, 21)]

FILES = [
    'gneiss-mqtt/src/protocol.rs', 'gneiss-mqtt/src/encode.rs', 'gneiss-mqtt/src/decode.rs',
    'gneiss-mqtt/src/validate.rs', 'gneiss-mqtt/src/alias.rs', 'gneiss-mqtt/src/client/mod.rs',
    'gneiss-mqtt/src/client/config.rs',
    'gneiss-mqtt/src/client/asynchronous/tokio/mod.rs', 'gneiss-mqtt/src/client/asynchronous/mod.rs',
    'gneiss-mqtt/src/client/synchronous/threaded/mod.rs', 'gneiss-mqtt/src/client/synchronous/threaded/ws_stream.rs',
    'gneiss-mqtt/src/client/synchronous/mod.rs',
    'gneiss-mqtt/src/mqtt/mod.rs', 'gneiss-mqtt/src/mqtt/utils.rs', 'gneiss-mqtt/src/mqtt/connect.rs', 'gneiss-mqtt/src/mqtt/connack.rs',
    'gneiss-mqtt/src/mqtt/publish.rs', 'gneiss-mqtt/src/mqtt/puback.rs', 'gneiss-mqtt/src/mqtt/pubrec.rs',
    'gneiss-mqtt/src/mqtt/pubrel.rs', 'gneiss-mqtt/src/mqtt/pubcomp.rs', 'gneiss-mqtt/src/mqtt/subscribe.rs',
    'gneiss-mqtt/src/mqtt/suback.rs', 'gneiss-mqtt/src/mqtt/unsubscribe.rs', 'gneiss-mqtt/src/mqtt/unsuback.rs',
    'gneiss-mqtt/src/mqtt/disconnect.rs', 'gneiss-mqtt/src/mqtt/pingreq.rs', 'gneiss-mqtt/src/mqtt/pingresp.rs',
    'gneiss-mqtt/src/mqtt/auth.rs',
    'gneiss-mqtt-aws/src/lib.rs',
]

TOKEN_SWAPS = [
    (r' <= ', ' < '), (r' < ', ' <= '), (r' >= ', ' > '), (r' > ', ' >= '), (r' == ', ' != '), (r' != ', ' == '),
    (r' && ', ' || '), (r' \|\| ', ' && '),
    (r'\btrue\b', 'false'), (r'\bfalse\b', 'true'),
    (r'\bpush_back\b', 'push_front'), (r'\bpush_front\b', 'push_back'),
    (r'\bpop_front\b', 'pop_back'), (r'\bfront\(\)', 'back()'),
    (r'\bis_some\(\)', 'is_none()'), (r'\bis_none\(\)', 'is_some()'),
    (r'\bmin\(', 'max('), (r'\bmax\(', 'min('),
    (r'\bAtLeastOnce\b', 'ExactlyOnce'), (r'\bExactlyOnce\b', 'AtLeastOnce'), (r'\bAtMostOnce\b', 'AtLeastOnce'),
    (r' \+ 1\b', ' + 2'), (r' - 1\b', ' - 0'), (r' \+= 1;', ' += 2;'), (r' -= 1;', ' -= 0;'),
    (r'\bSome\(now\)', 'None'), (r'\.is_empty\(\)', '.len() == 1'),
    (r'if !', 'if '), (r'\(!self\.', '(self.'), (r'&& !', '&& '), (r'\|\| !', '|| '),
    (r'\bOk\(\(\)\)', 'Ok(())'),  # placeholder no-op (filtered)
    (r'\bHighPriority\b', 'User'), (r'\bPosition::Front\b', 'Position::Back'), (r'\bPosition::Back\b', 'Position::Front'),
    (r'\bsaturating_sub\b', 'saturating_add'), (r'\bwrapping_add\b', 'wrapping_sub'),
    (r'\b0x80\b', '0x81'), (r'\b128\b', '129'), (r'\b65535\b', '65534'), (r'\bu16::MAX\b', '(u16::MAX - 1)'),
    (r' \* 2\b', ' * 3'), (r' / 2\b', ' / 3'),
]
SKIP_LINE = re.compile(r'^\s*(//|/\*|\*|#\[|use |pub use |mod |pub mod |pub\(crate\) mod |debug!|info!|warn!|error!|trace!|log_|\}|\{|$)')
LOGLINE = re.compile(r'\b(debug|info|warn|error|trace)!\(')
STMT_DELETE = re.compile(r'^\s*(self\.[A-Za-z0-9_\.]+\(.*\)\??;|self\.[A-Za-z0-9_\.]+ = .*;|[a-z_][A-Za-z0-9_\.]*\.(clear|insert|remove|push_back|push_front|append|reset|sort|extend|truncate)\(.*\);|return [^;]*;|continue;|break;)\s*$')


def production_end(lines):
    """Index of the first line of the trailing `#[cfg(test)] mod …` (or len)."""
    for i, l in enumerate(lines):
        if re.match(r'^#\[cfg\(test\)\]\s*$', l) and i + 1 < len(lines) and re.match(r'^\s*(pub(\(crate\))? )?mod \w+', lines[i + 1]):
            return i
    return len(lines)


def gen_mutants(files, fnfilter=None):
    out = []
    for rel in files:
        p = os.path.join(REPO, rel)
        if not os.path.exists(p):
            continue
        lines = open(p).read().split('\n')
        end = production_end(lines)
        for i in range(end):
            l = lines[i]
            if SKIP_LINE.match(l) or LOGLINE.search(l):
                continue
            code = l.split('//')[0]
            for pat, rep in TOKEN_SWAPS:
                for k, m in enumerate(re.finditer(pat, code)):
                    new = code[:m.start()] + re.sub(pat, rep, m.group(0)) + code[m.end():] + l[len(code):]
                    if new == l:
                        continue
                    out.append({'file': rel, 'line': i + 1, 'op': 'swap:%s->%s' % (pat, rep), 'old': l, 'new': new})
            if STMT_DELETE.match(l):
                out.append({'file': rel, 'line': i + 1, 'op': 'delete-stmt', 'old': l, 'new': re.match(r'^\s*', l).group(0) + ';' if False else ''})
    for m in out:
        m['id'] = hashlib.sha1(('%s|%d|%s|%s' % (m['file'], m['line'], m['op'], m['new'])).encode()).hexdigest()[:10]
    return out


# ------------------------------------------------------------------ worker
_W = {}


def _init_worker(base_target, known_path):
    from analysis import factgen
    wid = os.getpid()
    root = tempfile.mkdtemp(prefix='gv-scratch.mut%d.' % wid)
    repo = os.path.join(root, 'repo')
    subprocess.check_call(['rsync', '-a', '--exclude', 'target', '--exclude', '.git', REPO + '/', repo + '/'])
    tdir = os.path.join(root, 'target')
    subprocess.check_call(['cp', '-a', base_target, tdir])
    factgen.CACHE = os.path.join(root, 'cache')
    os.makedirs(factgen.CACHE, exist_ok=True)
    _W.update(root=root, repo=repo, tdir=tdir)
    import atexit
    atexit.register(lambda: shutil.rmtree(root, ignore_errors=True))


def _facts_digest(paths):
    h = hashlib.sha1()
    for p in paths:
        with open(p, 'rb') as f:
            h.update(f.read())
    return h.hexdigest()


def run_rules(paths, props=ALL):
    import importlib
    from analysis import mir, engine
    F = mir.Facts(paths)
    known_open = {k['key'] for k in engine.load_known() if k['status'] == 'known'}
    fired, crashes = [], []
    for p in props:
        mod = importlib.import_module('analysis.rules.' + p.lower())
        ctx = engine.Ctx(p, F, 'all')
        try:
            mod.run(ctx)
        except mir.AnchorError as e:
            fired.append('%s:anchor' % p)
        except Exception as e:
            crashes.append('%s: %s' % (p, traceback.format_exc().strip().splitlines()[-1][:200]))
        for o in ctx.obligations:
            if not o['ok'] and o['key'] not in known_open:
                fired.append('%s:%s' % (p, o['key']))
    return fired, crashes


def _work(m):
    from analysis import factgen
    repo = _W['repo']
    p = os.path.join(repo, m['file'])
    orig = open(p).read()
    lines = orig.split('\n')
    res = dict(m)
    t0 = time.time()
    if 'base_digest' not in _W:
        b = _baseline(0)
        if b[2] or b[3]:
            res['status'] = 'baseline-dirty'
            res['error'] = str(b[2][:5]) + str(b[3][:3])
            return res
    try:
        if lines[m['line'] - 1] != m['old']:
            res['status'] = 'stale'
            return res
        lines[m['line'] - 1] = m['new']
        with open(p, 'w') as f:
            f.write('\n'.join(lines))
        try:
            paths, info = factgen.ensure_facts('all', repo=repo, target_dir=_W['tdir'])
        except factgen.BuildFailed:
            res['status'] = 'nocompile'
            return res
        dg = _facts_digest(paths)
        if dg == _W.get('base_digest'):
            res['status'] = 'noeffect'
        else:
            fired, crashes = run_rules(paths)
            res['fired'] = sorted(set(fired))[:12]
            res['nfired'] = len(set(fired))
            res['crashes'] = crashes
            res['status'] = 'detected' if fired else ('crash' if crashes else 'survived')
        shutil.rmtree(os.path.dirname(paths[0]), ignore_errors=True)
        return res
    except Exception:
        res['status'] = 'error'
        res['error'] = traceback.format_exc()[-400:]
        return res
    finally:
        with open(p, 'w') as f:
            f.write(orig)
        res['t'] = round(time.time() - t0, 1)


def _baseline(_):
    from analysis import factgen
    paths, info = factgen.ensure_facts('all', repo=_W['repo'], target_dir=_W['tdir'])
    _W['base_digest'] = _facts_digest(paths)
    fired, crashes = run_rules(paths)
    shutil.rmtree(os.path.dirname(paths[0]), ignore_errors=True)
    return (os.getpid(), _W['base_digest'], fired, crashes)


def main():
    ap = argparse.ArgumentParser()
    ap.add_argument('--out', required=True)
    ap.add_argument('--jobs', type=int, default=4)
    ap.add_argument('--files')
    ap.add_argument('--sample', type=int, default=0)
    ap.add_argument('--seed', type=int, default=1)
    ap.add_argument('--lines', help='restrict to line range a-b (with a single --files)')
    ap.add_argument('--list', action='store_true')
    ap.add_argument('--ids', help='file with one mutant id per line: run only those')
    a = ap.parse_args()
    files = a.files.split(',') if a.files else FILES
    muts = gen_mutants(files)
    if a.lines:
        lo, hi = [int(x) for x in a.lines.split('-')]
        muts = [m for m in muts if lo <= m['line'] <= hi]
    done = set()
    if os.path.exists(a.out):
        for l in open(a.out):
            try:
                done.add(json.loads(l)['id'])
            except Exception:
                pass
    muts = [m for m in muts if m['id'] not in done]
    if a.ids:
        want = set(l.strip() for l in open(a.ids) if l.strip())
        muts = [m for m in muts if m['id'] in want]
    if a.sample and len(muts) > a.sample:
        random.Random(a.seed).shuffle(muts)
        muts = muts[:a.sample]
    print('mutants to run: %d (already done: %d)' % (len(muts), len(done)), flush=True)
    if a.list:
        for m in muts[:50]:
            print(m['file'], m['line'], m['op'], '|', m['new'].strip()[:100])
        return 0
    base_target = os.path.join(VERIF, '.cache', 'target')
    pool = mp.Pool(a.jobs, initializer=_init_worker, initargs=(base_target, None))
    t0 = time.time()
    n = 0
    stats = {}
    with open(a.out, 'a') as out:
        for res in pool.imap_unordered(_work, muts):
            n += 1
            stats[res['status']] = stats.get(res['status'], 0) + 1
            out.write(json.dumps(res) + '\n')
            out.flush()
            if n % 25 == 0:
                print('%d/%d %.0fs %s' % (n, len(muts), time.time() - t0, stats), flush=True)
    pool.close()
    pool.join()
    print('done', stats)
    return 0


if __name__ == '__main__':
    sys.exit(main())
