#!/usr/bin/env python3
"""usage: mk_benign_prompt.py NAME 'area text' C01,C04,...  -> prompt for a benign-refactoring sub-agent (worktree /tmp/benign-NAME)."""
import json, sys, os
V = os.path.dirname(os.path.dirname(os.path.abspath(__file__)))
name, area, props = sys.argv[1], sys.argv[2], sys.argv[3].split(',')
P = {json.loads(l)['id']: json.loads(l) for l in open(V + '/properties.jsonl')}
t = open(V + '/seeded/benign/PROMPT.txt').read()
pt = '\n\n'.join('%s — %s\n%s' % (p, P[p]['title'], P[p]['statement']) for p in props)
print(t.replace('WORKTREE', '/tmp/benign-' + name).replace('OUTDIR', '/tmp/benign-%s-out' % name).replace('AREA', area).replace('PROPS', pt))
