#!/bin/sh
# usage: tools/intake3.sh Cxx  — split the round-3 deliverables of /tmp/seed-Cxx-3-out (patchA/B, demoA/B, notes.md) into
# seeded/Cxx-3a and seeded/Cxx-3b and run every property's rules on each change.
R=${R:-3}; P=$1; O=/tmp/seed-$P-$R-out
cd /verif
for x in A B; do
  lx=$(echo $x | tr AB ab)
  d=seeded/$P-$R$lx
  [ -f $O/patch$x.diff ] || { echo "$P-$R$lx: no patch$x.diff"; continue; }
  mkdir -p $d
  cp $O/patch$x.diff $d/patch.diff; cp $O/demo$x.diff $d/demo.diff 2>/dev/null; cp $O/notes.md $d/notes.md 2>/dev/null
  echo "=== $P-3$lx"; grep "^[-+]" $d/patch.diff | grep -v "^+++\|^---" | cut -c1-170 | head -14
  tools/seedcheck.sh $d 2>&1 | cut -c1-260
done
