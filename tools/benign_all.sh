#!/bin/sh
# run every archived benign refactoring through all rules; print one line per diff
cd /verif
ok=0; n=0
for d in seeded/benign/B*-b*.diff; do
  n=$((n+1))
  r=$(tools/benigncheck.sh $d 2>&1 | grep "^caught-by:" | sed 's/caught-by: *//')
  if [ -z "$r" ]; then ok=$((ok+1)); echo "silent  $d"; else echo "ALARM   $d  $r"; fi
done
echo "benign corpus: $ok of $n silent"
