#!/usr/bin/env python3
"""Summarise a mutsweep result file: counts per status, survivors grouped by enclosing function,
marking functions no rule ever touches (evidence/*.json functions_analysed)."""
import json, os, sys, glob, collections
V = os.path.dirname(os.path.dirname(os.path.abspath(__file__)))
sys.path.insert(0, V)
from analysis import factgen, mir
res = [json.loads(l) for l in open(sys.argv[1] if len(sys.argv) > 1 else V + '/.cache/mutsweep/all.jsonl')]
only = sys.argv[2] if len(sys.argv) > 2 else None
paths, _ = factgen.ensure_facts('all')
F = mir.Facts(paths)
touched = set()
for p in glob.glob(V + '/evidence/C*.json'):
    touched |= set(json.load(open(p))['coverage'].get('functions_analysed', []))
byfile = collections.defaultdict(list)
for k, f in F.fns.items():
    if f['kind'] != 'Closure':
        byfile[f['file']].append((f['ln'], f['path']))
for v in byfile.values():
    v.sort()
def encl(file, line):
    best = None
    for ln, p in byfile.get(file, []):
        if ln <= line:
            best = p
    return best
st = collections.Counter(r['status'] for r in res)
print('total', len(res), dict(st))
groups = collections.defaultdict(list)
for r in res:
    if r['status'] == (only or 'survived'):
        groups[encl(r['file'], r['line'])].append(r)
for fn, rs in sorted(groups.items(), key=lambda x: (x[0] not in touched, str(x[0]))):
    print('\n== %s  [%s] %d' % (fn, 'touched by rules' if fn in touched else 'NOT touched', len(rs)))
    for r in sorted(rs, key=lambda r: r['line']):
        print('   %s:%d %-28s %s  =>  %s' % (r['file'].split('/')[-1], r['line'], r['op'][:28], r['old'].strip()[:80], r['new'].strip()[:80] or '<deleted>'))
