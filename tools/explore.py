#!/usr/bin/env python3
"""Interactive helper: python3 -i tools/explore.py  -> F (Facts), mir, prims"""
import sys, os
sys.path.insert(0, os.path.dirname(os.path.dirname(os.path.abspath(__file__))))
from analysis import factgen, mir, prims
from analysis.mir import show, show_atom, short, norm
paths, info = factgen.ensure_facts(sys.argv[1] if len(sys.argv) > 1 else 'all')
F = mir.Facts(paths)
