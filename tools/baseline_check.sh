#!/bin/sh
# Runs the repository's test suite (guard off; there are no hooks) and compares with the pinned
# stable-pass list of /root/.vp/BASELINE.json.  Exit 0 iff every stable test passes.
REPO=${1:-/repo}
cd "$REPO" || exit 2
OUT=$(mktemp)
cargo nextest run --workspace --no-fail-fast --offline --test-threads 8 > "$OUT" 2>&1
python3 - "$OUT" <<'PY'
import json, re, sys
out = open(sys.argv[1]).read()
base = json.load(open('/root/.vp/BASELINE.json'))
stable = set(base['stable_pass'])
passed = set()
for m in re.finditer(r'^\s+(?:PASS|LEAK) \[[^\]]*\]\s+(?:\(\s*\d+/\d+\)\s+)?(\S+) (\S+)', out, re.M):
    passed.add('%s::%s' % (m.group(1), m.group(2)))
missing = sorted(stable - passed)
print('stable tests: %d, passed now: %d, missing: %d' % (len(stable), len(stable & passed), len(missing)))
for t in missing[:40]:
    print('  NOT PASSING:', t)
sys.exit(1 if missing else 0)
PY
RC=$?
rm -f "$OUT"
exit $RC
