#!/usr/bin/env python3
"""Debug aid: print a function's MIR with resolved expressions and guards."""
import sys, os
sys.path.insert(0, os.path.dirname(os.path.dirname(os.path.abspath(__file__))))
from analysis import factgen, mir
from analysis.mir import show, show_atom

def main():
    paths, _ = factgen.ensure_facts('all')
    F = mir.Facts(paths)
    for suf in sys.argv[1:]:
        for v in F.find_fns(suf):
            print('==', v.path, v.loc())
            succ, pred, edge = v.graph()
            for i in v.live_blocks():
                b = v.blocks[i]
                g = [show_atom(a) for a in v.guards(i)]
                print(' bb%d  guards: %s' % (i, ' ; '.join(g)))
                for s in b['stmts']:
                    if s['k'] == 'assign':
                        print('    %s := %s   @%d %s' % (show(v.place_expr(s['lhs'])) if s['lhs']['p'] else '_%d' % s['lhs']['l'], show(v.rvalue_expr(s['rv'], i)), s['ln'], s.get('mac', '')))
                    else:
                        print('    setdiscr', s)
                t = b['term']
                if t['k'] == 'call':
                    print('    CALL _%d = %s(%s) -> %s @%d %s' % (t['dest']['l'], mir.short(t['fn'],3), ', '.join(show(v.operand_expr(a, i)) for a in t['args']), t['t'], t['ln'], t.get('mac', '')))
                elif t['k'] == 'switch':
                    print('    SWITCH %s %s -> %s else %s' % (show(v.operand_expr(t['op'], i)), t['ty'], t['targets'], t['otherwise']))
                else:
                    print('    %s -> %s' % (t['k'], t.get('t')))
main()
