// mirfacts: rustc_private driver that exports the type-checked program (MIR CFG with
// resolved callees, ADTs, evaluated constants) of selected crates as JSON facts.
// Used as RUSTC_WORKSPACE_WRAPPER under `cargo +nightly check`; argv[1] is the real rustc.
#![feature(rustc_private)]
#![allow(clippy::all)]

extern crate rustc_abi;
extern crate rustc_driver;
extern crate rustc_hir;
extern crate rustc_interface;
extern crate rustc_middle;
extern crate rustc_session;
extern crate rustc_span;

mod hirx;
mod json;

use json::J;
use rustc_driver::Compilation;
use rustc_hir::def::DefKind;
use rustc_hir::def_id::{DefId, LOCAL_CRATE};
use rustc_interface::interface::Compiler;
use rustc_middle::mir::{
    self, AggregateKind, BasicBlock, Body, Const, ConstValue, Operand, Place, ProjectionElem,
    Rvalue, StatementKind, TerminatorKind, VarDebugInfoContents,
};
use rustc_middle::ty::print::with_no_trimmed_paths;
use rustc_middle::ty::{self, Instance, Ty, TyCtxt, TypingEnv};
use rustc_span::Span;
use std::env;

struct Cb;

impl rustc_driver::Callbacks for Cb {
    fn config(&mut self, c: &mut rustc_interface::interface::Config) {
        c.opts.unstable_opts.mir_opt_level = Some(0);
    }
    fn after_analysis<'tcx>(&mut self, _: &Compiler, tcx: TyCtxt<'tcx>) -> Compilation {
        let name = tcx.crate_name(LOCAL_CRATE).to_string();
        let wanted = env::var("MIRFACTS_CRATES").unwrap_or_else(|_| "gneiss_mqtt,gneiss_mqtt_aws".into());
        if !wanted.split(',').any(|w| w == name) {
            return Compilation::Continue;
        }
        // only library targets built without cfg(test)
        if tcx.sess.opts.test {
            return Compilation::Continue;
        }
        let out = match env::var("MIRFACTS_OUT") {
            Ok(o) => o,
            Err(_) => return Compilation::Continue,
        };
        let nonce = env::var("MIRFACTS_NONCE").unwrap_or_else(|_| "0".into());
        let doc = with_no_trimmed_paths!(Ex { tcx }.export_crate(&name));
        let mut s = String::with_capacity(1 << 24);
        doc.write(&mut s);
        let tmp = format!("{}/{}.{}.json.tmp{}", out, name, nonce, std::process::id());
        let fin = format!("{}/{}.{}.json", out, name, nonce);
        std::fs::write(&tmp, s).expect("mirfacts: cannot write facts");
        std::fs::rename(&tmp, &fin).expect("mirfacts: cannot rename facts");
        Compilation::Continue
    }
}

pub struct Ex<'tcx> {
    pub tcx: TyCtxt<'tcx>,
}

impl<'tcx> Ex<'tcx> {
    pub fn span(&self, sp: Span) -> (String, i128, i128, String) {
        let tcx = self.tcx;
        let mut macros: Vec<String> = Vec::new();
        for e in sp.macro_backtrace() {
            macros.push(e.kind.descr().to_string());
        }
        let root = sp.source_callsite();
        let sm = tcx.sess.source_map();
        let loc = sm.lookup_char_pos(root.lo());
        let file = match &loc.file.name {
            rustc_span::FileName::Real(r) => match r.local_path() {
                Some(p) => p.to_string_lossy().to_string(),
                None => format!("{:?}", loc.file.name),
            },
            other => format!("{:?}", other),
        };
        (file, loc.line as i128, loc.col.0 as i128 + 1, macros.join(">"))
    }

    fn span_j(&self, sp: Span, fn_file: &str) -> Vec<(&'static str, J)> {
        let (f, l, c, m) = self.span(sp);
        let mut v = vec![("ln", J::I(l)), ("col", J::I(c))];
        if f != fn_file {
            v.push(("file", J::S(f)));
        }
        if !m.is_empty() {
            v.push(("mac", J::S(m)));
        }
        v
    }

    fn export_crate(&self, name: &str) -> J {
        let tcx = self.tcx;
        let mut adts = Vec::new();
        let mut consts = Vec::new();
        let mut fns = Vec::new();
        let mut hir = Vec::new();
        let items = tcx.hir_crate_items(());
        for ldid in items.definitions() {
            let did = ldid.to_def_id();
            match tcx.def_kind(did) {
                DefKind::Struct | DefKind::Enum => adts.push(self.export_adt(did)),
                DefKind::Const { .. } | DefKind::AssocConst { .. } => {
                    if let Some(c) = self.export_const(did) {
                        consts.push(c);
                    }
                }
                _ => {}
            }
        }
        for ldid in tcx.hir_body_owners() {
            let did = ldid.to_def_id();
            match tcx.def_kind(did) {
                DefKind::Fn | DefKind::AssocFn | DefKind::Closure => {
                    fns.push(self.export_fn(did));
                    if env::var("MIRFACTS_HIR").is_ok() {
                        if let Some(h) = hirx::export_hir(self, ldid) {
                            hir.push(h);
                        }
                    }
                }
                _ => {}
            }
        }
        J::O(vec![
            ("crate", J::S(name.to_string())),
            ("adts", J::A(adts)),
            ("consts", J::A(consts)),
            ("fns", J::A(fns)),
            ("hir", J::A(hir)),
        ])
    }

    fn export_adt(&self, did: DefId) -> J {
        let tcx = self.tcx;
        let adt = tcx.adt_def(did);
        let mut variants = Vec::new();
        for (vi, v) in adt.variants().iter_enumerated() {
            let discr = if adt.is_enum() {
                J::I(adt.discriminant_for_variant(tcx, vi).val as i128)
            } else {
                J::Null
            };
            let mut fields = Vec::new();
            for f in v.fields.iter() {
                let fty = tcx.type_of(f.did).instantiate_identity().skip_norm_wip();
                fields.push(J::O(vec![
                    ("name", J::S(f.name.to_string())),
                    ("ty", J::S(format!("{}", fty))),
                    ("pub", J::B(f.vis.is_public())),
                ]));
            }
            variants.push(J::O(vec![
                ("name", J::S(v.name.to_string())),
                ("discr", discr),
                ("fields", J::A(fields)),
            ]));
        }
        let (file, line, _, _) = self.span(tcx.def_span(did));
        J::O(vec![
            ("path", J::S(tcx.def_path_str(did))),
            ("kind", J::S(if adt.is_enum() { "enum" } else { "struct" }.to_string())),
            ("pub", J::B(tcx.visibility(did).is_public())),
            ("file", J::S(file)),
            ("ln", J::I(line)),
            ("variants", J::A(variants)),
        ])
    }

    fn export_const(&self, did: DefId) -> Option<J> {
        let tcx = self.tcx;
        if tcx.generics_of(did).requires_monomorphization(tcx) {
            return None;
        }
        let ty = tcx.type_of(did).instantiate_identity().skip_norm_wip();
        let val = match tcx.const_eval_poly(did) {
            Ok(v) => self.const_value(v, ty),
            Err(_) => J::Null,
        };
        Some(J::O(vec![
            ("path", J::S(tcx.def_path_str(did))),
            ("ty", J::S(format!("{}", ty))),
            ("val", val),
        ]))
    }

    fn const_value(&self, v: ConstValue, ty: Ty<'tcx>) -> J {
        let tcx = self.tcx;
        match v {
            ConstValue::Scalar(mir::interpret::Scalar::Int(si)) => self.scalar_int(si, ty),
            ConstValue::Slice { alloc_id, meta } => {
                // &str / &[u8] literals
                let alloc = tcx.global_alloc(alloc_id).unwrap_memory();
                let n = meta as usize;
                let bytes = alloc.inner().inspect_with_uninit_and_ptr_outside_interpreter(0..n);
                match std::str::from_utf8(bytes) {
                    Ok(s) => J::O(vec![("str", J::S(s.to_string()))]),
                    Err(_) => J::O(vec![("bytes", J::A(bytes.iter().map(|b| J::I(*b as i128)).collect()))]),
                }
            }
            ConstValue::Scalar(mir::interpret::Scalar::Ptr(ptr, _)) => {
                let (prov, _off) = ptr.into_raw_parts();
                let aid = prov.alloc_id();
                match tcx.global_alloc(aid) {
                    mir::interpret::GlobalAlloc::Static(sdid) => {
                        let mut v = vec![("static", J::S(tcx.def_path_str(sdid)))];
                        if let Ok(alloc) = tcx.eval_static_initializer(sdid) {
                            let a = alloc.inner();
                            let n = a.len();
                            if n <= 16 && a.provenance().ptrs().is_empty() {
                                let bytes = a.inspect_with_uninit_and_ptr_outside_interpreter(0..n);
                                let mut x: u128 = 0;
                                for (i, b) in bytes.iter().enumerate() {
                                    x |= (*b as u128) << (8 * i);
                                }
                                v.push(("val", J::I(x as i128)));
                            }
                        }
                        J::O(v)
                    }
                    _ => J::Null,
                }
            }
            ConstValue::ZeroSized => J::S("zst".into()),
            _ => J::Null,
        }
    }

    fn scalar_int(&self, si: ty::ScalarInt, ty: Ty<'tcx>) -> J {
        let size = si.size();
        let bits = si.to_bits(size);
        match ty.kind() {
            ty::Int(_) => {
                let sh = 128 - size.bits();
                J::I(((bits as i128) << sh) >> sh)
            }
            ty::Bool => J::B(bits != 0),
            _ => J::I(bits as i128),
        }
    }

    fn ty_j(&self, t: Ty<'tcx>) -> J {
        J::S(format!("{}", t))
    }

    fn closure_of(&self, t: Ty<'tcx>) -> Option<DefId> {
        match t.peel_refs().kind() {
            ty::Closure(d, _) | ty::Coroutine(d, _) | ty::CoroutineClosure(d, _) => Some(*d),
            _ => None,
        }
    }

    fn place(&self, body: &Body<'tcx>, p: &Place<'tcx>) -> J {
        let tcx = self.tcx;
        let mut projs = Vec::new();
        for (base, elem) in p.iter_projections() {
            let bty = base.ty(&body.local_decls, tcx);
            let s = match elem {
                ProjectionElem::Deref => "*".to_string(),
                ProjectionElem::Field(f, _) => match bty.ty.kind() {
                    ty::Adt(def, _) => {
                        let vi = bty.variant_index.unwrap_or(rustc_abi::FIRST_VARIANT);
                        format!(".{}", def.variant(vi).fields[f].name)
                    }
                    ty::Closure(d, _) | ty::Coroutine(d, _) | ty::CoroutineClosure(d, _)
                        if bty.variant_index.is_none() =>
                    {
                        let caps = d.as_local().map(|l| tcx.closure_captures(l));
                        match caps.and_then(|c| c.get(f.index())) {
                            Some(c) => format!(".^{}", c.to_string(tcx)),
                            None => format!(".{}", f.index()),
                        }
                    }
                    _ => format!(".{}", f.index()),
                },
                ProjectionElem::Downcast(name, vi) => match name {
                    Some(n) => format!("@{}", n),
                    None => format!("@#{}", vi.index()),
                },
                ProjectionElem::Index(l) => format!("[_{}]", l.index()),
                ProjectionElem::ConstantIndex { offset, from_end, .. } => {
                    if from_end {
                        format!("[-{}]", offset)
                    } else {
                        format!("[{}]", offset)
                    }
                }
                ProjectionElem::Subslice { from, to, from_end } => {
                    format!("[{}..{}{}]", from, if from_end { "-" } else { "" }, to)
                }
                _ => "?".to_string(),
            };
            projs.push(J::S(s));
        }
        J::O(vec![("l", J::I(p.local.index() as i128)), ("p", J::A(projs))])
    }

    fn operand(&self, body: &Body<'tcx>, did: DefId, o: &Operand<'tcx>) -> J {
        let tcx = self.tcx;
        match o {
            Operand::Copy(p) => J::O(vec![("k", J::S("copy".into())), ("pl", self.place(body, p))]),
            Operand::Move(p) => J::O(vec![("k", J::S("move".into())), ("pl", self.place(body, p))]),
            Operand::Constant(c) => {
                let ty = c.const_.ty();
                let mut v = vec![("k", J::S("const".into())), ("ty", self.ty_j(ty))];
                match ty.kind() {
                    ty::FnDef(d, args) => {
                        v.push(("fn", J::S(tcx.def_path_str_with_args(*d, args))));
                        v.push(("fndef", J::S(tcx.def_path_str(*d))));
                    }
                    _ => {
                        if let Const::Unevaluated(u, _) = c.const_ {
                            if u.promoted.is_none() {
                                v.push(("name", J::S(tcx.def_path_str(u.def))));
                            } else {
                                v.push(("promoted", J::I(u.promoted.unwrap().index() as i128)));
                            }
                        }
                        let env = TypingEnv::post_analysis(tcx, did);
                        match c.const_ {
                            Const::Val(cv, t) => v.push(("val", self.const_value(cv, t))),
                            _ => {
                                if ty.is_integral() || ty.is_bool() || ty.is_char() {
                                    if let Some(si) = c.const_.try_eval_scalar_int(tcx, env) {
                                        v.push(("val", self.scalar_int(si, ty)));
                                    }
                                } else if let Const::Unevaluated(u, t) = c.const_ {
                                    if u.promoted.is_none() && u.args.is_empty() {
                                        if let Ok(cv) = tcx.const_eval_poly(u.def) {
                                            v.push(("val", self.const_value(cv, t)));
                                        }
                                    }
                                }
                            }
                        }
                    }
                }
                J::O(v)
            }
            #[allow(unreachable_patterns)]
            _ => J::O(vec![("k", J::S("other".into()))]),
        }
    }

    fn rvalue(&self, body: &Body<'tcx>, did: DefId, rv: &Rvalue<'tcx>) -> J {
        let tcx = self.tcx;
        let k = |s: &str| ("k", J::S(s.to_string()));
        match rv {
            Rvalue::Use(o, ..) => J::O(vec![k("use"), ("op", self.operand(body, did, o))]),
            Rvalue::Repeat(o, _) => J::O(vec![k("repeat"), ("op", self.operand(body, did, o))]),
            Rvalue::Ref(_, bk, p) => J::O(vec![
                k("ref"),
                ("mut", J::B(matches!(bk, mir::BorrowKind::Mut { .. }))),
                ("pl", self.place(body, p)),
            ]),
            Rvalue::RawPtr(_, p) => J::O(vec![k("rawptr"), ("pl", self.place(body, p))]),
            Rvalue::Cast(ck, o, t) => J::O(vec![
                k("cast"),
                ("ck", J::S(format!("{:?}", ck).split('(').next().unwrap_or("").to_string())),
                ("op", self.operand(body, did, o)),
                ("ty", self.ty_j(*t)),
            ]),
            Rvalue::BinaryOp(op, ab) => J::O(vec![
                k("bin"),
                ("op", J::S(format!("{:?}", op))),
                ("a", self.operand(body, did, &ab.0)),
                ("b", self.operand(body, did, &ab.1)),
            ]),
            Rvalue::UnaryOp(op, a) => J::O(vec![
                k("un"),
                ("op", J::S(format!("{:?}", op))),
                ("a", self.operand(body, did, a)),
            ]),
            Rvalue::Discriminant(p) => {
                let pty = p.ty(&body.local_decls, tcx).ty;
                J::O(vec![k("discr"), ("pl", self.place(body, p)), ("ty", self.ty_j(pty))])
            }
            Rvalue::Aggregate(ak, ops) => {
                let mut v = vec![k("agg")];
                match &**ak {
                    AggregateKind::Adt(adt, vi, _, _, _) => {
                        let def = tcx.adt_def(*adt);
                        let var = def.variant(*vi);
                        v.push(("adt", J::S(tcx.def_path_str(*adt))));
                        v.push(("variant", J::S(var.name.to_string())));
                        v.push((
                            "fields",
                            J::A(var.fields.iter().map(|f| J::S(f.name.to_string())).collect()),
                        ));
                    }
                    AggregateKind::Tuple => v.push(("adt", J::S("(tuple)".into()))),
                    AggregateKind::Array(_) => v.push(("adt", J::S("(array)".into()))),
                    AggregateKind::Closure(d, _)
                    | AggregateKind::Coroutine(d, _)
                    | AggregateKind::CoroutineClosure(d, _) => {
                        v.push(("adt", J::S("(closure)".into())));
                        v.push(("closure", J::S(tcx.def_path_str(*d))));
                        if let Some(l) = d.as_local() {
                            let caps: Vec<J> = tcx
                                .closure_captures(l)
                                .iter()
                                .map(|c| J::S(c.to_string(tcx)))
                                .collect();
                            v.push(("fields", J::A(caps)));
                        }
                    }
                    _ => v.push(("adt", J::S("(other)".into()))),
                }
                v.push(("ops", J::A(ops.iter().map(|o| self.operand(body, did, o)).collect())));
                J::O(v)
            }
            Rvalue::CopyForDeref(p) => J::O(vec![
                k("use"),
                ("op", J::O(vec![("k", J::S("copy".into())), ("pl", self.place(body, p))])),
            ]),
            Rvalue::ThreadLocalRef(d) => J::O(vec![k("tls"), ("def", J::S(tcx.def_path_str(*d)))]),
            other => J::O(vec![k("other"), ("dbg", J::S(format!("{:?}", other).chars().take(80).collect()))]),
        }
    }

    fn export_fn(&self, did: DefId) -> J {
        let tcx = self.tcx;
        let body: &Body<'tcx> = tcx.optimized_mir(did);
        let (file, line, _, _) = self.span(tcx.def_span(did));
        let env = TypingEnv::post_analysis(tcx, did);
        let kind = tcx.def_kind(did);
        let mut v: Vec<(&'static str, J)> = vec![
            ("path", J::S(tcx.def_path_str(did))),
            ("kind", J::S(format!("{:?}", kind))),
            ("file", J::S(file.clone())),
            ("ln", J::I(line)),
            ("argc", J::I(body.arg_count as i128)),
        ];
        if matches!(kind, DefKind::Fn | DefKind::AssocFn) {
            v.push(("pub", J::B(tcx.visibility(did).is_public())));
        }
        if kind == DefKind::Closure {
            v.push(("parent", J::S(tcx.def_path_str(tcx.typeck_root_def_id(did)))));
            v.push(("coroutine", J::B(tcx.is_coroutine(did))));
            if let Some(l) = did.as_local() {
                let caps: Vec<J> =
                    tcx.closure_captures(l).iter().map(|c| J::S(c.to_string(tcx))).collect();
                v.push(("captures", J::A(caps)));
            }
        }
        // locals
        let mut locals = Vec::new();
        for (_, d) in body.local_decls.iter_enumerated() {
            let mut lv = vec![("ty", self.ty_j(d.ty))];
            if d.mutability.is_mut() {
                lv.push(("mut", J::B(true)));
            }
            if let Some(c) = self.closure_of(d.ty) {
                lv.push(("closure", J::S(tcx.def_path_str(c))));
            }
            locals.push(J::O(lv));
        }
        v.push(("locals", J::A(locals)));
        let mut dbg = Vec::new();
        for vdi in &body.var_debug_info {
            if let VarDebugInfoContents::Place(p) = &vdi.value {
                dbg.push(J::O(vec![("name", J::S(vdi.name.to_string())), ("pl", self.place(body, p))]));
            }
        }
        v.push(("vars", J::A(dbg)));
        v.push(("blocks", self.export_blocks(body, did, &file)));
        let mut proms = Vec::new();
        for pb in tcx.promoted_mir(did).iter() {
            proms.push(self.export_blocks(pb, did, &file));
        }
        v.push(("promoted", J::A(proms)));
        J::O(v)
    }

    fn export_blocks(&self, body: &Body<'tcx>, did: DefId, file: &str) -> J {
        let tcx = self.tcx;
        let env = TypingEnv::post_analysis(tcx, did);
        let file = file.to_string();
        let mut blocks = Vec::new();
        for (_bb, data) in body.basic_blocks.iter_enumerated() {
            let mut stmts = Vec::new();
            for st in &data.statements {
                match &st.kind {
                    StatementKind::Assign(b) => {
                        let (lhs, rv) = &**b;
                        let mut sv = vec![
                            ("k", J::S("assign".into())),
                            ("lhs", self.place(body, lhs)),
                            ("rv", self.rvalue(body, did, rv)),
                        ];
                        sv.extend(self.span_j(st.source_info.span, &file));
                        stmts.push(J::O(sv));
                    }
                    StatementKind::SetDiscriminant { place, variant_index } => {
                        let pty = place.ty(&body.local_decls, tcx).ty;
                        let vname = match pty.kind() {
                            ty::Adt(def, _) => def.variant(*variant_index).name.to_string(),
                            _ => format!("#{}", variant_index.index()),
                        };
                        let mut sv = vec![
                            ("k", J::S("setdiscr".into())),
                            ("lhs", self.place(body, place)),
                            ("variant", J::S(vname)),
                            ("vi", J::I(variant_index.index() as i128)),
                        ];
                        sv.extend(self.span_j(st.source_info.span, &file));
                        stmts.push(J::O(sv));
                    }
                    _ => {}
                }
            }
            let term = data.terminator();
            let bbj = |b: &BasicBlock| J::I(b.index() as i128);
            let mut tv: Vec<(&'static str, J)> = Vec::new();
            match &term.kind {
                TerminatorKind::Goto { target } => {
                    tv.push(("k", J::S("goto".into())));
                    tv.push(("t", bbj(target)));
                }
                TerminatorKind::SwitchInt { discr, targets } => {
                    tv.push(("k", J::S("switch".into())));
                    tv.push(("op", self.operand(body, did, discr)));
                    tv.push(("ty", self.ty_j(discr.ty(&body.local_decls, tcx))));
                    let mut ts = Vec::new();
                    for (val, t) in targets.iter() {
                        ts.push(J::A(vec![J::I(val as i128), bbj(&t)]));
                    }
                    tv.push(("targets", J::A(ts)));
                    tv.push(("otherwise", bbj(&targets.otherwise())));
                }
                TerminatorKind::Call { func, args, destination, target, fn_span, .. } => {
                    tv.push(("k", J::S("call".into())));
                    let fty = func.ty(&body.local_decls, tcx);
                    match fty.kind() {
                        ty::FnDef(cd, cargs) => {
                            tv.push(("src", J::S(tcx.def_path_str(*cd))));
                            tv.push(("srcg", J::S(tcx.def_path_str_with_args(*cd, cargs))));
                            let resolved = Instance::try_resolve(tcx, env, *cd, cargs).ok().flatten();
                            match resolved {
                                Some(inst) => {
                                    let rd = inst.def_id();
                                    tv.push(("fn", J::S(tcx.def_path_str(rd))));
                                    tv.push(("fng", J::S(tcx.def_path_str_with_args(rd, inst.args))));
                                    tv.push(("local", J::B(rd.is_local())));
                                    if matches!(inst.def, ty::InstanceKind::Virtual(..)) {
                                        tv.push(("virtual", J::B(true)));
                                    }
                                }
                                None => {
                                    tv.push(("fn", J::S(tcx.def_path_str(*cd))));
                                    tv.push(("unresolved", J::B(true)));
                                }
                            }
                        }
                        _ => {
                            tv.push(("fn", J::S("(indirect)".into())));
                            tv.push(("fnop", self.operand(body, did, func)));
                        }
                    }
                    tv.push((
                        "args",
                        J::A(args.iter().map(|a| self.operand(body, did, &a.node)).collect()),
                    ));
                    tv.push(("dest", self.place(body, destination)));
                    tv.push(("t", target.as_ref().map(|t| bbj(t)).unwrap_or(J::Null)));
                    let (_, l, c, _) = self.span(*fn_span);
                    tv.push(("fnln", J::I(l)));
                    tv.push(("fncol", J::I(c)));
                }
                TerminatorKind::Assert { cond, expected, msg, target, .. } => {
                    tv.push(("k", J::S("assert".into())));
                    tv.push(("cond", self.operand(body, did, cond)));
                    tv.push(("expected", J::B(*expected)));
                    let m = format!("{:?}", msg);
                    let short: String =
                        m.chars().take_while(|c| c.is_alphanumeric() || *c == '_').collect();
                    tv.push(("msg", J::S(short)));
                    tv.push(("msgfull", J::S(m.chars().take(120).collect())));
                    match &**msg {
                        mir::AssertKind::BoundsCheck { len, index } => {
                            tv.push(("len", self.operand(body, did, len)));
                            tv.push(("index", self.operand(body, did, index)));
                        }
                        mir::AssertKind::Overflow(op, a, b) => {
                            tv.push(("binop", J::S(format!("{:?}", op))));
                            tv.push(("a", self.operand(body, did, a)));
                            tv.push(("b", self.operand(body, did, b)));
                        }
                        mir::AssertKind::DivisionByZero(a) | mir::AssertKind::RemainderByZero(a) | mir::AssertKind::OverflowNeg(a) => {
                            tv.push(("a", self.operand(body, did, a)));
                        }
                        _ => {}
                    }
                    tv.push(("t", bbj(target)));
                }
                TerminatorKind::Drop { place, target, .. } => {
                    tv.push(("k", J::S("drop".into())));
                    tv.push(("pl", self.place(body, place)));
                    tv.push(("ty", self.ty_j(place.ty(&body.local_decls, tcx).ty)));
                    tv.push(("t", bbj(target)));
                }
                TerminatorKind::Return => tv.push(("k", J::S("return".into()))),
                TerminatorKind::Unreachable => tv.push(("k", J::S("unreachable".into()))),
                TerminatorKind::UnwindResume => tv.push(("k", J::S("resume".into()))),
                TerminatorKind::UnwindTerminate(_) => tv.push(("k", J::S("terminate".into()))),
                TerminatorKind::Yield { resume, .. } => {
                    tv.push(("k", J::S("yield".into())));
                    tv.push(("t", bbj(resume)));
                }
                TerminatorKind::CoroutineDrop => tv.push(("k", J::S("codrop".into()))),
                TerminatorKind::FalseEdge { real_target, .. } => {
                    tv.push(("k", J::S("goto".into())));
                    tv.push(("t", bbj(real_target)));
                }
                TerminatorKind::FalseUnwind { real_target, .. } => {
                    tv.push(("k", J::S("goto".into())));
                    tv.push(("t", bbj(real_target)));
                }
                TerminatorKind::InlineAsm { .. } => tv.push(("k", J::S("asm".into()))),
                TerminatorKind::TailCall { .. } => tv.push(("k", J::S("tailcall".into()))),
            }
            tv.extend(self.span_j(term.source_info.span, &file));
            blocks.push(J::O(vec![
                ("cleanup", J::B(data.is_cleanup)),
                ("stmts", J::A(stmts)),
                ("term", J::O(tv)),
            ]));
        }
        J::A(blocks)
    }
}

fn main() {
    let mut args: Vec<String> = env::args().collect();
    if args.len() > 1 && (args[1].ends_with("rustc") || args[1].contains("/rustc")) {
        args.remove(1);
    }
    rustc_driver::run_compiler(&args, &mut Cb);
}
