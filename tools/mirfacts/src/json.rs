// Minimal JSON tree and writer (the driver has no crate dependencies).
pub enum J {
    Null,
    B(bool),
    I(i128),
    S(String),
    A(Vec<J>),
    O(Vec<(&'static str, J)>),
}

fn esc(s: &str, out: &mut String) {
    out.push('"');
    for c in s.chars() {
        match c {
            '"' => out.push_str("\\\""),
            '\\' => out.push_str("\\\\"),
            '\n' => out.push_str("\\n"),
            '\r' => out.push_str("\\r"),
            '\t' => out.push_str("\\t"),
            c if (c as u32) < 0x20 => out.push_str(&format!("\\u{:04x}", c as u32)),
            c => out.push(c),
        }
    }
    out.push('"');
}

impl J {
    pub fn write(&self, out: &mut String) {
        match self {
            J::Null => out.push_str("null"),
            J::B(b) => out.push_str(if *b { "true" } else { "false" }),
            J::I(i) => out.push_str(&i.to_string()),
            J::S(s) => esc(s, out),
            J::A(v) => {
                out.push('[');
                for (i, x) in v.iter().enumerate() {
                    if i > 0 {
                        out.push(',');
                    }
                    x.write(out);
                }
                out.push(']');
            }
            J::O(v) => {
                out.push('{');
                for (i, (k, x)) in v.iter().enumerate() {
                    if i > 0 {
                        out.push(',');
                    }
                    esc(k, out);
                    out.push(':');
                    x.write(out);
                }
                out.push('}');
            }
        }
    }
}
