// Compact export of the type-checked HIR expression tree of a body (with nested closures).
use crate::json::J;
use crate::Ex;
use rustc_hir as hir;
use rustc_hir::def::Res;
use rustc_hir::def_id::LocalDefId;
use rustc_hir::intravisit::{self, Visitor};
use rustc_middle::ty::TypeckResults;

struct Node {
    v: Vec<(&'static str, J)>,
    ch: Vec<J>,
}

struct B<'a, 'tcx> {
    ex: &'a Ex<'tcx>,
    tr: &'tcx TypeckResults<'tcx>,
    file: String,
    stack: Vec<Node>,
}

impl<'a, 'tcx> B<'a, 'tcx> {
    fn open(&mut self, k: &str, sp: rustc_span::Span) {
        let (f, l, c, m) = self.ex.span(sp);
        let mut v = vec![("k", J::S(k.to_string())), ("ln", J::I(l)), ("col", J::I(c))];
        if f != self.file {
            v.push(("file", J::S(f)));
        }
        if !m.is_empty() {
            v.push(("mac", J::S(m)));
        }
        self.stack.push(Node { v, ch: Vec::new() });
    }
    fn attr(&mut self, k: &'static str, j: J) {
        self.stack.last_mut().unwrap().v.push((k, j));
    }
    fn close(&mut self) {
        let n = self.stack.pop().unwrap();
        let mut v = n.v;
        if !n.ch.is_empty() {
            v.push(("ch", J::A(n.ch)));
        }
        let j = J::O(v);
        self.stack.last_mut().unwrap().ch.push(j);
    }
    fn res_str(&self, res: Res) -> String {
        let tcx = self.ex.tcx;
        match res {
            Res::Local(id) => format!("local:{}", tcx.hir_name(id)),
            Res::Def(_, d) => tcx.def_path_str(d),
            Res::SelfCtor(d) | Res::SelfTyAlias { alias_to: d, .. } => tcx.def_path_str(d),
            other => format!("{:?}", other),
        }
    }
}

impl<'a, 'tcx> Visitor<'tcx> for B<'a, 'tcx> {
    fn visit_expr(&mut self, e: &'tcx hir::Expr<'tcx>) {
        use hir::ExprKind::*;
        let tcx = self.ex.tcx;
        if let DropTemps(inner) = e.kind {
            return self.visit_expr(inner);
        }
        let kind: &str = match e.kind {
            ConstBlock(..) => "constblock",
            Array(..) => "array",
            Call(..) => "call",
            MethodCall(..) => "mcall",
            Use(..) => "use",
            Tup(..) => "tup",
            Binary(..) => "bin",
            Unary(..) => "un",
            Lit(..) => "lit",
            Cast(..) => "cast",
            Type(..) => "type",
            DropTemps(..) => "droptemps",
            Let(..) => "let",
            If(..) => "if",
            Loop(..) => "loop",
            Match(..) => "match",
            Closure(..) => "closure",
            Block(..) => "block",
            Assign(..) => "assign",
            AssignOp(..) => "assignop",
            Field(..) => "field",
            Index(..) => "index",
            Path(..) => "path",
            AddrOf(..) => "addrof",
            Break(..) => "break",
            Continue(..) => "continue",
            Ret(..) => "ret",
            Become(..) => "become",
            InlineAsm(..) => "asm",
            OffsetOf(..) => "offsetof",
            Struct(..) => "struct",
            Repeat(..) => "repeat",
            Yield(..) => "yield",
            UnsafeBinderCast(..) => "ubcast",
            Err(..) => "err",
        };
        self.open(kind, e.span);
        match e.kind {
            MethodCall(seg, ..) => {
                self.attr("name", J::S(seg.ident.to_string()));
                if let Some(d) = self.tr.type_dependent_def_id(e.hir_id) {
                    self.attr("callee", J::S(tcx.def_path_str(d)));
                }
                self.attr("ty", J::S(format!("{}", self.tr.expr_ty(e))));
            }
            Call(f, _) => {
                if let Path(ref qp) = f.kind {
                    let res = self.tr.qpath_res(qp, f.hir_id);
                    self.attr("callee", J::S(self.res_str(res)));
                }
                self.attr("ty", J::S(format!("{}", self.tr.expr_ty(e))));
            }
            Path(ref qp) => {
                let res = self.tr.qpath_res(qp, e.hir_id);
                self.attr("res", J::S(self.res_str(res)));
                self.attr("ty", J::S(format!("{}", self.tr.expr_ty(e))));
            }
            Field(_, ident) => {
                self.attr("name", J::S(ident.to_string()));
                self.attr("ty", J::S(format!("{}", self.tr.expr_ty(e))));
            }
            Binary(op, ..) => self.attr("op", J::S(op.node.as_str().to_string())),
            AssignOp(op, ..) => self.attr("op", J::S(op.node.as_str().to_string())),
            Unary(op, _) => self.attr("op", J::S(format!("{:?}", op))),
            Lit(l) => {
                let s = format!("{:?}", l.node);
                self.attr("val", J::S(s.chars().take(100).collect()));
            }
            Struct(qp, fields, _) => {
                let res = self.tr.qpath_res(qp, e.hir_id);
                self.attr("res", J::S(self.res_str(res)));
                self.attr(
                    "fields",
                    J::A(fields.iter().map(|f| J::S(f.ident.to_string())).collect()),
                );
            }
            Cast(..) => self.attr("ty", J::S(format!("{}", self.tr.expr_ty(e)))),
            Match(_, _, src) => self.attr("src", J::S(format!("{:?}", src))),
            Loop(_, _, src, _) => self.attr("src", J::S(format!("{:?}", src))),
            Closure(c) => {
                self.attr("def", J::S(tcx.def_path_str(c.def_id.to_def_id())));
                let body = tcx.hir_body(c.body);
                self.visit_expr(body.value);
                self.close();
                return;
            }
            _ => {}
        }
        intravisit::walk_expr(self, e);
        self.close();
    }

    fn visit_stmt(&mut self, s: &'tcx hir::Stmt<'tcx>) {
        let k = match s.kind {
            hir::StmtKind::Let(..) => "letstmt",
            hir::StmtKind::Item(..) => "item",
            hir::StmtKind::Expr(..) => "exprstmt",
            hir::StmtKind::Semi(..) => "semi",
        };
        self.open(k, s.span);
        intravisit::walk_stmt(self, s);
        self.close();
    }

    fn visit_arm(&mut self, a: &'tcx hir::Arm<'tcx>) {
        self.open("arm", a.span);
        self.attr("guard", J::B(a.guard.is_some()));
        intravisit::walk_arm(self, a);
        self.close();
    }

    fn visit_pat(&mut self, p: &'tcx hir::Pat<'tcx>) {
        use hir::PatKind::*;
        self.open("pat", p.span);
        match p.kind {
            Binding(_, _, ident, _) => {
                self.attr("pk", J::S("bind".into()));
                self.attr("name", J::S(ident.to_string()));
            }
            TupleStruct(ref qp, ..) => {
                let res = self.tr.qpath_res(qp, p.hir_id);
                self.attr("pk", J::S("tuplestruct".into()));
                self.attr("res", J::S(self.res_str(res)));
            }
            Struct(ref qp, fields, _) => {
                let res = self.tr.qpath_res(qp, p.hir_id);
                self.attr("pk", J::S("struct".into()));
                self.attr("res", J::S(self.res_str(res)));
                self.attr(
                    "fields",
                    J::A(fields.iter().map(|f| J::S(f.ident.to_string())).collect()),
                );
            }
            Wild => self.attr("pk", J::S("wild".into())),
            Or(..) => self.attr("pk", J::S("or".into())),
            Tuple(..) => self.attr("pk", J::S("tuple".into())),
            Ref(..) => self.attr("pk", J::S("ref".into())),
            Expr(pe) => {
                self.attr("pk", J::S("expr".into()));
                match pe.kind {
                    hir::PatExprKind::Path(ref qp) => {
                        let res = self.tr.qpath_res(qp, pe.hir_id);
                        self.attr("res", J::S(self.res_str(res)));
                    }
                    hir::PatExprKind::Lit { lit, .. } => {
                        self.attr("val", J::S(format!("{:?}", lit.node).chars().take(60).collect()));
                    }
                }
            }
            _ => self.attr("pk", J::S("other".into())),
        }
        intravisit::walk_pat(self, p);
        self.close();
    }
}

pub fn export_hir<'tcx>(ex: &Ex<'tcx>, ldid: LocalDefId) -> Option<J> {
    let tcx = ex.tcx;
    let did = ldid.to_def_id();
    if tcx.is_closure_like(did) {
        return None; // nested into the parent
    }
    let body = tcx.hir_body_owned_by(ldid);
    let tr = tcx.typeck(ldid);
    let (file, line, _, _) = ex.span(tcx.def_span(did));
    let mut b = B { ex, tr, file: file.clone(), stack: vec![Node { v: vec![], ch: vec![] }] };
    let params: Vec<J> = body
        .params
        .iter()
        .map(|p| match p.pat.kind {
            hir::PatKind::Binding(_, _, id, _) => J::S(id.to_string()),
            _ => J::S("_".into()),
        })
        .collect();
    b.visit_expr(body.value);
    let root = b.stack.pop().unwrap();
    Some(J::O(vec![
        ("path", J::S(tcx.def_path_str(did))),
        ("file", J::S(file)),
        ("ln", J::I(line)),
        ("params", J::A(params)),
        ("body", J::A(root.ch)),
    ]))
}
