#!/bin/sh
# run every archived seeded change through all rules; one line per seed
cd /verif
for d in seeded/C*-*; do
  [ -f $d/patch.diff ] || continue
  own=$(basename $d | cut -d- -f1)
  r=$(tools/seedcheck.sh $d 2>&1 | grep "^caught-by:" | sed 's/caught-by: *//')
  case " $r" in *" $own:"*) s=own ;; *) if [ -z "$r" ]; then s=MISSED; else s=other-only; fi ;; esac
  echo "$s  $(basename $d)  $r"
done
