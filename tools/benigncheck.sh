#!/bin/sh
# usage: tools/benigncheck.sh <diff>...  — apply each behaviour-preserving refactoring to /repo, run every property's rules, undo it.
cd /repo || exit 2
for D in "$@"; do
  D=$(cd /verif && readlink -f "$D")
  [ -n "$(git status --porcelain --untracked-files=no)" ] && { echo "/repo is not clean"; exit 2; }
  echo "=== $D"
  git apply "$D" || { echo "  does not apply"; continue; }
  (cd /verif && python3 tools/fastcheck.py 2>&1 | cut -c1-300)
  git checkout -- .
done
