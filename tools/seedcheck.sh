#!/bin/sh
# usage: tools/seedcheck.sh seeded/<id> — apply the seeded change to /repo, run every check, undo it.
D=$(readlink -f "$1")
cd /repo || exit 2
[ -n "$(git status --porcelain --untracked-files=no)" ] && { echo "/repo is not clean"; exit 2; }
git apply "$D/patch.diff" || { echo "patch does not apply"; exit 2; }
cd /verif
OUT=""
for q in C01 C02 C03 C04 C05 C06 C07 C08 C09 C10 C11 C12 C13 C14 C15 C16 C17 C18 C19 C20; do
  R=$(GV_EVIDENCE_DIR=/tmp/gv-seed-evidence ./check $q 2>/dev/null | grep -A2 "^VIOLATION" | grep "^  rule" | awk '{print $2}' | sort -u | tr '\n' ' ')
  [ -n "$R" ] && OUT="$OUT $q:[$R]"
done
git -C /repo checkout -- .
rm -rf /tmp/gv-seed-evidence
echo "caught-by:$OUT"
