#!/bin/sh
# usage: tools/seedcheck.sh seeded/<id> — apply the seeded change to /repo, run every property's rules, undo it.
D=$(readlink -f "$1")
cd /repo || exit 2
[ -n "$(git status --porcelain --untracked-files=no)" ] && { echo "/repo is not clean"; exit 2; }
git apply "$D/patch.diff" || { echo "patch does not apply"; exit 2; }
cd /verif
python3 tools/fastcheck.py
git -C /repo checkout -- .
