#!/bin/sh
# usage: tools/confirm_seed.sh Cxx  — confirm a sub-agent's seeded change in its scratch worktree
# /tmp/seed-Cxx (deliverables in /tmp/seed-Cxx-out): demo passes without / fails with the change, all
# stable tests pass with the change.  Prints a summary; does not touch /repo.
P=$1; W=/tmp/seed-$P; O=/tmp/seed-$P-out
cd $W || exit 2
git reset -q --hard HEAD; git clean -q -fd -e target
git apply $O/demo.diff || { echo "demo.diff does not apply"; exit 2; }
MOD=$(grep -ho "mod [a-z_0-9]*seeded[a-z_0-9]*" $O/demo.diff | head -1 | awk '{print $2}')
[ -z "$MOD" ] && MOD=seeded
echo "== demo module filter: $MOD"
export CARGO_NET_OFFLINE=true
R1=$(cargo test --offline -p ${PKG:-gneiss-mqtt} --features ${FEATURES:-testing,tokio,threaded} --lib $MOD 2>&1 | grep "^test result" | head -1)
echo "demo WITHOUT change: $R1"
git apply $O/patch.diff || { echo "patch.diff does not apply"; exit 2; }
cargo build --workspace --offline 2>&1 | tail -1
R2=$(cargo test --offline -p ${PKG:-gneiss-mqtt} --features ${FEATURES:-testing,tokio,threaded} --lib $MOD 2>&1 | grep "^test result" | head -1)
echo "demo WITH change:    $R2"
git apply -R $O/demo.diff
/verif/tools/baseline_check.sh $W | head -5
git reset -q --hard HEAD; git clean -q -fd -e target
