#!/usr/bin/env python3
"""usage: mk_seed_prompt.py Cxx N  -> prints the sub-agent prompt for seed Cxx-N (worktree /tmp/seed-Cxx-N).
Only the property text and the one-line summaries of earlier seeded changes (to avoid duplicates) are given."""
import json, glob, sys, os
V = os.path.dirname(os.path.dirname(os.path.abspath(__file__)))
pid, n = sys.argv[1], sys.argv[2]
prop = [json.loads(l) for l in open(V + '/properties.jsonl') if json.loads(l)['id'] == pid][0]
text = '%s — %s\n\n%s' % (prop['id'], prop['title'], prop['statement'])
t = open(V + '/seeded/' + ('PROMPT3.txt' if int(n) >= 3 else 'PROMPT.txt')).read()
t = t.replace('WORKTREE', '/tmp/seed-%s-%s' % (pid, n)).replace('OUTDIR', '/tmp/seed-%s-%s-out' % (pid, n)).replace('PROPTEXT', text)
prev = []
for d in sorted(glob.glob(V + '/seeded/%s-*' % pid)):
    try: prev.append(json.load(open(d + '/meta.json'))['summary'])
    except Exception: pass
if prev:
    extra = ('\nEarlier rounds already produced the following change(s) for this property. Do NOT repeat them or a close variant; '
             'pick a DIFFERENT clause of the property and a different mechanism / function in the code (read the whole relevant code first, '
             'and prefer a subtle change a reviewer could plausibly wave through):\n' + ''.join('  - %s\n' % p for p in prev))
    t = t.replace('Then write a DEMONSTRATION', extra + '\nThen write a DEMONSTRATION').replace('PREVIOUS\n', extra.lstrip('\n') + '\n')
t = t.replace('PREVIOUS\n', '')
if int(n) < 3:
  t += ('\nPractical: a copy of a warm cargo target directory is already in the worktree (target/), so builds are incremental. '
      'Other agents are building on this machine at the same time; use `cargo nextest run ... --test-threads 8` once for the full-suite check near the end '
      '(timing-sensitive "longtests" can flake under load: re-run a failing one alone before concluding). Demo test module name must contain the word `seeded`.\n')
print(t)
