#!/bin/bash
# usage: tools/trymut.sh <file relative to repo> <python-regex-old> <new> [props...]   (development tool)
# copies /repo (without target/.git) to a scratch dir, applies one substitution (first match), runs fastcheck there.
set -e
F="$1"; OLD="$2"; NEW="$3"; shift 3
D=$(mktemp -d /tmp/trymut.XXXXXX)
rsync -a --exclude target --exclude .git /repo/ "$D/"
python3 - "$D/$F" "$OLD" "$NEW" <<'P'
import re,sys
p,old,new=sys.argv[1:4]
s=open(p).read()
n=len(re.findall(old,s,flags=re.S))
assert n>=1, 'pattern not found'
s2=re.sub(old,lambda m:new,s,count=1,flags=re.S)
open(p,'w').write(s2)
print('matches:',n,'(first replaced)')
P
GV_REPO="$D" GV_EVIDENCE_DIR="$D/.evid" python3 /verif/tools/fastcheck.py "$@" 2>&1 | tail -15
rm -rf "$D"
