"""dev helper: from tools.repl import *  -> F, ctx(prop), show, prims"""
import os, sys
V = os.path.dirname(os.path.dirname(os.path.abspath(__file__)))
sys.path.insert(0, V)
from analysis import factgen, mir, engine, prims
from analysis.mir import show
paths, info = factgen.ensure_facts('all')
F = mir.Facts(paths)
def ctx(p): return engine.Ctx(p, F, 'all')
