#!/usr/bin/env python3
"""Regenerate the seeded-changes table in DESIGN.md (between the SEEDTABLE markers) from seeded/*/meta.json."""
import glob, json, os, re
V = os.path.dirname(os.path.dirname(os.path.abspath(__file__)))
rows = ['| seed | property | change (needs) | caught at first by | caught now by | strengthening |', '|---|---|---|---|---|---|']
for d in sorted(glob.glob(os.path.join(V, 'seeded', '*'))):
    mp = os.path.join(d, 'meta.json')
    if not os.path.exists(mp):
        continue
    m = json.load(open(mp))
    own = m['property']
    def fmt(l):
        if not l:
            return '**missed**'
        return ', '.join(('**%s**' % x) if x.startswith(own + ':') else x for x in l)
    rows.append('| %s | %s | %s (needs: %s) | %s | %s | %s |' % (
        os.path.basename(d), own, m['summary'].replace('|', '/'), m['needs'].replace('|', '/'),
        fmt(m.get('caught_by_initial')), fmt(m.get('caught_by_final')), (m.get('strengthened') or '—').replace('|', '/')))
tbl = '\n'.join(rows)
p = os.path.join(V, 'DESIGN.md')
s = open(p).read()
s2 = re.sub(r'<!-- SEEDTABLE -->.*?<!-- /SEEDTABLE -->', lambda _: '<!-- SEEDTABLE -->\n' + tbl + '\n<!-- /SEEDTABLE -->', s, flags=re.S)
open(p, 'w').write(s2)
print(tbl)
