#!/usr/bin/env python3
"""Checker self-test: apply each mutant of mutants/spec.py to a scratch copy of /repo (outside
/repo and /verif, removed immediately), run the owning property's check on it and verify the
expected rule fires; benign refactorings must raise no violation in any check.
usage: tools/selftest.py [--props C01,C02] [--jobs N] [--only name-substring]"""
import argparse
import json
import os
import re
import shutil
import subprocess
import sys
import tempfile
import time
from concurrent.futures import ThreadPoolExecutor

VERIF = os.path.dirname(os.path.dirname(os.path.abspath(__file__)))
sys.path.insert(0, VERIF)
REPO = os.environ.get('GV_REPO', '/repo')
ALL = ['C%02d' % i for i in range(1, 21)]


def load_spec():
    ns = {}
    with open(os.path.join(VERIF, 'mutants', 'spec.py')) as f:
        exec(f.read(), ns)
    return ns['M']


def run_one(m, props_filter):
    name, prop, path, old, new, expect = m
    src = os.path.join(REPO, path)
    try:
        text = open(src).read()
    except OSError:
        return (name, prop, 'stale', 'file missing')
    if text.count(old) != 1:
        return (name, prop, 'stale', '`old` text occurs %d times in %s' % (text.count(old), path))
    tmp = tempfile.mkdtemp(prefix='gv-scratch.')
    try:
        subprocess.check_call(['rsync', '-a', '--exclude', 'target', '--exclude', '.git', REPO + '/', tmp + '/'])
        with open(os.path.join(tmp, path), 'w') as f:
            f.write(text.replace(old, new))
        props = [prop] if prop else ALL
        if props_filter:
            props = [p for p in props if p in props_filter] or ([] if prop else [])
        fired = []
        errors = []
        for p in props:
            env = dict(os.environ, GV_REPO=tmp, GV_EVIDENCE_DIR=os.path.join(tmp, '.evidence'))
            r = subprocess.run([os.path.join(VERIF, 'check'), p], env=env, stdout=subprocess.PIPE, stderr=subprocess.STDOUT, text=True)
            if r.returncode == 2:
                errors.append('%s: %s' % (p, r.stdout.strip().splitlines()[-1][:200] if r.stdout.strip() else 'error'))
            for mm in re.finditer(r'^\s+rule (\S+) ', r.stdout, re.M):
                fired.append('%s:%s' % (p, mm.group(1)))
        if errors:
            return (name, prop, 'error', '; '.join(errors))
        if expect is None:
            return (name, prop, 'ok' if not fired else 'FALSE-ALARM', ','.join(sorted(set(fired))))
        hit = [f for f in fired if f.split(':')[1].startswith(expect)]
        return (name, prop, 'ok' if hit else 'MISSED', ','.join(sorted(set(fired))) or 'no rule fired')
    finally:
        shutil.rmtree(tmp, ignore_errors=True)


def main():
    ap = argparse.ArgumentParser()
    ap.add_argument('--props')
    ap.add_argument('--jobs', type=int, default=4)
    ap.add_argument('--only')
    ap.add_argument('--json')
    a = ap.parse_args()
    pf = a.props.split(',') if a.props else None
    spec = load_spec()
    sel = []
    for m in spec:
        if a.only and not any(o in m[0] for o in a.only.split(',')):
            continue
        if pf and m[1] is not None and m[1] not in pf:
            continue
        sel.append(m)
    t0 = time.time()
    with ThreadPoolExecutor(max_workers=a.jobs) as ex:
        res = list(ex.map(lambda m: run_one(m, pf), sel))
    bad = 0
    for name, prop, verdict, detail in res:
        print('%-12s %-48s %-5s %s' % (verdict, name, prop or 'all', detail[:150]))
        if verdict in ('MISSED', 'FALSE-ALARM', 'error'):
            bad += 1
    print('selftest: %d mutants, %d ok, %d stale, %d bad, %.0fs' % (len(res), sum(1 for r in res if r[2] == 'ok'), sum(1 for r in res if r[2] == 'stale'), bad, time.time() - t0))
    if a.json:
        with open(a.json, 'w') as f:
            json.dump([{'name': r[0], 'property': r[1], 'verdict': r[2], 'detail': r[3]} for r in res], f, indent=1)
    return 1 if bad else 0


if __name__ == '__main__':
    sys.exit(main())
