#!/bin/sh
# usage: tools/mutcheck.sh <patch-file> [props...]   — apply a patch to a scratch copy of /repo
# (outside /repo and /verif), run the given checks against it, remove the copy.
set -u
PATCH=$(readlink -f "$1"); shift
PROPS="${*:-C01 C02 C03 C04 C05 C06 C07 C08 C09 C10 C11 C12 C13 C14 C15 C16 C17 C18 C19 C20}"
S=$(mktemp -d /tmp/gv-scratch.XXXXXX)
rsync -a --exclude target --exclude .git /repo/ "$S/"
if ! (cd "$S" && patch -p1 -s < "$PATCH"); then echo "PATCH FAILED"; rm -rf "$S"; exit 3; fi
cd /verif
for p in $PROPS; do
  [ -f analysis/rules/$(echo $p | tr A-Z a-z).py ] || continue
  GV_REPO="$S" GV_EVIDENCE_DIR="$S/.evidence" ./check $p 2>/dev/null | grep -E "^VIOLATION|^ERROR|^  rule|tier=" | sed "s#$S/##g" | awk -v p=$p '/VIOLATION/{v++} {print} END{}' 
done
rm -rf "$S"
