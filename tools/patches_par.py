#!/usr/bin/env python3
"""Development tool: run the rules of all 20 properties on many patches in parallel, each applied to a worker's own scratch copy of
/repo with its own cargo target and fact cache (nothing under /repo or /verif/.cache is touched).
usage: tools/patches_par.py [--jobs N] seeds | benign | mutants | <patch files...>
  seeds  : every seeded/C*/patch.diff  -> prints the rules that fire; a seed is OK when a rule of its own property fires
  benign : every seeded/benign/B*.diff -> OK when nothing fires
The registered checks are `./check Cxx`; tools/seedcheck.sh applies a patch to /repo itself (the prescribed way) for single seeds."""
import glob, json, multiprocessing as mp, os, subprocess, sys, time
V = os.path.dirname(os.path.dirname(os.path.abspath(__file__)))
sys.path.insert(0, V)
sys.path.insert(0, os.path.join(V, 'tools'))
import mutsweep


def _work(patch):
    from analysis import factgen
    import shutil
    repo = mutsweep._W['repo']
    t0 = time.time()
    res = {'patch': patch}
    r = subprocess.run(['git', 'apply', '--unsafe-paths', '--directory=' + repo, patch], cwd='/', capture_output=True, text=True) if False else \
        subprocess.run(['patch', '-p1', '-s', '-f', '-i', patch], cwd=repo, capture_output=True, text=True)
    try:
        if r.returncode != 0:
            res['status'] = 'noapply'
            res['error'] = (r.stdout + r.stderr)[-300:]
            return res
        try:
            paths, info = factgen.ensure_facts('all', repo=repo, target_dir=mutsweep._W['tdir'])
        except factgen.BuildFailed as e:
            res['status'] = 'nocompile'
            res['error'] = str(e)[-300:]
            return res
        fired, crashes = mutsweep.run_rules(paths)
        res['fired'] = sorted(set(fired))
        res['crashes'] = crashes
        res['status'] = 'fired' if fired or crashes else 'silent'
        shutil.rmtree(os.path.dirname(paths[0]), ignore_errors=True)
        return res
    finally:
        subprocess.run(['rsync', '-a', '--delete', '--exclude', 'target', '--exclude', '.git', mutsweep.REPO + '/', repo + '/'])
        res['t'] = round(time.time() - t0, 1)



def _work_mutant(m):
    """m = (name, prop, path, old, new, expect) from mutants/spec.py; textual replacement in the worker's scratch copy."""
    from analysis import factgen
    import shutil
    name, prop, path, old, new, expect = m
    repo = mutsweep._W['repo']
    src = os.path.join(repo, path)
    res = {'name': name, 'prop': prop, 'expect': expect}
    t0 = time.time()
    try:
        text = open(src).read()
        if text.count(old) != 1:
            res['status'] = 'stale'
            return res
        open(src, 'w').write(text.replace(old, new))
        try:
            paths, info = factgen.ensure_facts('all', repo=repo, target_dir=mutsweep._W['tdir'])
        except factgen.BuildFailed as e:
            res['status'] = 'nocompile'
            return res
        fired, crashes = mutsweep.run_rules(paths)
        rules = sorted({f.split('|')[0] for f in fired})
        res['rules'] = rules
        res['crashes'] = crashes
        if expect is None:
            res['status'] = 'ok' if not rules and not crashes else 'FALSE-ALARM'
        else:
            res['status'] = 'ok' if any(r.startswith(prop + ':' + expect) for r in rules) else 'MISSED'
        shutil.rmtree(os.path.dirname(paths[0]), ignore_errors=True)
        return res
    finally:
        subprocess.run(['rsync', '-a', '--delete', '--exclude', 'target', '--exclude', '.git', mutsweep.REPO + '/', repo + '/'])
        res['t'] = round(time.time() - t0, 1)


def main():
    args = sys.argv[1:]
    jobs = 6
    if args and args[0] == '--jobs':
        jobs = int(args[1]); args = args[2:]
    mode = args[0] if args else 'seeds'
    if mode == 'mutants':
        import selftest
        spec = selftest.load_spec()
        bad = 0
        with mp.Pool(jobs, initializer=mutsweep._init_worker, initargs=(os.path.join(V, '.cache', 'target'), None)) as pool:
            for res in pool.imap_unordered(_work_mutant, spec):
                if res['status'] != 'ok': bad += 1
                print('%-11s %-50s %-4s %s %s' % (res['status'], res['name'], res['prop'] or 'all', ' '.join(res.get('rules', []))[:120], ' '.join(res.get('crashes', []))[:100]), flush=True)
        print('mutants: %d, %d not ok' % (len(spec), bad))
        return 0
    if mode == 'seeds':
        patches = sorted(glob.glob(V + '/seeded/C*/patch.diff'))
    elif mode == 'benign':
        patches = sorted(glob.glob(V + '/seeded/benign/B*.diff'))
    else:
        patches = [os.path.abspath(a) for a in args]
        mode = 'files'
    base_target = os.path.join(V, '.cache', 'target')
    bad = 0
    with mp.Pool(jobs, initializer=mutsweep._init_worker, initargs=(base_target, None)) as pool:
        for res in pool.imap_unordered(_work, patches):
            name = os.path.basename(os.path.dirname(res['patch'])) if (mode == 'seeds' or os.path.basename(res['patch']) == 'patch.diff') else os.path.basename(res['patch'])
            rules = sorted({f.split('|')[0] for f in res.get('fired', [])})
            if mode == 'seeds' or os.path.basename(res['patch']) == 'patch.diff':
                prop = name[:3]
                meta = {}
                try: meta = json.load(open(os.path.dirname(res['patch']) + '/meta.json'))
                except Exception: pass
                own = any(r.startswith(prop + ':') for r in rules)
                ok = own or bool(meta.get('obsolete'))
                tag = 'ok  ' if ok else 'MISS'
                if not ok: bad += 1
                print('%s %-8s %-9s own=%s %s%s' % (tag, name, res['status'], own, ' '.join(rules)[:150], ' (obsolete: behaviour-preserving after a fix)' if meta.get('obsolete') else ''), flush=True)
            else:
                ok = res['status'] == 'silent'
                if not ok: bad += 1
                print('%s %-14s %-9s %s %s' % ('ok  ' if ok else 'FIRE', name, res['status'], ' '.join(rules)[:150], (res.get('error') or '')[:120] + ' '.join(res.get('crashes', []))[:150]), flush=True)
    print('%s: %d patches, %d not ok' % (mode, len(patches), bad))
    return 0


if __name__ == '__main__':
    sys.exit(main())
