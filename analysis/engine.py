"""Rule engine: obligations, violations, known findings, evidence, CLI glue."""
import importlib
import json
import os
import re
import sys
import time
import traceback

from . import factgen, mir

VERIF = factgen.VERIF
EVID = os.environ.get('GV_EVIDENCE_DIR') or os.path.join(VERIF, 'evidence')
KNOWN = os.path.join(VERIF, 'known_findings.json')


def load_known():
    if not os.path.exists(KNOWN):
        return []
    with open(KNOWN) as f:
        return json.load(f)['findings']


class Ctx:
    """One property, one feature configuration."""

    def __init__(self, prop, facts, config):
        self.prop = prop
        self.F = facts
        self.config = config
        self.obligations = []   # dict(rule, desc, ok, key, loc)
        self.notes = []
        self.rules = {}         # rule id -> description
        self.fns_touched = set()
        self.sites = 0
        self.tables = []
        self.cur_rule = None

    # ---- declaring rules
    def rule(self, rid, primitive, text):
        self.rules[rid] = {'primitive': primitive, 'text': text, 'obligations': 0, 'failed': 0}
        self.cur_rule = rid
        return rid

    def touch(self, *views):
        for v in views:
            if v is not None:
                self.fns_touched.add(v.path)

    # ---- recording
    def ob(self, ok, desc, key, loc=None, rule=None, detail=None):
        """One obligation.  `key` identifies the construct (no line numbers); a failed
        obligation is a violation keyed `<rule>|<key>`."""
        rule = rule or self.cur_rule
        r = self.rules[rule]
        r['obligations'] += 1
        if not ok:
            r['failed'] += 1
        self.obligations.append({'rule': rule, 'desc': desc, 'ok': bool(ok), 'key': '%s|%s' % (rule, key),
                                 'loc': loc, 'detail': detail})
        self.sites += 1
        return ok

    def floor(self, count, minimum, what, rule=None):
        """Fail closed when a rule matched fewer instances than were confirmed by hand."""
        return self.ob(count >= minimum, 'floor: %s — found %d, need >= %d' % (what, count, minimum),
                       'floor:' + what, rule=rule)

    def table(self, name, rows):
        self.tables.append({'name': name, 'rows': rows})

    def note(self, text):
        self.notes.append(text)

    # ---- anchors (fail closed, but as a violation of the rule rather than a crash)
    def fn(self, suffix, file=None):
        v = self.F.fn(suffix, file)
        self.touch(v)
        return v

    def try_fn(self, suffix, file=None, rule=None):
        try:
            return self.fn(suffix, file)
        except mir.AnchorError as e:
            self.ob(False, 'anchor missing: %s' % e, 'anchor:' + suffix, rule=rule)
            return None


def run_property(prop, tier, replay_key=None):
    t0 = time.time()
    seed = int(os.environ.get('VERIF_SEED', '0') or 0)
    mod = importlib.import_module('analysis.rules.' + prop.lower())
    configs = ['all']
    if tier == 'thorough':
        configs += getattr(mod, 'EXTRA_CONFIGS', ['core', 'tokio', 'threaded', 'tokio-ws', 'threaded-ws'])
    ctxs = []
    infos = []
    build_error = None
    for cfg in configs:
        try:
            paths, info = factgen.ensure_facts(cfg)
        except factgen.BuildFailed as e:
            build_error = str(e)
            break
        infos.append(info)
        F = mir.Facts(paths)
        ctx = Ctx(prop, F, cfg)
        try:
            if cfg == 'all':
                mod.run(ctx)
            else:
                getattr(mod, 'run_config', mod.run)(ctx)
        except mir.AnchorError as e:
            ctx.rules.setdefault('anchor', {'primitive': 'anchor', 'text': 'anchors exist', 'obligations': 0, 'failed': 0})
            ctx.ob(False, 'anchor missing: %s' % e, 'anchor:' + str(e)[:80], rule='anchor')
        ctxs.append(ctx)
    if build_error is not None:
        print('ERROR: /repo does not compile with the analysis toolchain; no verdict.\n' + build_error)
        return 2

    known = [k for k in load_known() if k['property'] == prop]
    known_open = {k['key']: k for k in known if k['status'] == 'known'}
    viol = {}
    known_hit = {}
    n_ob = n_ok = 0
    samples = []
    for ctx in ctxs:
        for o in ctx.obligations:
            n_ob += 1
            if o['ok']:
                n_ok += 1
                if len(samples) < 12 and ctx.config == 'all' and not o['desc'].startswith('floor'):
                    samples.append({'rule': o['rule'], 'obligation': o['desc'], 'at': o['loc'], 'verdict': 'holds'})
                continue
            if o['key'] in known_open:
                known_hit[o['key']] = (o, ctx.config)
                n_ok += 0
            else:
                viol.setdefault(o['key'], (o, ctx.config))

    # report
    main = ctxs[0]
    for ctx in ctxs:
        print('[%s] config=%s bodies=%d rules=%d obligations=%d failed=%d' % (
            prop, ctx.config, len(ctx.F.fns), len(ctx.rules), len(ctx.obligations),
            sum(1 for o in ctx.obligations if not o['ok'])))
    for rid, r in main.rules.items():
        print('  %-10s %-22s obligations=%-3d failed=%-2d %s' % (rid, r['primitive'], r['obligations'], r['failed'], r['text'][:110]))
    for n in main.notes:
        print('  note: ' + n)
    for key, (o, cfg) in sorted(known_hit.items()):
        print('KNOWN-FINDING: property=%s %s [%s] %s' % (prop, known_open[key]['what'], key, o['loc'] or ''))
    os.makedirs(os.path.join(EVID, 'replay'), exist_ok=True)
    for key, (o, cfg) in sorted(viol.items()):
        if replay_key and key != replay_key:
            continue
        rp = os.path.join(EVID, 'replay', '%s-%s.json' % (prop, re.sub(r'[^A-Za-z0-9_.-]+', '_', key)[:120]))
        with open(rp, 'w') as f:
            json.dump({'property': prop, 'key': key, 'config': cfg, 'obligation': o,
                       'rule': main.rules.get(o['rule'], {}).get('text')}, f, indent=1)
        print('VIOLATION property=%s replay=%s' % (prop, rp))
        print('  rule %s (%s): %s' % (o['rule'], main.rules.get(o['rule'], {}).get('primitive', '?'), o['loc'] or ''))
        print('  %s' % o['desc'])
        if o.get('detail'):
            print('  %s' % o['detail'])

    selftest = None
    if tier == 'thorough' and not replay_key and not os.environ.get('GV_REPO'):
        selftest = run_selftest(prop)
        if selftest:
            print('[%s] checker self-test: %d mutants of this property + %d benign refactorings: %d ok, %d stale, %d not as expected' % (
                prop, selftest['mutants'], selftest['benign'], selftest['ok'], selftest['stale'], selftest['bad']))
            for r in selftest['results']:
                if r['verdict'] not in ('ok',):
                    print('  selftest %-12s %s %s' % (r['verdict'], r['name'], r['detail'][:100]))
    wall = time.time() - t0
    distinct = sum(1 for r in main.rules.values() if r['obligations'] > 0)
    ev = {
        'property_id': prop,
        'tier': tier,
        'seed': seed,
        'level': 'other',
        'coverage': {
            'explanation': getattr(mod, 'EXPLANATION', '') + ' Decided statically from the MIR of /repo\'s current '
                           'working tree (tree hash %s); nothing is executed.' % infos[0]['tree_hash'],
            'obligations': n_ob,
            'discharged': n_ok,
            'evaluations': n_ob,
            'distinct_nontrivial': distinct,
            'rule': 'one evaluation = one rule instance applied to one site / table entry / path set found in the MIR; '
                    'distinct_nontrivial = rules that matched at least one site (rules with zero matches fail their floor)',
            'samples': samples,
            'rules': {rid: {'primitive': r['primitive'], 'text': r['text'], 'obligations': r['obligations'],
                            'failed': r['failed']} for rid, r in main.rules.items()},
            'functions_analysed': sorted(main.fns_touched),
            'bodies_in_fact_base': len(main.F.fns),
            'configs': [c.config for c in ctxs],
            'tables': main.tables[:40],
            'known_findings_rederived': sorted(known_hit.keys()),
            'fact_generation': infos,
            'checker_selftest': selftest,
            'exhaustive': False,
        },
        'assumptions': getattr(mod, 'ASSUMPTIONS', []) + [
            'trusted base: rustc nightly MIR construction and callee resolution (Instance::try_resolve), the mirfacts exporter, '
            'the transcribed MQTT specification tables under analysis/spec',
        ],
        'wall_s': round(wall, 2),
        'violations': len(viol),
    }
    if not replay_key:
        with open(os.path.join(EVID, prop + '.json'), 'w') as f:
            json.dump(ev, f, indent=1)
    print('[%s] tier=%s obligations=%d discharged=%d known=%d violations=%d wall=%.1fs' % (
        prop, tier, n_ob, n_ok, len(known_hit), len(viol), wall))
    return 1 if viol else 0


def run_selftest(prop):
    """Thorough tier: run this property's mutants (and the benign refactorings, restricted to this
    property's check) on scratch copies of /repo.  Informational: the verdict of the property is
    decided on /repo only."""
    import subprocess
    import tempfile
    tool = os.path.join(VERIF, 'tools', 'selftest.py')
    if not os.path.exists(tool):
        return None
    out = tempfile.NamedTemporaryFile(prefix='gv-selftest.', suffix='.json', delete=False)
    out.close()
    try:
        subprocess.run([sys.executable, tool, '--props', prop, '--jobs', '2', '--json', out.name], stdout=subprocess.PIPE, stderr=subprocess.STDOUT, text=True)
        with open(out.name) as f:
            res = json.load(f)
    except Exception:
        return None
    finally:
        try:
            os.unlink(out.name)
        except OSError:
            pass
    return {'mutants': sum(1 for r in res if r['property'] == prop), 'benign': sum(1 for r in res if r['property'] is None),
            'ok': sum(1 for r in res if r['verdict'] == 'ok'), 'stale': sum(1 for r in res if r['verdict'] == 'stale'),
            'bad': sum(1 for r in res if r['verdict'] not in ('ok', 'stale')), 'results': res}


def main(argv):
    import argparse
    ap = argparse.ArgumentParser()
    ap.add_argument('prop', nargs='?')
    ap.add_argument('--tier', default=os.environ.get('VERIF_TIER', 'quick'))
    ap.add_argument('--replay')
    a = ap.parse_args(argv)
    if a.replay:
        with open(a.replay) as f:
            r = json.load(f)
        return run_property(r['property'], 'quick', replay_key=r['key'])
    if not a.prop:
        ap.error('property id required')
    try:
        return run_property(a.prop.upper(), a.tier)
    except Exception:
        traceback.print_exc()
        return 2
