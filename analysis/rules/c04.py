"""C04 — QoS 1/2 publishes follow the delivery protocol across reconnects and sessions."""
import re
from ..mir import show, short, norm, subexprs
from .. import prims
from ..prims import requires, guard_strs, guarded_any

EXPLANATION = ('Structural necessary conditions of the QoS 1/2 sender protocol: who may set/clear the DUP flag and with which '
               'constant, who may set/clear the PUBREL phase, packet-id reuse, which operation content may be written after '
               'creation, unconditional retention of unacked publishes at close, no double residence of one operation in the '
               'resubmit queue, and the session-absent demotion path. Added in round 2: the DUP reset of restarted publishes iterates the retained list before it is moved (use-after-drain primitive).')
ASSUMPTIONS = ['not decided: the legal packet sequence per connection over all disconnect points and ack orders']

P = 'src/protocol.rs'
PS = 'protocol::ProtocolState'


def callers_of(F, v):
    out = []
    for cv, bb in F.callers().get(v.key, []):
        for c in cv.calls():
            if c.bb == bb and c.nfn == norm(v.path):
                out.append((cv, c))
    return out


def run(ctx):
    F = ctx.F
    # ------------------------------------------------------------ R-C04-1 DUP discipline
    ctx.rule('R-C04-1', 'T1 + T2', 'publish.duplicate is written only by the flag setter; true only while draining the unacked-publish table at close; false only on the session-absent branch; submit-time validation rejects duplicate == true')
    nw = 0
    setter = None
    for v in F.fns_in(P):
        for m in prims.mutations(v):
            if m.kind == 'assign' and show(m.path).endswith('.duplicate'):
                nw += 1
                ok = guarded_any(v, m.bb, [r'\.packet is Publish$']) and show(m.rv) in [v.varnames.get(i) for i in range(1, v.argc + 1)]
                ctx.ob(ok, 'duplicate flag written from a parameter, under `packet is Publish` (%s)' % m.desc(), 'dup-writer|' + short(v.path), loc=m.loc())
                setter = v
                ctx.touch(v)
    ctx.floor(nw, 1, 'writers of publish.duplicate in the engine')
    closed = ctx.fn('ProtocolState::handle_network_event_connection_closed')
    sess = ctx.fn('ProtocolState::apply_session_present_to_connection')
    nt = nf = 0
    if setter is not None:
        for cv, cs in callers_of(F, setter):
            val = show(cs.arg(2))
            parent = norm(cv.f.get('parent') or cv.path)
            if val == 'True':
                nt += 1
                # closure of the closed handler that also re-queues into the resubmit queue, fed by the drained pending-publish table
                pushes = [m for m in prims.mutations(cv) if prims.self_field(m.path) == 'resubmit_operation_queue' and m.method == 'push_back']
                swapped = [c for c in closed.calls('mem::swap') if 'pending_publish_operations' in show(c.arg(1)) + show(c.arg(0))]
                ctx.ob(parent == norm(closed.path) and bool(pushes) and bool(swapped), 'DUP=true is set only in the close-time drain of the unacked-publish table (in %s)' % short(cv.path), 'dup-true|' + short(parent), loc=cs.loc())
            elif val == 'False':
                nf += 1
                host = prims.closure_hosts(sess, cv) if parent == norm(sess.path) else []
                ok = parent == norm(sess.path) and bool(host) and all(guarded_any(sess, c.bb, [r'^!session_present$']) for c in host)
                ctx.ob(ok, 'DUP=false is set only on the session-absent branch at CONNACK (in %s)' % short(cv.path), 'dup-false|' + short(parent), loc=cs.loc())
            else:
                ctx.ob(False, 'duplicate flag set from a non-constant value %s in %s' % (val, short(cv.path)), 'dup-nonconst|' + short(cv.path), loc=cs.loc())
    ctx.floor(nt, 1, 'DUP=true sites')
    ctx.floor(nf, 1, 'DUP=false sites')
    vp = ctx.fn('publish::validate_publish_packet_outbound')
    errs = prims.err_blocks(vp)
    ctx.ob(prims.rets_after(vp, [r'^packet\.duplicate$']) == {'Err'}, 'submit-time validation always rejects a user publish with duplicate == true', 'dup-validate', loc=vp.loc())

    # ------------------------------------------------------------ R-C04-2 PUBREL phase
    ctx.rule('R-C04-2', 'T1 + T2', 'the PUBREL phase is entered only by a non-failing PUBREC for a pending QoS 2 publish, left only when the operation restarts from the user queue at CONNACK, and honoured by the service loop')
    sets = clears = 0
    for v in F.fns_in(P):
        for m in prims.mutations(v):
            if m.kind == 'assign' and show(m.path).endswith('.qos2_pubrel'):
                ctx.touch(v)
                if show(m.rv).startswith('Option::Some{'):
                    sets += 1
                    requires(ctx, v, m.bb, [r'^packet is Pubrec$', r'^HashMap::get\(self\.pending_publish_operations, .*packet_id\) is Some$', r'\.packet is Publish$',
                                            r'\.qos == QualityOfService::ExactlyOnce\{\}\)$', r'^\(discr\(.*reason_code\) as u8 < 128\)$'], 'pubrel-set', 'entering the PUBREL phase', loc=m.loc())
                    rv = show(m.rv)
                    ctx.ob(re.search(r'MqttPacket::Pubrel\{0: PubrelPacket\{packet_id: packet@Pubrec\.0\.packet_id', rv) is not None, 'the PUBREL carries the PUBREC\'s packet id', 'pubrel-id', loc=m.loc())
                else:
                    clears += 1
                    cl = [(cv, cs) for cv, cs in callers_of(F, v)]
                    ok = bool(cl) and all(norm(cv.f.get('parent') or '') == norm(sess.path) for cv, cs in cl)
                    # the closure runs over the swapped-out user queue
                    ctx.ob(ok and show(m.rv) == 'Option::None{}', 'PUBREL phase cleared only for user-queue operations at CONNACK (callers: %s)' % [short(cv.path) for cv, _ in cl], 'pubrel-clear|' + short(v.path), loc=m.loc())
    ctx.floor(sets, 1, 'qos2_pubrel := Some sites')
    ctx.floor(clears, 1, 'qos2_pubrel := None sites')
    sq = ctx.fn('ProtocolState::service_queue_aux')
    from ..mir import var_inits
    pk = var_inits(sq, 'packet')
    okp = any(re.search(r'qos2_pubrel@Some\.0', show(e)) and guarded_any(sq, b, [r'\.qos2_pubrel is Some$']) for b, e in pk)
    ctx.ob(okp, 'the service loop encodes the PUBREL instead of the PUBLISH when the phase is set', 'pubrel-used', loc=sq.loc())
    # user-queue loop at CONNACK runs over the whole user queue on every Ok path
    cl_calls = [c for c in sess.calls('Iterator::for_each', 'for_each') if 'user_queue' in show(c.arg(0))]
    ctx.ob(len(cl_calls) == 1 and not [g for g in guard_strs(sess, cl_calls[0].bb) if 'session_present' in g], 'the user-queue restart loop runs for both session outcomes', 'restart-loop', loc=sess.loc())

    # ------------------------------------------------------------ R-C04-3 id and content reuse
    ctx.rule('R-C04-3', 'T2 + T1', 'an operation that already has a packet id keeps it; after creation only bind/unbind/DUP/PUBREL/bookkeeping fields of an operation are written')
    aq = ctx.fn('ProtocolState::acquire_packet_id_for_operation')
    for cs in aq.calls('ProtocolState::acquire_free_packet_id'):
        requires(ctx, aq, cs.bb, [r'\.packet_id is None$'], 'reuse-id', 'allocating a fresh packet id', loc=cs.loc())
    ALLOWED = {('ClientOperation::bind_packet_id', 'packet_id'), ('ClientOperation::unbind_packet_id', 'packet_id'),
               ('ProtocolState::set_publish_duplicate_flag', 'duplicate'), ('ProtocolState::clear_qos2_state', 'qos2_pubrel'),
               ('ProtocolState::handle_pubrec', 'qos2_pubrel'), ('ProtocolState::apply_slow_start_initialization', 'slow_start_ack_value'),
               ('ProtocolState::update_interrupted_retries', 'interruption_count'), ('ProtocolState::on_current_operation_fully_written', 'ping_extension_base_timepoint'),
               }
    opfields = set(f['name'] for f in F.adt('protocol::ClientOperation')['variants'][0]['fields'])
    n = 0
    for v in F.fns_in(P):
        for m in prims.mutations(v):
            if m.kind != 'assign':
                continue
            rty = v.locals[m.stmt['lhs']['l']]['ty']
            if not (rty.startswith('&mut ') and re.search(r'(ClientOperation|Packet)\b', rty)):
                continue
            if not m.path[2]:
                continue
            last = m.path[2][-1][1:]
            n += 1
            ctx.ob((short(v.path), last) in ALLOWED, 'operation/packet content write `%s` in %s is one of the listed mutators' % (m.desc()[:70], short(v.path)), 'opwrite|%s|%s' % (short(v.path), last), loc=m.loc())
    ctx.floor(n, 11, 'writes into operation/packet content')

    # ------------------------------------------------------------ R-C04-4 retention at close
    ctx.rule('R-C04-4', 'T2', 'at close a high-priority operation survives only when it carries a PUBREL; unacked publishes are re-queued unconditionally (R-C01-6 drain)')
    sr = ctx.fn('ProtocolState::should_retain_high_priority_operation')
    trues = [b for b, e in prims.ret_variants(sr) if show(e) == 'True']
    ctx.ob(bool(trues) and all(guarded_any(sr, b, [r'^.*\.qos2_pubrel is Some$']) for b in trues), 'high-priority retention is decided by qos2_pubrel.is_some() only', 'hp-retain', loc=sr.loc())

    # ------------------------------------------------------------ R-C04-5 no double residence
    ctx.rule('R-C04-5', 'T9 residence analysis', 'an operation in the PUBREL phase stays in the unacked-publish table (PUBREC handler does not remove it) and is re-queued from there at close, so the '
             'close-time handling of the *current* operation may push it into the resubmit/user queue only where it cannot be in the PUBREL phase')
    hp = ctx.fn('ProtocolState::handle_pubrec')
    rem = [m for m in prims.mutations(hp) if prims.self_field(m.path) == 'pending_publish_operations' and m.kind == 'mutcall']
    ctx.ob(not rem, 'co-residence fact: the PUBREC handler leaves the operation in the unacked-publish table while queueing its PUBREL', 'coresidence', loc=hp.loc())
    cc = ctx.fn('ProtocolState::apply_connection_closed_to_current_operation')
    npush = 0
    for m in prims.mutations(cc):
        f = prims.self_field(m.path)
        if m.kind == 'mutcall' and f in ('resubmit_operation_queue', 'user_operation_queue') and m.method in ('push_front', 'push_back'):
            npush += 1
            ok = guarded_any(cc, m.bb, [r'^.*\.qos2_pubrel is None$', r'^!\(.*\.qos == QualityOfService::ExactlyOnce\{\}\)$', r'\.packet is (Subscribe|Unsubscribe)$',
                                           r'^!HashMap::contains_key\(self\.pending_publish_operations', r'^.*\.qos2_pubrel is None$', r'\.qos2_pubrel is None$'])
            ctx.ob(ok, 'current operation pushed into %s at close only where it cannot carry a PUBREL' % f, 'current-requeue|%s|%s' % (f, 'when-duplicate' if any(re.search(r'\.duplicate$', g) and not g.startswith('!') for g in guard_strs(cc, m.bb)) else ('subscribe-unsubscribe' if any('Subscribe' in g for g in guard_strs(cc, m.bb)) else 'publish-policy')), loc=m.loc(),
                   detail=None if ok else 'guards: ' + ' ; '.join(guard_strs(cc, m.bb)))
    ctx.floor(npush, 3, 'current-operation re-queue sites at close')
    # an interrupted *retransmission* (DUP set) keeps its place in the resubmit queue: it may not be demoted to the user queue
    for m in prims.mutations(cc):
        if m.kind == 'mutcall' and prims.self_field(m.path) == 'user_operation_queue' and m.method in ('push_front', 'push_back') and guarded_any(cc, m.bb, [r'\.packet is Publish$']):
            ctx.ob(guarded_any(cc, m.bb, [r'^!.*\.packet@Publish\.0\.duplicate$']), 'a current publish is put back into the user queue only when it is not a retransmission (DUP clear)', 'current-requeue|user|not-dup', loc=m.loc())
    after_dup = prims.rets_after(cc, [r'\.packet is Publish$', r'^\(?.*\.packet@Publish\.0\.duplicate\)?$'])
    dup_edges = [en for en in prims.edge_nodes_matching(cc, [r'^[^!].*\.packet@Publish\.0\.duplicate$'])]
    okd = bool(dup_edges)
    for en in dup_edges:
        r = cc.reach([en])
        tgt = [m.bb for m in prims.mutations(cc) if m.kind == 'mutcall' and prims.self_field(m.path) in ('resubmit_operation_queue', 'high_priority_operation_queue') and m.method == 'push_front']
        fails = [c.bb for c in cc.calls('ProtocolState::complete_operation_as_failure')]
        users = [m.bb for m in prims.mutations(cc) if m.kind == 'mutcall' and prims.self_field(m.path) == 'user_operation_queue']
        okd = okd and any(b in r for b in tgt) and not any(b in r for b in fails) and not any(b in r for b in users)
    ctx.ob(okd, 'once the current publish is known to be a retransmission it is always retained (resubmit / high-priority), never failed or demoted', 'current-requeue|dup-complete', loc=cc.loc())

    # ------------------------------------------------------------ R-C04-6 session absent
    ctx.rule('R-C04-6', 'T3 ordering', 'without a session every resubmit entry goes through the offline-policy partition: retained ones restart (DUP cleared, moved to the user queue), rejected ones fail')
    swaps = [c for c in sess.calls('mem::swap') if 'resubmit_operation_queue' in show(c.arg(0)) + show(c.arg(1))]
    ctx.ob(len(swaps) == 1 and guarded_any(sess, swaps[0].bb, [r'^!session_present$']), 'the resubmit queue is drained only on the session-absent branch', 'sa-drain', loc=sess.loc())
    part = [c for c in sess.calls() if 'partition_operation_queue_by_queue_policy' in c.nfn]
    ctx.ob(len(part) == 1 and show(part[0].arg(1)) == 'resubmit' and show(part[0].arg(2)) == 'self.config.offline_queue_policy', 'the drained resubmit entries are partitioned by the configured offline policy', 'sa-partition', loc=sess.loc())
    fails = [c for c in sess.calls('ProtocolState::complete_operation_sequence_as_failure')]
    ctx.ob(len(fails) == 1 and re.search(r'partition_operation_queue_by_queue_policy\(.*\)\)\.1', show(fails[0].arg(1))) is not None and 'generate_offline_queue_policy_failed_error' in show(fails[0].arg(2)),
           'rejected resubmit entries fail with the offline-policy error', 'sa-rejected', loc=sess.loc())
    app = [m for m in prims.mutations(sess) if m.method == 'append' and prims.self_field(m.path) == 'user_operation_queue']
    ctx.ob(len(app) == 1 and show(app[0].cs.arg(1)) == 'retained', 'retained resubmit entries move to the user queue', 'sa-retained', loc=sess.loc())
    # the DUP reset iterates `retained` *before* that container is moved into the user queue (append drains its source)
    from ..mir import happens_before
    clr = []
    for cv in F.all_fns():
        if norm(cv.f.get('parent') or '') == norm(sess.path) and any(show(c.arg(2)) == 'False' for c in cv.calls('ProtocolState::set_publish_duplicate_flag')):
            clr += prims.closure_hosts(sess, cv)
    src = [c for c in sess.calls('VecDeque::iter') if app and show(c.arg(0)) == show(app[0].cs.arg(1))]
    okc = len(clr) == 1 and len(src) == 1 and src[0].bb in ([clr[0].bb] + [b for b in range(sess.n) if sess.dominates(b, clr[0].bb)]) and len(app) == 1 \
        and sess.dominates(clr[0].bb, app[0].bb) and clr[0].bb != app[0].bb and app[0].bb not in [] and clr[0].bb not in sess.reach(list(sess.graph()[0][app[0].bb]))
    ctx.ob(okc, 'the DUP flag of every retained entry is cleared before the retained container is moved into the user queue (VecDeque::append empties its source)', 'sa-dup-before-move', loc=sess.loc())
    uad = prims.use_after_drain(sess)
    ctx.ob(not uad, 'no local queue is read after it was drained in session handling %s' % [(n, short(d.fn), short(u.fn)) for n, d, u in uad], 'sa-use-after-drain', loc=sess.loc())
    sort = sess.calls('protocol::sort_operation_deque')
    ctx.ob(len(sort) == 2, 'both queues are re-sorted after the shuffle', 'sa-sort', loc=sess.loc())
