"""C02 — wire layout of the client-sent packet writers (R-C02-10) and bit-level layouts (R-C02-11).

R-C02-10 reduces every writer to its sequence of *fixed* encoding steps (everything that is not
part of a property group), abstracts each step to a token (`Uint16:len(client_id)`,
`StringSlice:get:connect_packet_client_id`, `Vli:len.1`, …) and compares the order with the layout
the specification prescribes for that packet (MQTT 5: 3.1-3.4, 3.6-3.8, 3.10, 3.12, 3.14, 3.15;
MQTT 3.1.1: same sections).  Order is decided on the CFG: step p is before step q iff p dominates
q, or q is reachable from p but not vice versa, or the two are mutually exclusive alternatives.
Property groups must sit between their length field and the next fixed slot."""
import re

from ..mir import show, fold, subexprs
from .. import prims
from ..spec import mqtt5
from . import codec
from .codec import MQTT_VARIANT_TO_SPEC, CLIENT_OUTBOUND


def token(p):
    v = p.val
    s = show(v) if v is not None else ''
    m = re.match(r'^\(Try::branch\(\w+::compute_\w+_packet_length_properties\w*\(.*\)\)\)@Continue\.0(\.\d)?$', s)
    if m:
        return '%s:len%s' % (p.variant, m.group(1) or '')
    m = re.match(r'^(?:String|Vec)::len\((?:packet\.|\(Iterator::next\(iter(?:\'\d)?\)\)@Some\.0\.1\.?)(.*?)\) as u16$', s)
    if m:
        f = re.sub(r'@Some\.0', '', m.group(1)) or 'filter'
        return '%s:len(%s)' % (p.variant, f)
    m = re.match(r'^fn:\w+::(get_\w+) as ', s)
    if m:
        return '%s:%s' % (p.variant, m.group(1))
    m = re.match(r'^packet\.(\w+)$', s)
    if m:
        return '%s:%s' % (p.variant, m.group(1))
    m = re.match(r'^discr\((?:packet|\(Iterator::next\(iter(?:\'\d)?\)\)@Some\.0\.1)\.(\w+)\) as u8$', s)
    if m:
        return '%s:%s' % (p.variant, m.group(1))
    m = re.match(r'^(\w+)::(compute_\w+)\(', s)
    if m:
        return '%s:%s' % (p.variant, m.group(2))
    fv = fold(v) if v is not None else None
    if fv is not None and v[0] == 'const' and v[2]:
        return '%s:%s' % (p.variant, v[2].split('::')[-1])
    if fv is not None:
        why = ''
        for g in p.guards:
            mm = re.match(r'^packet\.(\S+?) is None$', g) or re.match(r'^(context\.outbound_alias_resolution\.skip_topic)$', g)
            if mm:
                why = '@' + re.sub(r'@Some\.0', '', mm.group(1)).replace('context.outbound_alias_resolution.', '')
        return '%s:%d%s' % (p.variant, fv, why)
    return '%s:%s' % (p.variant, s[:60])


def FB(name):
    return {'Uint8:%s_FIRST_BYTE' % name, 'Uint8:%d' % mqtt5.first_byte(name)}


def _lp(field, getter, kind, zero=True):
    """length-prefixed field: [len | 0 when absent] then the slice step."""
    a = {'Uint16:len(%s)' % field}
    if zero:
        a.add('Uint16:0@%s' % field)
    return [a, {'%s:%s' % (kind, getter)}]


ACK5 = lambda nm: [FB(nm), {'Vli:len.0'}, {'Uint16:packet_id'}, {'Uint8:reason_code'}, {'Vli:len.1'}, {'PROP'}]
ACK3 = lambda nm: [FB(nm), {'Uint8:2'}, {'Uint16:packet_id'}]

LAYOUTS = {
    ('Connect', '5'): [FB('CONNECT'), {'Vli:len.0'}, {'BytesSlice:get_connect_protocol_bytes5'}, {'Uint8:compute_connect_flags'}, {'Uint16:keep_alive_interval_seconds'},
                       {'Vli:len.1'}, {'PROP'}] + _lp('client_id', 'get_connect_packet_client_id', 'StringSlice') + [{'Vli:len.2'}, {'WILLPROP'}] +
                      _lp('will.topic', 'get_connect_packet_will_topic', 'StringSlice', zero=False) + _lp('will.payload', 'get_connect_packet_will_payload', 'BytesSlice') +
                      _lp('username', 'get_connect_packet_username', 'StringSlice') + _lp('password', 'get_connect_packet_password', 'BytesSlice'),
    ('Connect', '311'): [FB('CONNECT'), {'Vli:len'}, {'BytesSlice:get_connect_protocol_bytes311'}, {'Uint8:compute_connect_flags'}, {'Uint16:keep_alive_interval_seconds'}] +
                        _lp('client_id', 'get_connect_packet_client_id', 'StringSlice') + _lp('will.topic', 'get_connect_packet_will_topic', 'StringSlice', zero=False) +
                        _lp('will.payload', 'get_connect_packet_will_payload', 'BytesSlice') + _lp('username', 'get_connect_packet_username', 'StringSlice') +
                        _lp('password', 'get_connect_packet_password', 'BytesSlice'),
    ('Publish', '5'): [{'Uint8:compute_publish_fixed_header_first_byte'}, {'Vli:len.0'}, {'Uint16:len(topic)', 'Uint16:0@skip_topic'}, {'StringSlice:get_publish_packet_topic'},
                       {'Uint16:packet_id'}, {'Vli:len.1'}, {'PROP'}, {'BytesSlice:get_publish_packet_payload'}],
    ('Publish', '311'): [{'Uint8:compute_publish_fixed_header_first_byte'}, {'Vli:len'}, {'Uint16:len(topic)'}, {'StringSlice:get_publish_packet_topic'},
                         {'Uint16:packet_id'}, {'BytesSlice:get_publish_packet_payload'}],
    ('Puback', '5'): ACK5('PUBACK'), ('Pubrec', '5'): ACK5('PUBREC'), ('Pubrel', '5'): ACK5('PUBREL'), ('Pubcomp', '5'): ACK5('PUBCOMP'),
    ('Puback', '311'): ACK3('PUBACK'), ('Pubrec', '311'): ACK3('PUBREC'), ('Pubrel', '311'): ACK3('PUBREL'), ('Pubcomp', '311'): ACK3('PUBCOMP'),
    ('Subscribe', '5'): [FB('SUBSCRIBE'), {'Vli:len.0'}, {'Uint16:packet_id'}, {'Vli:len.1'}, {'PROP'}, {'Uint16:len(topic_filter)'}, {'IndexedString:get_subscribe_packet_topic_filter'},
                         {'Uint8:compute_subscription_options_byte5'}],
    ('Subscribe', '311'): [FB('SUBSCRIBE'), {'Vli:len'}, {'Uint16:packet_id'}, {'Uint16:len(topic_filter)'}, {'IndexedString:get_subscribe_packet_topic_filter'}, {'Uint8:qos'}],
    ('Unsubscribe', '5'): [FB('UNSUBSCRIBE'), {'Vli:len.0'}, {'Uint16:packet_id'}, {'Vli:len.1'}, {'PROP'}, {'Uint16:len(filter)'}, {'IndexedString:get_unsubscribe_packet_topic_filter'}],
    ('Unsubscribe', '311'): [FB('UNSUBSCRIBE'), {'Vli:len'}, {'Uint16:packet_id'}, {'Uint16:len(filter)'}, {'IndexedString:get_unsubscribe_packet_topic_filter'}],
    ('Pingreq', '5'): [FB('PINGREQ'), {'Uint8:0'}], ('Pingreq', '311'): [FB('PINGREQ'), {'Uint8:0'}],
    ('Disconnect', '5'): [FB('DISCONNECT'), {'Vli:len.0'}, {'Uint8:reason_code'}, {'Vli:len.1'}, {'PROP'}],
    ('Disconnect', '311'): [FB('DISCONNECT'), {'Uint8:0'}],
    ('Auth', '5'): [FB('AUTH'), {'Vli:len.0'}, {'Uint8:reason_code'}, {'Vli:len.1'}, {'PROP'}],
}
# slots that may legitimately have no step at all in a writer (optional whole groups are still present as steps
# under their guard; PROP is absent only when the packet kind has no property the client may send ... none here)
OPTIONAL_SLOTS = set()


def before(view, p, q, reach_cache):
    if p.bb == q.bb:
        return False
    if view.dominates(p.bb, q.bb):
        return True
    rp = reach_cache.setdefault(p.bb, view.reach(list(view.graph()[0][p.bb])))
    rq = reach_cache.setdefault(q.bb, view.reach(list(view.graph()[0][q.bb])))
    pq, qp = q.bb in rp, p.bb in rq
    return (pq and not qp) or (not pq and not qp)


def run(ctx, w5, w3):
    F = ctx.F
    ctx.rule('R-C02-10', 'T4 table agreement (ordered)', 'wire layout: the fixed encoding steps of every client-sent packet writer (both protocol versions) appear in the order the specification lays the fields out, each taken from the field of that meaning; property groups sit between their length field and the next fixed field; nothing else is written')
    nl = 0
    for (var, ver), layout in sorted(LAYOUTS.items()):
        w = (w5 if ver == '5' else w3).get(var)
        if w is None:
            ctx.ob(False, 'writer for %s (MQTT %s) exists' % (var, ver), 'layout|%s|%s|writer' % (var, ver))
            continue
        ps = codec.pushes(w)
        members = {}
        for p in ps:
            k = p.key_const()
            if k:
                spec = mqtt5.PROPERTIES.get(k[1])
                n = max(len(sh) for sh in codec.STEP_SHAPES[spec[1]]) if spec else 1
                tok = 'WILLPROP' if any(g == 'packet.will is Some' for g in p.guards) and var == 'Connect' else 'PROP'
                members[p.bb] = tok
                for x in codec.next_pushes(w, p, ps, n=n):
                    members[x.bb] = tok
        toks = {p.bb: (members.get(p.bb) or token(p)) for p in ps}
        slot_of = {}
        for p in ps:
            t = toks[p.bb]
            idx = [i for i, sl in enumerate(layout) if t in sl]
            if len(idx) != 1:
                ctx.ob(False, '%s (MQTT %s): encoding step `%s` is not part of the specification layout of this packet' % (var, ver, t), 'layout|%s|%s|extra|%s' % (var, ver, t), loc=p.cs.loc())
                continue
            slot_of[p.bb] = idx[0]
        nl += 1
        for i, sl in enumerate(layout):
            have = [p for p in ps if slot_of.get(p.bb) == i]
            if not have:
                ctx.ob(False, '%s (MQTT %s): no encoding step for layout slot %d %s' % (var, ver, i, sorted(sl)), 'layout|%s|%s|missing|%s' % (var, ver, sorted(sl)[0]), loc=w.loc())
                continue
            if i == 0:
                ctx.ob(all(toks[p.bb] in sl for p in have), '%s (MQTT %s): starts with %s' % (var, ver, sorted(sl)), 'layout|%s|%s|slot0' % (var, ver), loc=have[0].cs.loc())
                continue
            prev = [p for p in ps if slot_of.get(p.bb) == i - 1]
            rc = {}
            ok = bool(prev) and all(before(w, a, b, rc) for a in prev for b in have)
            # inside one repeated group (loops) the previous slot may be re-entered: dominance decides
            ctx.ob(ok, '%s (MQTT %s): %s comes right after %s' % (var, ver, sorted(sl), sorted(layout[i - 1])), 'layout|%s|%s|%s' % (var, ver, sorted(sl)[0]), loc=have[0].cs.loc())
    ctx.floor(nl, 21, 'writers with a checked wire layout')

    # ---------------------------------------------------------------------------------------- R-C02-11
    ctx.rule('R-C02-11', 'T4 table agreement (bit layout)', 'bit-level layouts: CONNECT flags (3.1.2.3), protocol name/level bytes (3.1.2.1-2), subscription options byte (3.8.3.1)')
    cf = ctx.fn('connect::compute_connect_flags')
    got = {}
    for (i, j, s) in cf.stmts():
        if s['k'] != 'assign' or s['lhs']['p'] or cf.varnames.get(s['lhs']['l']) != 'flags':
            continue
        e = cf.rvalue_expr(s['rv'], i)
        if e[0] == 'bin' and e[1] == 'BitOr':
            gs = tuple(g for g in prims.guard_strs_plain(cf, i))
            got[(gs, show(e[3]))] = fold(e[3])
    want = {(('packet.clean_start',), 2), (('packet.will is Some',), 4), (('packet.will is Some', 'packet.will@Some.0.retain'), 32),
            (('packet.password is Some',), 64), (('packet.username is Some',), 128)}
    have = {(gs, v) for (gs, txt), v in got.items() if v is not None}
    ctx.ob(have == want, 'CONNECT flags: clean start = bit 1, will flag = bit 2, will retain = bit 5, password = bit 6, user name = bit 7, each set exactly under its condition (%s)' % sorted(have), 'bits|connect-flags', loc=cf.loc())
    sym = {(gs, txt) for (gs, txt), v in got.items() if v is None}
    ctx.ob(sym == {(('packet.will is Some',), '(discr(packet.will@Some.0.qos) as u8 Shl 3)')}, 'CONNECT flags: will QoS occupies bits 4-3, only with a will (%s)' % sorted(sym), 'bits|connect-will-qos', loc=cf.loc())
    inits = [show(cf.rvalue_expr(s['rv'], i)) for (i, j, s) in cf.stmts() if s['k'] == 'assign' and not s['lhs']['p'] and cf.varnames.get(s['lhs']['l']) == 'flags' and cf.rvalue_expr(s['rv'], i)[0] != 'bin']
    ctx.ob(inits == ['0'] and [show(e) for b, e in prims.ret_variants(cf)] == ['flags'], 'CONNECT flags start from 0 (reserved bit 0 clear) and the accumulated byte is what is returned', 'bits|connect-reserved', loc=cf.loc())
    for ver, level in (('5', 5), ('311', 4)):
        g = ctx.fn('connect::get_connect_protocol_bytes' + ver)
        vals = []
        for b, e in prims.ret_variants(g):
            for x in subexprs(e):
                if x[0] == 'const' and isinstance(x[1], dict) and 'static' in x[1] and x[1].get('val') is not None:
                    m = re.match(r'^&\[u8; (\d+)\]$', x[3] or '')
                    if m:
                        vals.append(int(x[1]['val']).to_bytes(int(m.group(1)), 'little'))
        ctx.ob(vals == [b'\x00\x04MQTT' + bytes([level])], 'MQTT %s CONNECT protocol name and level bytes are 00 04 "MQTT" %02d (found %s)' % (ver, level, vals), 'bits|protocol-bytes|' + ver, loc=g.loc())
    so = ctx.fn('subscribe::compute_subscription_options_byte5')
    ors = {}
    init = []
    for (i, j, s) in so.stmts():
        if s['k'] != 'assign' or s['lhs']['p'] or so.varnames.get(s['lhs']['l']) != 'options_byte':
            continue
        e = so.rvalue_expr(s['rv'], i)
        if e[0] == 'bin' and e[1] == 'BitOr':
            ors[tuple(prims.guard_strs_plain(so, i))] = show(e[3])
        else:
            init.append(show(e))
    ctx.ob(init == ['discr(subscription.qos) as u8'], 'subscription options: bits 1-0 are the maximum QoS (%s)' % init, 'bits|subopt|qos', loc=so.loc())
    ctx.ob(ors == {('subscription.no_local',): 'SUBSCRIPTION_OPTIONS_NO_LOCAL_MASK', ('subscription.retain_as_published',): 'SUBSCRIPTION_OPTIONS_RETAIN_AS_PUBLISHED_MASK',
                   (): '(discr(subscription.retain_handling_type) as u8 Shl SUBSCRIPTION_OPTIONS_RETAIN_HANDLING_SHIFT)'},
           'subscription options: no-local mask under no_local, retain-as-published mask under retain_as_published, retain handling shifted into bits 5-4 (constants checked by R-C02-1) (%s)' % ors, 'bits|subopt|flags', loc=so.loc())
    ctx.ob([show(e) for b, e in prims.ret_variants(so)] == ['options_byte'], 'the accumulated options byte is what is returned', 'bits|subopt|ret', loc=so.loc())
