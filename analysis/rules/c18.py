"""C18 — ack timeouts and the interrupted-retry limit fire exactly when specified."""
import re
from ..mir import show, short, norm, subexprs, var_inits
from .. import prims
from ..prims import requires, guard_strs, guarded_any, must_pass

EXPLANATION = ('Structural necessary conditions: the ack-timeout record is created only in the fully-written hook from the service time and the '
               'operation\'s own timeout option (all three operation kinds covered); the firing predicate is deadline <= now and is evaluated in '
               'the Connected and PendingDisconnect services; the heap is cleared at close/reset; failing a missing id is a no-op; '
               'interruption counts are incremented for both ack tables before they are drained, compared with `>` against the limit, and '
               'fail with the retries-exceeded error. Added in round 3: the timeout loop retires every due record in one service. Added after the mutation sweeps: the ack-timeout and retry-limit setters store their argument.')
ASSUMPTIONS = ['not decided: boundary timing over all schedules (only the sites that start, compare and clear)']
P = 'src/protocol.rs'
PS = 'protocol::ProtocolState'


def heap_order(ctx, keyprefix, rule=None):
    for impl_, meth in (('Ord', 'cmp'), ('PartialOrd', 'partial_cmp')):
        cord = ctx.fn('<protocol::OperationTimeoutRecord as std::cmp::%s>::%s' % (impl_, meth))
        rv = prims.ret_variants(cord)
        TCMP = r'(Ord::cmp|PartialOrd::partial_cmp)\(self\.timeout, other\.timeout\)'
        def by_deadline(b, e):
            t = show(e)
            if re.match(r'^(Option::Some\{0: )?' + TCMP + r'\}?$', t) or re.match(r'^(Option::Some\{0: )?Ordering::then(_with)?\(' + TCMP + r', ', t):
                return True
            return guarded_any(cord, b, [TCMP + r'( is Equal| is Some)?.*Equal'])
        ok = bool(rv) and all(by_deadline(b, e) for b, e in rv)
        ctx.ob(ok, 'the heap orders records by deadline: %s::%s compares `timeout` first (returns: %s)' % (impl_, meth, sorted(set(show(e)[:70] for _, e in rv))), keyprefix + meth, loc=cord.loc(), rule=rule)


def run(ctx):
    F = ctx.F
    ctx.rule('R-C18-1', 'T1 + T9', 'the timeout record is created only when the operation is fully written, from that service time plus the operation\'s own ack timeout; publish, subscribe and unsubscribe are all covered')
    st = ctx.fn('ProtocolState::start_operation_ack_timeout')
    pushes = [(f, m) for f, m in prims.field_mutations(F, PS, P) if f == 'operation_ack_timeouts' and m.method == 'push']
    ctx.ob(len(pushes) == 1 and pushes[0][1].view.key == st.key, 'one site pushes timeout records', 'start|single-push', loc=st.loc())
    for f, m in pushes:
        rec = m.cs.arg(1)
        s = show(rec)
        ok = re.match(r'^Reverse\{0: OperationTimeoutRecord\{id: id, timeout: (Add::add\(now, timeout_duration_option@Some\.0\)|.*checked_add\(now, .*)\}\}$', s) is not None or ('id: id' in s and 'now' in s and 'timeout_duration' in s)
        ctx.ob(ok, 'record = (this operation id, now + its timeout) (%s)' % s[:100], 'start|record', loc=m.loc())
        requires(ctx, st, m.bb, [r'^timeout_duration_option is Some$'], 'start|only-with-timeout', 'starting an ack timeout', loc=m.loc())
    callers = F.callers().get(st.key, [])
    fw = ctx.fn('ProtocolState::on_current_operation_fully_written')
    ctx.ob(len(callers) == 1 and callers[0][0].key == fw.key, 'the timeout starts in the fully-written hook only (queue time does not count)', 'start|caller', loc=st.loc())
    for cv, bb in callers:
        cs = [c for c in cv.calls() if c.bb == bb][0]
        ctx.ob(show(cs.arg(2)) == 'now' and show(cs.arg(1)).endswith('.id'), 'the start time is the service time passed to the hook; the id is the written operation\'s', 'start|args', loc=cs.loc())
    sq = ctx.fn('ProtocolState::service_queue_aux')
    h = sq.calls('ProtocolState::on_current_operation_fully_written')
    ctx.ob(len(h) == 1 and show(h[0].arg(1)) == 'context.current_time' and guarded_any(sq, h[0].bb, [r'== EncodeResult::Complete\{\}\)$']), 'the hook runs with the service clock when encoding completed', 'start|hook-time', loc=sq.loc())
    gd = ctx.fn('ProtocolState::get_operation_timeout_duration')
    kinds = set()
    for b, e in prims.ret_variants(gd):
        if e[0] == 'agg' and e[2] == 'Some':
            m = re.search(r'operation\.options@Some\.0@(\w+)\.0\.options\.ack_timeout@Some\.0', show(e))
            if m:
                kinds.add(m.group(1))
    ctx.ob(kinds == {'Publish', 'Subscribe', 'Unsubscribe'}, 'the timeout option of every operation kind is honoured (%s)' % sorted(kinds), 'start|kinds', loc=gd.loc())

    ctx.rule('R-C18-2', 'T4 + T1', 'firing: deadline <= now, evaluated in the Connected and PendingDisconnect services; the heap is cleared at close and reset; failing an already-completed id is harmless')
    gn = ctx.fn('ProtocolState::get_next_ack_timeout')
    somes = [b for b, e in prims.ret_variants(gn) if e[0] == 'agg' and e[2] == 'Some']
    ctx.ob(len(somes) == 1 and guarded_any(gn, somes[0], [r'^\(.*\.timeout <= self\.current_time\)$']) and guarded_any(gn, somes[0], [r'^BinaryHeap::peek\(self\.operation_ack_timeouts\) is Some$']),
           'an operation is due when its deadline <= the engine clock', 'fire|predicate', loc=gn.loc())
    # (added after the mutation sweep) "now" is the time of this very call: every engine entry point adopts the caller's clock first
    for nm_, ok_, arg_, v_ in prims.clock_updates(F):
        ctx.ob(ok_, 'ProtocolState::%s adopts the caller\'s time (update_internal_clock(%s)) on every path before any other engine work, so deadlines are compared with the current service time' % (nm_, arg_), 'fire|clock|' + nm_, loc=v_.loc() if v_ else None)
    uc = ctx.fn('ProtocolState::update_internal_clock')
    wr = [(show(pe), show(rve)) for (i, s_, pe, rve) in uc.field_writes()]
    ctx.ob(('self.current_time', 'current_time') in wr, 'update_internal_clock stores the given time as the engine clock (%s)' % wr, 'fire|clock|store', loc=uc.loc())
    cw = [m for f, m in prims.field_mutations(F, 'protocol::ProtocolState', 'src/protocol.rs') if f == 'current_time']
    ctx.ob(len(cw) == 1 and short(cw[0].view.path) == 'ProtocolState::update_internal_clock', 'the engine clock is written nowhere else', 'fire|clock|writers', loc=uc.loc())
    rf = prims.rets_after(gn, [r'^BinaryHeap::peek\(self\.operation_ack_timeouts\) is Some$', r'^\(.*\.timeout <= self\.current_time\)$'])
    ctx.ob(rf == {'Some'}, 'completeness: a record whose deadline has passed is always reported due (%s)' % sorted(rf or []), 'fire|complete', loc=gn.loc())
    pa = ctx.fn('ProtocolState::process_ack_timeouts')
    f = pa.calls('ProtocolState::complete_operation_as_failure')
    ctx.ob(len(f) == 1 and show(f[0].arg(2)) == 'GneissError::new_ack_timeout()' and show(f[0].arg(1)).startswith('(ProtocolState::get_next_ack_timeout(self))@Some.0'), 'a due operation fails with the ack-timeout error', 'fire|error', loc=pa.loc())
    pops = [m for m in prims.mutations(pa) if m.method == 'pop']
    ctx.ob(len(pops) == 1 and guarded_any(pa, pops[0].bb, [r'^ProtocolState::get_next_ack_timeout\(self\) is Some$']), 'each fired record is popped', 'fire|pop', loc=pa.loc())
    for nm in ('service_connected', 'service_pending_disconnect'):
        v = ctx.fn('ProtocolState::' + nm)
        ctx.ob(len(v.calls('ProtocolState::process_ack_timeouts')) == 1, '%s processes ack timeouts' % nm, 'fire|service|' + nm, loc=v.loc())
    clears = [(f_, m) for f_, m in prims.field_mutations(F, PS, P) if f_ == 'operation_ack_timeouts' and m.method == 'clear']
    fns = sorted(m.view.path.split('::')[-1] for _, m in clears)
    ctx.ob(fns == ['handle_network_event_connection_closed', 'reset'], 'the heap is cleared at close and reset (%s)' % fns, 'fire|clear')
    cf = ctx.fn('ProtocolState::complete_operation_as_failure')
    oks = [b for b, e in prims.ret_variants(cf) if show(e) == 'Result::Ok{0: (tuple){}}' and guarded_any(cf, b, [r'^HashMap::remove\(self\.operations, id\) is None$'])]
    ctx.ob(bool(oks), 'failing an id that no longer exists (ack arrived first) is a no-op', 'fire|stale', loc=cf.loc())
    # the heap's order is the deadline order: both comparison impls compare `timeout` first; any other
    # key may only break ties (BinaryHeap sifts with PartialOrd::le/lt, i.e. partial_cmp)
    heap_order(ctx, 'fire|order|')

    ty = [f_['ty'] for f_ in F.adt(PS)['variants'][0]['fields'] if f_['name'] == 'operation_ack_timeouts'][0]
    ctx.ob(ty.startswith('std::collections::BinaryHeap<std::cmp::Reverse<'), 'the heap is a min-heap on the deadline (BinaryHeap<Reverse<..>>)', 'fire|minheap')

    ctx.rule('R-C18-3', 'T3 + T4', 'retries: counts of both ack tables are incremented at close before the tables are drained; an operation fails with the retries-exceeded error exactly when its count > limit')
    cl = ctx.fn('ProtocolState::handle_network_event_connection_closed')
    up = cl.calls('ProtocolState::update_interrupted_retries')
    fl = cl.calls('ProtocolState::fail_operations_exceeding_max_interruption_limit')
    swaps = [c for c in cl.calls('mem::swap') if re.search(r'pending_(non_)?publish_operations', show(c.arg(0)) + show(c.arg(1)))]
    ok = len(up) == 1 and len(fl) == 1 and len(swaps) == 2 and cl.dominates(up[0].bb, fl[0].bb) and all(cl.dominates(fl[0].bb, s.bb) for s in swaps)
    ctx.ob(ok, 'close: count, then fail the exceeding ones, then drain both ack tables', 'retry|order', loc=cl.loc())
    ur = ctx.fn('ProtocolState::update_interrupted_retries')
    incs = [m for m in prims.mutations(ur) if m.kind == 'assign' and show(m.path).endswith('.interruption_count')]
    srcs = ' ## '.join(show(c.arg(0)) for c in ur.calls('Iterator::collect', 'collect'))
    ctx.ob(len(incs) == 2 and all('AddWithOverflow 1' in show(m.rv) for m in incs) and 'pending_non_publish_operations' in srcs and 'pending_publish_operations' in srcs, 'the count of every member of both ack tables is incremented by one', 'retry|increment', loc=ur.loc())
    ctx.ob(all(guarded_any(ur, m.bb, [r'^self\.config\.max_interrupted_retries is Some$']) for m in incs), 'counting happens only when a limit is configured', 'retry|nolimit', loc=ur.loc())
    fe = ctx.fn('ProtocolState::fail_operations_exceeding_max_interruption_limit')
    preds = []
    for _, c in F.callees_of(fe):
        if c.f.get('parent'):
            for b, e in prims.ret_variants(c):
                preds.append(show(e))
    ctx.ob(len(preds) == 2 and all(re.match(r'^\(limit < \(Option::unwrap\(HashMap::get\(self\.operations, val\)\)\)\.interruption_count\)$|^PartialOrd::gt\(.*interruption_count, limit\)$|^\(.*interruption_count Gt limit\)$', p) for p in preds),
           'the limit predicate is interruption_count > limit for both tables (%s)' % preds, 'retry|predicate', loc=fe.loc())
    fs = fe.calls('ProtocolState::complete_operation_sequence_as_failure')
    ctx.ob(len(fs) == 2 and all('generate_interrupt_retries_exceeded_error' in show(c.arg(2)) for c in fs), 'exceeding operations fail with the retries-exceeded error', 'retry|error', loc=fe.loc())
    ge = ctx.fn('protocol::generate_interrupt_retries_exceeded_error')
    ctx.ob(any('new_max_interrupted_retries_exceeded_error' in show(e) for _, e in prims.ret_variants(ge)), 'the generator builds the retries-exceeded error', 'retry|generator', loc=ge.loc())
    ctx.ob(all(guarded_any(fe, c.bb, [r'^self\.config\.max_interrupted_retries is Some$']) for c in fs), 'nothing fails without a configured limit', 'retry|guard', loc=fe.loc())
    # ---- added after seed C18-3b: every record that is due fires at this service, not one per service
    pat_ = ctx.fn('ProtocolState::process_ack_timeouts')
    tst = pat_.calls('ProtocolState::get_next_ack_timeout')
    fl_ = pat_.calls('ProtocolState::complete_operation_as_failure')
    pop_ = [m for m in prims.mutations(pat_) if show(m.path) == 'self.operation_ack_timeouts' and m.method == 'pop']
    succ_, _, _ = pat_.graph()
    okl = len(tst) == 1 and len(fl_) == 1 and len(pop_) == 1 and tst[0].bb in pat_.reach(list(succ_[fl_[0].bb])) and tst[0].bb in pat_.reach(list(succ_[pop_[0].bb]))
    ctx.ob(okl, 'process_ack_timeouts is a loop: after failing one due operation it looks for the next one', 'fire|all-due|loop', loc=pat_.loc(), rule='R-C18-2')
    none_e = prims.edge_nodes_matching(pat_, [r'^ProtocolState::get_next_ack_timeout\(self\) is None$'])
    seen_ = pat_.reach([0], avoid=none_e)
    ctx.ob(bool(none_e) and not any(x in seen_ for x in pat_.exits()), 'process_ack_timeouts returns only when no further record is due', 'fire|all-due|exit', loc=pat_.loc(), rule='R-C18-2')
    ctx.ob(bool(pop_) and guarded_any(pat_, pop_[0].bb, [r'^ProtocolState::get_next_ack_timeout\(self\) is Some$']) and show(fl_[0].arg(1)).endswith('@Some.0') if fl_ else False,
           'exactly the due record is popped and its operation failed with the ack-timeout error', 'fire|all-due|pop', loc=pat_.loc(), rule='R-C18-2')
    # ---- added after the mutation sweep: the configured values this property starts from reach the options (builder setters)
    from . import shared as _sh
    _ns = _sh.builder_setters(ctx, lambda b, m: m == 'with_ack_timeout' or (b == 'MqttClientOptionsBuilder' and m == 'with_max_interrupted_retries'), 'R-C18-1', 'the ack timeout T and the retry limit N are the configured ones')
    if ctx.config == 'all':
        ctx.floor(_ns, 4, 'builder setters this property depends on')
