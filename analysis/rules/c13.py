"""C13 — both drivers move bytes faithfully and always deliver an operation's result."""
import re
from ..mir import show, short, norm, subexprs, var_inits
from .. import prims, errflow
from ..prims import requires, guard_strs, guarded_any, must_pass

EXPLANATION = ('Value-flow and guard rules over both drivers\' connected loops (the tokio one analysed on its coroutine MIR with suspension '
               'points re-linked): the slice written starts at the cumulative counter, the counter advances by the returned count, the buffer '
               'is cleared and write completion reported only when the whole batch was written and flushed, the outbound buffer has no other '
               'writer; the read hand-off passes exactly the bytes read; the WebSocket adapter\'s cursor arithmetic; submit paths validate '
               'first and produce a result on every failure path; the result sender resolves when dropped unsent; the operation receiver is '
               'owned by the loop. Added in round 2: the tokio write arm awaits exactly one cancel-safe AsyncWriteExt::write and reports its count unchanged; no cancel-unsafe I/O helper is used in the connected loop. Added in round 3 / after the mutation sweeps: the WebSocket write adapter never reports would-block for a queued message (defect 15); the read adapter as a whole (refill, store, drop, loop condition, would-block and final-error outcomes); the threaded result slot (store-when-empty + notify, wait-while-empty, polling reader).')
ASSUMPTIONS = ['not decided: interleavings of submit/stop/close with the loop thread/task, transport fault sequences, the tokio WebSocket path (external stream-ws crate)',
               'library contract trusted: tokio::sync::oneshot::Sender resolves its receiver with an error when dropped unsent; a dropped mpsc receiver makes later sends fail']
EXTRA_CONFIGS = ['tokio', 'threaded', 'threaded-ws']


def chain_text(view, name, depth=5):
    """All initialiser expressions reachable from variable `name` through named variables."""
    seen = set()
    out = []
    work = [name]
    d = 0
    while work and d < 40:
        d += 1
        n = work.pop()
        if n in seen:
            continue
        seen.add(n)
        for b, e in var_inits(view, n):
            out.append((b, e))
            for x in subexprs(e):
                if x[0] == 'var' and x[1] not in seen:
                    work.append(x[1])
    return out


def find_one(F, suffix):
    c = F.find_fns(suffix)
    return c[0] if len(c) == 1 else None


def run(ctx):
    check(ctx, need=('threaded', 'tokio', 'ws'))


def run_config(ctx):
    check(ctx, need=())


def check(ctx, need):
    F = ctx.F
    th = find_one(F, 'client::synchronous::threaded::ClientRuntimeState::process_connected')
    tk = find_one(F, 'client::asynchronous::tokio::ClientRuntimeState::process_connected::{closure#0}')
    drivers = []
    if th is not None:
        drivers.append(('threaded', th, r'^Write::write\(stream, (.*)\)$', 'Write::write', 'Read::read', 'Write::flush'))
    if tk is not None:
        drivers.append(('tokio', tk, None, 'tokio::conditional_write', 'AsyncReadExt::read', 'AsyncWriteExt::flush'))
    ctx.rule('R-C13-0', 'anchor', 'driver bodies present in this feature configuration')
    for nm in ('threaded', 'tokio'):
        if nm in need:
            ctx.ob(any(d[0] == nm for d in drivers), '%s driver connected loop found' % nm, 'driver|' + nm)
    ctx.ob(True, 'drivers analysed in config %s: %s' % (ctx.config, [d[0] for d in drivers]), 'drivers-present')

    # ------------------------------------------------------------ R-C13-1
    ctx.rule('R-C13-1', 'T9 value flow + T2', 'write cursor: the slice written starts at the cumulative counter; the counter advances by the returned count; clear/reset/flush/write-completion only when counter == buffer length; the outbound buffer is mutated only by handle_service and that clear')
    for nm, v, _, wfn, rfn, ffn in drivers:
        ctx.touch(v)
        # (a) slice source
        idx = [c for c in v.calls() if c.nfn.endswith('::index') and show(c.arg(0)) == 'outbound_data']
        ok = len(idx) == 1 and show(idx[0].arg(1)) == 'RangeFrom{start: cumulative_bytes_written}' and guarded_any(v, idx[0].bb, [r'^\(cumulative_bytes_written < Vec::len\(outbound_data\)\)$'])
        ctx.ob(ok, '%s: pending output is outbound_data[cumulative_bytes_written..] under cumulative < len' % nm, 'cursor|%s|slice' % nm, loc=v.loc(idx[0].bb) if idx else v.loc())
        wcalls = [c for c in v.calls() if c.is_fn(wfn)]
        ctx.ob(len(wcalls) == 1, '%s: one write site' % nm, 'cursor|%s|one-write' % nm, loc=v.loc())
        for c in wcalls:
            darg = c.arg(1) if nm == 'threaded' else c.arg(0)
            root = [x[1] for x in subexprs(darg) if x[0] == 'var']
            txt = ' ## '.join(show(e) for r in root for _, e in chain_text(v, r))
            ctx.ob('Index::index(outbound_data, RangeFrom{start: cumulative_bytes_written})' in txt, '%s: the bytes handed to write derive from that slice (%s)' % (nm, show(darg)), 'cursor|%s|write-arg' % nm, loc=c.loc())
        # (b) counter advance
        incs = [(b, e) for b, e in var_inits(v, 'cumulative_bytes_written') if show(e) != '0']
        ok = len(incs) == 1
        if ok:
            m = re.match(r'^\(\(cumulative_bytes_written AddWithOverflow (.*)\)\)\.0$', show(incs[0][1]))
            ok = m is not None and m.group(1).endswith('@Ok.0')
            if ok:
                val = m.group(1)[:-len('@Ok.0')]
                if val.startswith('(') and val.endswith(')'):
                    val = val[1:-1]
                ok = guarded_any(v, incs[0][0], ['^' + re.escape(val) + r' is Ok$'])
                if nm == 'threaded':
                    ok = ok and val == 'Write::write(stream, write_directive@Some.0)'
        ctx.ob(ok, '%s: the counter advances by exactly the count the write returned (%s)' % (nm, [show(e) for _, e in incs]), 'cursor|%s|advance' % nm, loc=v.loc(incs[0][0]) if incs else v.loc())
        if nm == 'tokio':
            # (b') the write arm of the select! must be cancellation safe and report the transport's own count: the helper awaits
            # exactly one AsyncWriteExt::write (one poll_write; dropping the future loses nothing) and yields its result unchanged
            cw = find_one(F, 'client::asynchronous::tokio::conditional_write::{closure#0}')
            okw = cw is not None
            if okw:
                ctx.touch(cw)
                w_ = [c for c in cw.calls() if c.nfn.startswith('tokio::io::AsyncWriteExt::') or c.nfn.startswith('tokio::io::AsyncReadExt::')]
                polls = [c for c in cw.calls() if c.nfn.endswith('::poll')]
                rv_ = [show(e) for b, e in prims.ret_variants(cw) if 'Option::Some' in show(e)]
                okw = len(w_) == 1 and w_[0].nfn == 'tokio::io::AsyncWriteExt::write' and show(w_[0].arg(0)) == 'writer' and show(w_[0].arg(1)) == 'data@Some.0' \
                    and len(polls) == 1 and 'tokio::io::util::write::Write<' in polls[0].fn \
                    and rv_ == ['Poll::Ready{0: Option::Some{0: (Future::poll(Pin::new_unchecked(__awaitee), _task_context))@Ready.0}}']
            ctx.ob(okw, 'tokio: the write arm awaits a single AsyncWriteExt::write of the pending slice and yields its byte count unchanged (cancel-safe inside select!)', 'cursor|tokio|cancel-safe-write', loc=cw.loc() if cw else v.loc())
            UNSAFE = ('write_all', 'write_all_buf', 'write_buf', 'read_exact', 'read_to_end', 'read_to_string', 'read_buf', 'read_line', 'read_until', 'copy', 'copy_buf')
            bad = []
            for bv in F.fns_in('client/asynchronous/tokio/mod.rs'):
                if 'process_connected' not in bv.path and 'conditional_write' not in bv.path:
                    continue    # e.g. the HTTP proxy handshake, which runs before the MQTT byte stream exists and is dropped as a whole when cancelled
                for c in bv.calls():
                    if (c.nfn.startswith('tokio::io::AsyncWriteExt::') or c.nfn.startswith('tokio::io::AsyncReadExt::') or c.nfn.startswith('tokio::io::AsyncBufReadExt::') or c.nfn.startswith('tokio::io::copy')) and c.nfn.split('::')[-1] in UNSAFE:
                        bad.append('%s in %s' % (short(c.nfn), short(bv.path)))
            ctx.ob(not bad, 'tokio: no I/O helper documented as not cancellation safe (write_all, read_exact, ...) is used by the connected loop, whose I/O futures live in select! arms %s' % bad, 'cursor|tokio|no-cancel-unsafe-io', loc=v.loc())
        # (c) clear/reset/should_flush under counter == len
        EQ = r'^\(cumulative_bytes_written == Vec::len\(outbound_data\)\)$'
        clears = [c for c in v.calls('Vec::clear') if show(c.arg(0)) == 'outbound_data']
        resets = [(b, e) for b, e in var_inits(v, 'cumulative_bytes_written') if show(e) == '0' and guard_strs(v, b)]
        flags = [(b, e) for b, e in var_inits(v, 'should_flush') if show(e) == 'True']
        ctx.ob(len(clears) == 1 and guarded_any(v, clears[0].bb, [EQ]), '%s: outbound buffer cleared only when fully written' % nm, 'cursor|%s|clear' % nm, loc=v.loc())
        ctx.ob(len(resets) == 1 and guarded_any(v, resets[0][0], [EQ]), '%s: counter reset only when fully written' % nm, 'cursor|%s|reset' % nm, loc=v.loc())
        ctx.ob(len(flags) == 1 and guarded_any(v, flags[0][0], [EQ]), '%s: flush requested only when fully written' % nm, 'cursor|%s|flag' % nm, loc=v.loc())
        # (d) write completion after a successful flush
        wc = v.calls('MqttClientImpl::handle_write_completion')
        ctx.ob(len(wc) == 1 and guarded_any(v, wc[0].bb, [r'^should_flush$']) and guarded_any(v, wc[0].bb, [r'flush\(.*\) is Ok$|^\(Future::poll\(.*\)\)@Ready\.0 is Ok$']),
               '%s: write completion is reported only after a successful flush of a fully written batch' % nm, 'cursor|%s|completion' % nm, loc=v.loc())
        fl = [c for c in v.calls() if c.is_fn(ffn)]
        ctx.ob(len(fl) == 1 and guarded_any(v, fl[0].bb, [r'^should_flush$']), '%s: flush happens under should_flush' % nm, 'cursor|%s|flush' % nm, loc=v.loc())
        # (e) who mutates the outbound buffer
        muts = [m for m in prims.mutations(v) if show(m.path) == 'outbound_data' and m.kind != 'access']
        kinds = sorted(set(short(m.callee) if m.callee else '=' for m in muts))
        ctx.ob(kinds == ['MqttClientImpl::handle_service', 'Vec::clear'], '%s: outbound buffer written only by handle_service and clear (%s)' % (nm, kinds), 'cursor|%s|writers' % nm, loc=v.loc())
        caps = [c for c in v.calls('Vec::with_capacity')]
        ctx.ob(any((prims.const_val(c.arg(0)) or 0) >= 4 for c in caps), '%s: outbound buffer capacity is a constant >= 4 (encoder precondition)' % nm, 'cursor|%s|capacity' % nm, loc=v.loc())

    # ------------------------------------------------------------ R-C13-2
    ctx.rule('R-C13-2', 'T9 value flow', 'read hand-off: the engine receives inbound_data[..n] with n the count the read returned; n == 0 is end of stream; would-block is not an error (threaded)')
    # (added after the second mutation sweep) the threaded loop polls: a would-block result means "nothing to do now" only on a non-blocking socket
    if 'threaded' in need:
        nb_ = [(c, show(c.arg(1))) for v_ in F.fns_in('threaded/mod.rs') for c in v_.calls() if c.nfn.split('<')[0].endswith('set_nonblocking')]
        bad_ = [(c_.ln, a_) for c_, a_ in nb_ if a_ != 'True']
        ctx.ob(bool(nb_) and not bad_, 'every stream the threaded connection factories build is switched to non-blocking mode (%d sites; not `true`: %s)' % (len(nb_), bad_), 'read|threaded|non-blocking')
        if ctx.config == 'all':
            ctx.floor(len(nb_), 20, 'set_nonblocking sites in the threaded connection factories')
    for nm, v, _, wfn, rfn, ffn in drivers:
        rd = [c for c in v.calls() if c.is_fn(rfn)]
        ok = len(rd) == 1 and show(rd[0].arg(1)) == 'array::as_mut_slice(inbound_data)'
        ctx.ob(ok, '%s: one read into the inbound buffer' % nm, 'read|%s|site' % nm, loc=v.loc())
        hb = v.calls('MqttClientImpl::handle_incoming_bytes')
        ctx.ob(len(hb) == 1, '%s: one hand-off site' % nm, 'read|%s|handoff-site' % nm, loc=v.loc())
        for c in hb:
            a = show(c.arg(1))
            m = re.match(r'^Index::index\(inbound_data, RangeTo\{end: (.*)@Ok\.0\}\)$', a)
            ok = m is not None
            if ok:
                n = m.group(1) + '@Ok.0'
                base = m.group(1)[1:-1] if m.group(1).startswith('(') and m.group(1).endswith(')') else m.group(1)
                ok = guarded_any(v, c.bb, [r'^!\(' + re.escape(n) + r' == 0\)$']) and guarded_any(v, c.bb, ['^' + re.escape(base) + ' is Ok$'])
                if nm == 'threaded':
                    ok = ok and base == 'Read::read(stream, array::as_mut_slice(inbound_data))'
            ctx.ob(ok, '%s: handle_incoming_bytes(&inbound_data[..n]) with n = bytes read, n != 0 (%s)' % (nm, a[:90]), 'read|%s|handoff' % nm, loc=c.loc())
        # zero bytes => reconnect
        if nm == 'threaded':
            inits = var_inits(v, 'connection_fatal_read_error')
            eof = [b for b, e in inits if 'UnexpectedEof' in show(e)]
            ctx.ob(bool(eof) and all(guarded_any(v, b, [r'@Ok\.0 == 0\)$']) for b in eof), 'threaded: a zero-byte read is treated as end of stream', 'read|threaded|eof', loc=v.loc())
            fatal = [b for b, e in inits if show(e).endswith('@Err.0}')]
            ctx.ob(bool(fatal) and all(any(re.search(r'^discr\(Error::kind\(.*\)\) not in \(13,\)$', g) for g in guard_strs(v, b)) for b in fatal), 'threaded: a read error is fatal unless its kind is WouldBlock', 'read|threaded|wouldblock', loc=v.loc())
            winits = var_inits(v, 'connection_fatal_write_error')
            wfatal = [b for b, e in winits if show(e).endswith('@Err.0}')]
            ctx.ob(bool(wfatal) and all(any(re.search(r'^discr\(Error::kind\(.*\)\) not in \(13, 35\)$', g) for g in guard_strs(v, b)) for b in wfatal), 'threaded: a write error is fatal unless WouldBlock/Interrupted', 'write|threaded|wouldblock', loc=v.loc())
        else:
            ns = [b for b, e in var_inits(v, 'next_state') if 'PendingReconnect' in show(e)]
            ctx.ob(any(guarded_any(v, b, [r'@Ok\.0 == 0\)$']) for b in ns), 'tokio: a zero-byte read ends the connection', 'read|tokio|eof', loc=v.loc())
    kind = F.adts.get('std::io::ErrorKind')
    ctx.note('std::io::ErrorKind discriminants 13/35 are WouldBlock/Interrupted in this toolchain\'s std (trusted; the match arms are the source of these switch values)')

    # ------------------------------------------------------------ R-C13-3
    ctx.rule('R-C13-3', 'T9 value flow', 'WebSocket adapter: each message is copied from its own cursor position into the unread tail of the caller\'s buffer; write reports the whole buffer only after sending the whole buffer')
    mc = find_one(F, 'ws_stream::MessageCursor::read')
    wr = find_one(F, '<client::synchronous::threaded::ws_stream::WebsocketStreamWrapper<T> as std::io::Read>::read')
    ww = find_one(F, '<client::synchronous::threaded::ws_stream::WebsocketStreamWrapper<T> as std::io::Write>::write')
    if 'ws' in need:
        ctx.ob(mc is not None and wr is not None and ww is not None, 'WebSocket adapter bodies found', 'ws|present')
    if mc is not None and wr is not None and ww is not None:
        ctx.touch(mc, wr, ww)
        cp = mc.calls('slice::copy_from_slice')
        ctx.ob(len(cp) == 1, 'message cursor has one copy site', 'ws|copy-site', loc=mc.loc())
        for c in cp:
            src = show(c.arg(1))
            ok = re.match(r'^Index::index\(self\.data, Range(From)?\{start: self\.index', src) is not None
            ctx.ob(ok, 'the copy source starts at the message cursor (found %s)' % src[:90], 'ws|cursor-source', loc=c.loc())
            dst = show(c.arg(0))
            ctx.ob(re.match(r'^IndexMut::index_mut\(dest, RangeTo\{end: ', dst) is not None, 'the copy destination is the head of the destination slice it was given', 'ws|cursor-dest', loc=c.loc())
        adv = [(i, s, pe, rve) for (i, s, pe, rve) in mc.field_writes() if show(pe) == 'self.index']
        ctx.ob(len(adv) == 1 and show(adv[0][3]).startswith('((self.index AddWithOverflow Ord::min('), 'the cursor advances by the copied amount', 'ws|cursor-advance', loc=mc.loc())
        rc = wr.calls('ws_stream::MessageCursor::read')
        ctx.ob(len(rc) == 1, 'adapter read has one cursor-read site', 'ws|read-site', loc=wr.loc())
        for c in rc:
            d = show(c.arg(1))
            ok = re.match(r'^IndexMut::index_mut\(buf, RangeFrom\{start: bytes_read\}\)$', d) is not None
            ctx.ob(ok, 'each message is read into buf[bytes_read..] (found `%s`)' % d[:80], 'ws|read-offset', loc=c.loc())
        acc = [show(e) for _, e in var_inits(wr, 'bytes_read')]
        ctx.ob(any(a.startswith('((bytes_read AddWithOverflow MessageCursor::read(') for a in acc), 'the running count accumulates what each cursor read returned', 'ws|read-accumulate', loc=wr.loc())
        # bytes already copied in this call are never discarded: an error (final or would-block) is
        # only reported when nothing has been copied yet; otherwise the count is returned first
        rerrs = [(b, e) for b, e in prims.ret_variants(wr) if e[0] == 'agg' and e[2] == 'Err'] + \
                [(cs.bb, None) for cs in wr.calls('FromResidual::from_residual') if cs.dest['l'] == 0]
        ctx.ob(len(rerrs) >= 2, 'adapter read has its two error exits (final error, would-block)', 'ws|read-err-exits', loc=wr.loc())
        ZERO = [r'^\(bytes_read <= 0\)$', r'^\(bytes_read == 0\)$', r'^!\(0 < bytes_read\)$', r'^!\(bytes_read > 0\)$']
        for b, e in rerrs:
            ctx.ob(guarded_any(wr, b, ZERO), 'adapter read reports an error only when no byte has been copied in this call (guards: %s)' % '; '.join(guard_strs(wr, b))[-160:],
                   'ws|read-err-after-data|%s' % ('would-block' if e is not None and 'WouldBlock' in show(e) else 'final'), loc=wr.loc())
        # ---- added after the mutation sweep: the read adapter as a whole (refill, store, drop, loop condition, outcomes)
        NOTFULL = [r'^\(bytes_read < slice::len\(buf\)\)$', r'^!\(slice::len\(buf\) <= bytes_read\)$']
        rvs_mc = prims.ret_variants(mc)
        amount = [show(e) for b_, e in rvs_mc if cp and b_ in mc.reach([cp[0].bb])]
        others = [show(e) for b_, e in rvs_mc if not (cp and b_ in mc.reach([cp[0].bb]))]
        ctx.ob(len(amount) == 1 and amount[0].startswith('Ord::min(') and set(others) <= {'0'} and cp and not any(b_ in mc.reach(list(mc.graph()[0][cp[0].bb])) for b_, e in rvs_mc if show(e) == '0'),
               'the message cursor reports exactly the number of bytes it copied (after the copy: %s; without a copy: %s)' % (amount, others), 'ws|cursor-returns', loc=mc.loc())
        for c in rc:
            ctx.ob(guarded_any(wr, c.bb, NOTFULL), 'a message is read into the buffer only while the buffer is not full', 'ws|read-loop-cond', loc=c.loc())
        okfull = [b_ for b_, e in prims.ret_variants(wr) if show(e) == 'Result::Ok{0: bytes_read}' and guarded_any(wr, b_, [r'^\(slice::len\(buf\) <= bytes_read\)$', r'^!\(bytes_read < slice::len\(buf\)\)$'])]
        fulls = prims.edge_nodes_matching(wr, [r'^\(slice::len\(buf\) <= bytes_read\)$'])
        ctx.ob(bool(okfull) and any(not (set(wr.reach([e_])) & {c.bb for c in rc}) and any(o_ in wr.reach([e_]) for o_ in okfull) for e_ in fulls),
               'a full buffer ends the call with the count (no further message is touched)', 'ws|read-full-returns', loc=wr.loc())
        sr = wr.calls('tungstenite::WebSocket::read')
        ctx.ob(len(sr) == 1 and guarded_any(wr, sr[0].bb, [r'^self\.current_read_message is None$']) and guarded_any(wr, sr[0].bb, [r'^self\.final_error is None$']),
               'the next message is fetched only when the current one is used up and no final error is pending', 'ws|read-refill', loc=wr.loc())
        if len(sr) == 1 and len(rc) == 1:
            st = [i for (i, s_, pe, rve) in wr.field_writes() if show(pe) == 'self.current_read_message' and show(rve).startswith('MessageCursor::new((WebSocket::read(self.stream))@Ok.0)')]
            oke = prims.edge_nodes_matching(wr, [r'^WebSocket::read\(self\.stream\) is Ok$'])
            ctx.ob(len(st) == 1 and bool(oke) and all(rc[0].bb not in wr.reach([e_], avoid=st) for e_ in oke), 'every fetched message becomes the current message before anything is copied', 'ws|read-store', loc=wr.loc())
            fe = [i for (i, s_, pe, rve) in wr.field_writes() if show(pe) == 'self.final_error' and show(rve).startswith('Option::Some{0: (WebSocket::read(self.stream))@Err.0')]
            nwb = prims.edge_nodes_matching(wr, [r'^!ws_stream::is_tungstenite_error_would_block\(\(WebSocket::read\(self\.stream\)\)@Err\.0\)$'])
            ctx.ob(len(fe) == 1 and bool(nwb) and all(not (set(wr.reach([e_], avoid=fe)) & ({sr[0].bb} | set(wr.exits()))) for e_ in nwb),
                   'a fetch error other than would-block is recorded as the final error (before the loop goes on or the call returns)', 'ws|read-final-store', loc=wr.loc())
            wb = prims.edge_nodes_matching(wr, [r'^ws_stream::is_tungstenite_error_would_block\(\(WebSocket::read\(self\.stream\)\)@Err\.0\)$'])
            ctx.ob(bool(wb) and all(not (set(wr.reach([e_])) & (set(fe) | {sr[0].bb, rc[0].bb})) for e_ in wb) and
                   prims.rets_after(wr, [r'^ws_stream::is_tungstenite_error_would_block\(', r'^\(0 < bytes_read\)$|^!\(bytes_read <= 0\)$|^!\(bytes_read == 0\)$|^\(bytes_read != 0\)$']) == {'Ok'},
                   'a transport would-block ends the call: with the count when something was copied, as would-block otherwise; it is never recorded as the final error', 'ws|read-would-block', loc=wr.loc())
            fs = prims.edge_nodes_matching(wr, [r'^self\.final_error is Some$'])
            ctx.ob(bool(fs) and all(not (set(wr.reach([e_])) & {sr[0].bb, rc[0].bb}) for e_ in fs) and prims.rets_after(wr, [r'^self\.final_error is Some$', r'^\(0 < bytes_read\)$|^!\(bytes_read <= 0\)$|^!\(bytes_read == 0\)$|^\(bytes_read != 0\)$']) == {'Ok'},
                   'with a final error pending the call ends: bytes already copied are returned first, the error on the next call', 'ws|read-final-pending', loc=wr.loc())
            dr = [i for (i, s_, pe, rve) in wr.field_writes() if show(pe) == 'self.current_read_message' and show(rve) == 'Option::None{}']
            ok = len(dr) == 1 and guarded_any(wr, dr[0], NOTFULL) and dr[0] in wr.reach(list(wr.graph()[0][rc[0].bb]))
            # completeness: after a cursor read that left room in the buffer, the message is dropped before the loop condition is evaluated again
            nf_after = [e_ for e_ in prims.edge_nodes_matching(wr, NOTFULL) if e_ in wr.reach(list(wr.graph()[0][rc[0].bb])) and not wr.dominates(e_, rc[0].bb)]
            ok = ok and bool(nf_after) and all(not (set(wr.reach([e_], avoid=dr)) & ({sr[0].bb, rc[0].bb} | set(wr.exits()))) for e_ in nf_after)
            ctx.ob(ok, 'a message is dropped exactly when it could not fill the buffer (it is used up); a message that filled the buffer stays current for the next call', 'ws|read-drop', loc=wr.loc())
        oks = [(b, show(e)) for b, e in prims.ret_variants(ww) if e[0] == 'agg' and e[2] == 'Ok']
        snd = ww.calls('tungstenite::WebSocket::send')
        wq = ww.calls('tungstenite::WebSocket::write')
        fl_ = ww.calls('tungstenite::WebSocket::flush')
        # library contract (tungstenite 0.20 `WebSocket::write` documentation): a frame whose write fails on the transport stays queued and is
        # completed by later write/flush calls; only WriteBufferFull hands the message back.  Hence: once `write` returned Ok or a transport
        # would-block the message is accepted and must be reported as written; `send` (write + flush, reporting the flush's would-block) must not
        # be used, because the caller retries after would-block and the bytes would go out twice (defect 15).
        ctx.ob(not snd, 'the adapter does not use WebSocket::send, whose would-block result hides that the message is already queued', 'ws|write|no-send', loc=ww.loc())
        ok = len(wq) == 1 and show(wq[0].arg(1)) == 'Message::Binary{0: slice::to_vec(buf)}' and bool(oks) and all(s == 'Result::Ok{0: slice::len(buf)}' for b, s in oks)
        WOK = [r'^WebSocket::write\(.*\) is Ok$', r'^ws_stream::is_tungstenite_error_would_block\(\(?WebSocket::write\(.*\)\)?@Err\.0\)$']
        ok = ok and all(guarded_any(ww, b, WOK) for b, s in oks)
        ctx.ob(ok, 'write queues the whole buffer as one binary message and reports buf.len() only when the message was queued (write Ok, or the transport would block with the frame kept)', 'ws|write', loc=ww.loc())
        errs_ = [b for b, e in prims.ret_variants(ww) if e[0] == 'agg' and e[2] == 'Err']
        ctx.ob(bool(errs_) and all(guarded_any(ww, b, [r'^!ws_stream::is_tungstenite_error_would_block\(']) for b in errs_), 'write reports an error only for failures other than a transport would-block (a full websocket buffer is mapped to would-block: message not queued)', 'ws|write|errors', loc=ww.loc())
        wbf = ctx.fn('ws_stream::map_tungstenite_error_to_io_error')
        m_ = [(show(e), guard_strs(wbf, b)) for b, e in prims.ret_variants(wbf)]
        # tungstenite 0.20.1 `enum Error` (external crate: variant names are not in the fact base): 0 ConnectionClosed, 1 AlreadyClosed, 2 Io, 3 Tls,
        # 4 Capacity, 5 Protocol, 6 WriteBufferFull, 7 Utf8 … (transcribed from the pinned dependency's source)
        ctx.ob(any('ErrorKind::WouldBlock' in x and any(g.endswith(' is WriteBufferFull') or g == 'discr(error) == 6' for g in gs) for x, gs in m_), 'a full websocket write buffer (message handed back, nothing queued) is what the caller sees as would-block', 'ws|write|buffer-full', loc=wbf.loc())
        kw = ctx.fn('ws_stream::is_tungstenite_error_would_block')
        kr_ = [(show(e), prims.guard_strs_plain(kw, b)) for b, e in prims.ret_variants(kw)]
        ctx.ob(sorted(x for x, g in kr_) == ['False', 'PartialEq::eq(Error::kind(error@Io.0), ErrorKind::WouldBlock{})'] and
               all((x == 'False') == (not any(y in ('discr(error) == 2', 'error is Io') for y in g)) for x, g in kr_),
               'the would-block test is true only for a transport (Io) error of kind WouldBlock (%s)' % [x for x, g in kr_], 'ws|write|would-block-test', loc=kw.loc())

    # ------------------------------------------------------------ R-C13-4
    ctx.rule('R-C13-4', 'T1/T2 + impl facts', 'one result per submission: validation precedes the channel send; a failed send produces a result; a result sender dropped unsent resolves its receiver')
    # ---- added after the mutation sweep: the result slot of the threaded client (one writer, blocking and polling readers)
    sa = find_one(F, 'client::synchronous::SyncResultSender::<T>::apply') or find_one(F, 'SyncResultSender::apply')
    rr = find_one(F, 'client::synchronous::SyncResultReceiver::<T>::recv') or find_one(F, 'SyncResultReceiver::recv')
    tr = find_one(F, 'client::synchronous::SyncResultReceiver::<T>::try_recv') or find_one(F, 'SyncResultReceiver::try_recv')
    if 'threaded' in need:
        ctx.ob(sa is not None and rr is not None and tr is not None, 'result slot bodies found', 'slot|present')
    if sa is not None and rr is not None and tr is not None:
        ctx.touch(sa, rr, tr)
        SOME, NONE = [r'^Deref::deref\(current_value\) is Some$'], [r'^Deref::deref\(current_value\) is None$']
        st_ = [i for (i, j, s_) in sa.stmts() if s_['k'] == 'assign' and s_['lhs']['p'] and show(sa.place_expr(s_['lhs'])) == 'DerefMut::deref_mut(current_value)' and show(sa.rvalue_expr(s_['rv'], i)) == 'Option::Some{0: value}']
        na_ = sa.calls('Condvar::notify_all')
        ok = len(st_) == 1 and guarded_any(sa, st_[0], NONE) and len(na_) == 1 and must_pass(sa, st_[0], [na_[0].bb])[0]
        es_ = prims.edge_nodes_matching(sa, NONE)
        ok = ok and bool(es_) and all(st_[0] in sa.reach([e_]) and not (set(sa.reach([e_], avoid=st_)) & set(sa.exits())) for e_ in es_)
        ctx.ob(ok, 'apply stores the value whenever the slot is empty and wakes every waiter afterwards', 'slot|apply', loc=sa.loc())
        wt_ = rr.calls('Condvar::wait')
        tk_ = [c for c in rr.calls('Option::take', 'take')]
        ok = len(wt_) == 1 and guarded_any(rr, wt_[0].bb, NONE) and wt_[0].bb in rr.reach(list(rr.graph()[0][wt_[0].bb])) and len(tk_) == 1 and guarded_any(rr, tk_[0].bb, SOME)
        rv_ = [show(e_) for b_, e_ in prims.ret_variants(rr)]
        ok = ok and rv_ == ['Option::unwrap(Option::take(DerefMut::deref_mut(current_value)))']
        ctx.ob(ok, 'recv waits (in a loop) exactly while the slot is empty and then takes the value', 'slot|recv', loc=rr.loc())
        rows_ = sorted((show(e_), tuple(g for g in prims.guard_strs_plain(tr, b_))) for b_, e_ in prims.ret_variants(tr))
        ctx.ob(rows_ == [('Option::None{}', ('Deref::deref(current_value) is None',)), ('Option::take(DerefMut::deref_mut(current_value))', ('Deref::deref(current_value) is Some',))],
               'try_recv answers None for an empty slot and takes the value otherwise (%s)' % [r_[0] for r_ in rows_], 'slot|try-recv', loc=tr.loc())
    subs = []
    for v in F.all_fns():
        p = norm(v.path)
        m = re.match(r'^<client::(synchronous::threaded::ThreadedClient|asynchronous::tokio::TokioClient) as client::(synchronous::SyncClient|asynchronous::AsyncClient)>::(publish|subscribe|unsubscribe)(_with_callback)?$', p)
        if m:
            subs.append((m.group(1).split('::')[1], m.group(3) + (m.group(4) or ''), v))
    if 'threaded' in need and 'tokio' in need:
        ctx.floor(len(subs), 9, 'public submit functions (both drivers)')
    for drv, nm, v in subs:
        ctx.touch(v)
        sends = [c for c in v.calls() if re.search(r'(Sender|UnboundedSender)::send$', c.nfn)]
        vals = v.calls('validate::validate_packet_outbound')
        ok = len(sends) == 1 and len(vals) == 1 and guarded_any(v, sends[0].bb, [r'^validate::validate_packet_outbound\(.*\) is Ok$', r'^Try::branch\(validate::validate_packet_outbound\(.*\)\) is Continue$'])
        ctx.ob(ok, '%s %s: the operation is sent to the loop only after submit-time validation passed' % (drv, nm), 'submit|%s|%s|validate' % (drv, nm), loc=v.loc())
        if not sends:
            continue
        s = sends[0]
        sres = show(('call', s.nfn, tuple(s.arg(i) for i in range(len(s.args))), s.bb))
        if drv == 'threaded' and not nm.endswith('_with_callback'):
            ap = [c for c in v.calls('SyncResultSender::apply') if guarded_any(v, c.bb, [r'send\(.*\) is Err$'])]
            ctx.ob(len(ap) == 1 and show(ap[0].arg(1)).startswith('Result::Err{0: GneissError::new_operation_channel_failure('), 'threaded %s: a failed channel send fills the result slot with an error' % nm, 'submit|threaded|%s|sendfail' % nm, loc=v.loc())
            apv = [c for c in v.calls('SyncResultSender::apply') if guarded_any(v, c.bb, [r'^validate::validate_packet_outbound\(.*\) is Err$'])]
            ctx.ob(len(apv) == 1, 'threaded %s: a validation failure fills the result slot' % nm, 'submit|threaded|%s|valfail' % nm, loc=v.loc())
        elif drv == 'threaded':
            errs = prims.err_blocks(v)
            ctx.ob(any(guarded_any(v, b, [r'send\(.*\) is Err$']) for b in errs), 'threaded %s: a failed channel send is returned synchronously' % nm, 'submit|threaded|%s|sendfail' % nm, loc=v.loc())
        else:
            # the returned future owns send_result and the oneshot receiver
            futs = [c for _, c in F.callees_of(v) if c.f.get('coroutine')]
            okf = False
            for fv in futs:
                errb = [b for b, e in prims.ret_variants(fv) if 'new_operation_channel_failure' in show(e)]
                if errb and any(guarded_any(fv, b, [r'send_result is Err$']) for b in errb):
                    okf = True
            ctx.ob(okf, 'tokio %s: the returned future resolves with an error when the channel send failed' % nm, 'submit|tokio|%s|sendfail' % nm, loc=v.loc())
    # result sender resolves when dropped unsent
    has_sync = any(p.endswith('client::synchronous::SyncResultSender') for p in F.adts)
    if has_sync and th is not None:
        drops = [k for k in F.fns if re.search(r'^<client::synchronous::(SyncResultSender|\w*Guard\w*)<.*> as std::ops::Drop>::drop$', F.fns[k]['path'])]
        loop = find_one(F, 'client::synchronous::threaded::client_event_loop')
        drained = False
        if loop is not None:
            # accepted alternative: after the loop, close the receiver and fail every queued operation
            drained = bool([c for c in loop.calls() if re.search(r'Receiver::(try_recv|recv|try_iter|iter)$', c.nfn)])
        ctx.ob(bool(drops) or drained, 'threaded: an operation dropped with the channel (loop exited) still resolves its SyncResultReceiver — needs a Drop on the sender/guard or a drain at loop exit',
               'result-slot|threaded|drop', loc=loop.loc() if loop else None,
               detail=None if (drops or drained) else 'SyncResultSender has no Drop impl and client_event_loop does not drain operation_receiver: recv() on such a result blocks forever')
    if tk is not None:
        ctx.ob(True, 'tokio: tokio::sync::oneshot::Sender resolves the receiver with RecvError when dropped (library contract, listed trust)', 'result-slot|tokio|oneshot')
    hio = find_one(F, 'client::MqttClientImpl::handle_incoming_operation')
    if hio is not None:
        rc = hio.calls('ProtocolState::reset')
        ctx.ob(len(rc) == 1 and guarded_any(hio, rc[0].bb, [r'^operation is Shutdown$']), 'Shutdown resets the engine, failing every tracked operation (R-C01-7)', 'shutdown-reset', loc=hio.loc())

    # ------------------------------------------------------------ R-C13-5
    ctx.rule('R-C13-5', 'ownership fact', 'the operation receiver is a field of the runtime state that is moved into the loop thread/task, so it is dropped when the loop exits')
    for drv, adt_p, spawn_p in (('threaded', 'client::synchronous::threaded::ClientRuntimeState', 'client::synchronous::threaded::spawn_client_impl'),
                                ('tokio', 'client::asynchronous::tokio::ClientRuntimeState', 'client::asynchronous::tokio::spawn_client_impl')):
        a = F.adts.get(adt_p)
        if a is None:
            continue
        f = {x['name']: x['ty'] for x in a['variants'][0]['fields']}
        ctx.ob('Receiver<client::OperationOptions>' in f.get('operation_receiver', ''), '%s runtime state owns the operation receiver (%s)' % (drv, f.get('operation_receiver')), 'own|%s|field' % drv)
        sp = find_one(F, spawn_p)
        cl = [c for _, c in F.callees_of(sp)] if sp else []
        okm = False
        for c in cl:
            caps = c.f.get('captures') or []
            if any('runtime_state' in x and not x.startswith('&') and not x.startswith('*') for x in caps):
                okm = True
            for cc_ in [c2 for _, c2 in F.callees_of(c)]:
                caps = cc_.f.get('captures') or []
                if any('runtime_state' in x for x in caps):
                    okm = True
        ctx.ob(okm, '%s: the runtime state is captured (moved) by the spawned loop closure' % drv, 'own|%s|moved' % drv, loc=sp.loc() if sp else None)

    # ------------------------------------------------------------ R-C08-3 (hosted here: it is a driver rule)
    ctx.rule('R-C13-6', 'T2 (C08-D3)', 'drivers ask the engine for its next service time in every loop iteration and call handle_service only on the strength of that answer')
    for nm, v, _, wfn, rfn, ffn in drivers:
        gs = v.calls('MqttClientImpl::get_next_connected_service_time')
        hs = v.calls('MqttClientImpl::handle_service')
        ctx.ob(len(gs) >= 1 and all(guarded_any(v, c.bb, [r'^next_state is None$']) for c in gs), '%s: the next service time is queried inside the loop' % nm, 'svc|%s|query' % nm, loc=v.loc())
        if nm == 'threaded':
            ok = len(hs) == 1 and guarded_any(v, hs[0].bb, [r'^\(\(MqttClientImpl::get_next_connected_service_time\(client\)\)@Some\.0 <= Instant::now\(\)\)$'])
        else:
            cw = v.calls('tokio::conditional_wait')
            ok = len(hs) == 1 and len(cw) == 1 and 'MqttClientImpl::get_next_connected_service_time(client)' in show(cw[0].arg(0)) and any(re.search(r'is Some$', g) for g in guard_strs(v, hs[0].bb))
        ctx.ob(ok, '%s: handle_service runs only when the reported service time has arrived' % nm, 'svc|%s|gate' % nm, loc=v.loc())

    # ---- added after the mutation sweep: an operation taken off the channel is always handed to the engine
    ctx.rule('R-C13-7', 'T11 decision table', 'every Publish / Subscribe / Unsubscribe taken off the operation channel is handed to the protocol engine exactly once, as the user event of the same kind (so its result handler cannot be dropped silently)')
    hio = find_one(F, 'client::MqttClientImpl::handle_incoming_operation')
    oo = [k for k in F.adts if k.endswith('client::OperationOptions') or k == 'client::OperationOptions']
    if hio is None or not oo:
        ctx.ob(False, 'anchor: MqttClientImpl::handle_incoming_operation / OperationOptions', 'handoff|anchor')
    else:
        from .. import fdeval
        from ..fdeval import V_enum
        ev_ = fdeval.Evaluator(F, lambda c, view: c.endswith('ProtocolState::handle_user_event'))
        for k_ in ('Publish', 'Subscribe', 'Unsubscribe'):
            try:
                paths_ = [p for p in ev_.run(hio, {'operation': V_enum(oo[0], k_, None)}) if not p.diverged]
            except fdeval.Budget:
                paths_ = []
            outs = set()
            for p in paths_:
                outs.add(tuple((e[0].split('::')[-1], tuple(e[1])) for e in p.events))
            ok = bool(outs) and all(len(o) == 1 and o[0][0] == 'handle_user_event' and re.search(r'event=%s\b|%s\(' % (k_, k_), ' '.join(o[0][1])) is not None for o in outs)
            ctx.ob(ok, 'operation %s -> exactly one handle_user_event(%s) on every path (%s)' % (k_, k_, sorted(outs)[:2]), 'handoff|' + k_, loc=hio.loc())
    # ---- added after seed C13-3b: close resolves everything the engine still holds
    if hio is not None:
        rc_ = hio.calls('ProtocolState::reset')
        sh_ = prims.edge_nodes_matching(hio, [r' is Shutdown$'])
        okc = bool(rc_) and bool(sh_)
        for en_ in sh_:
            seen_ = hio.reach([en_], avoid=[c.bb for c in rc_])
            okc = okc and not any(x in seen_ for x in hio.exits())
        ctx.ob(okc, 'close (Shutdown) resets the protocol engine on every path, in every client state, so operations it still holds are resolved with an error instead of waiting forever', 'handoff|close-resets', loc=hio.loc())
    # ---- added after the mutation sweep: once a driver has decided to leave the connected state (error, closed, stop) it touches
    # neither the engine nor the transport again in that loop
    for nm, v, _, wfn, rfn, ffn in drivers:
        if nm != 'threaded':
            continue   # the tokio loop has one select! per iteration followed by a flush tail that is gated by a flag only the write arm raises
        sets_ = [b for b, e in var_inits(v, 'next_state') if show(e).startswith('Option::Some{')]
        cont = prims.edge_nodes_matching(v, [r'^next_state is None$'])
        acts = [c for c in v.calls() if c.nfn.split('::')[-1] in ('handle_service', 'handle_incoming_bytes', 'handle_write_completion', 'get_next_connected_service_time') or c.is_fn(wfn) or c.is_fn(rfn)]
        succ_, _, _ = v.graph()
        bad_ = []
        for b in sets_:
            r_ = v.reach(list(succ_[b]), avoid=cont)
            bad_ += ['%s after next_state := Some at %s' % (short(c.nfn), v.loc(b)) for c in acts if c.bb in r_ and c.bb != b]
        ctx.ob(bool(sets_) and bool(cont) and not bad_, '%s: after deciding to leave the connected loop no engine entry point or transport read/write is reached any more in that iteration %s' % (nm, bad_[:3]), 'svc|%s|leave-means-leave' % nm, loc=v.loc(), rule='R-C13-6')
