"""C02 — outbound packets are spec-conformant and carry what the user supplied."""
import re
from ..mir import show, short, norm, subexprs, const_val, fold, var_inits
from .. import prims
from ..spec import mqtt5, mqtt311
from . import codec
from .codec import MQTT_VARIANT_TO_SPEC, CLIENT_OUTBOUND

EXPLANATION = ('Encoder tables extracted from MIR and compared with the MQTT 5 / 3.1.1 specification tables: packet-type and '
               'property constants, first bytes, the property set and wire type each client-sent packet writes, length '
               'function vs step writer agreement per field, slice getter vs length-prefix field agreement, field coverage '
               'of the user-visible packet structs, bounded/resumable step processing, per-variant dispatch. Added in round 2: the ordered wire layout of the fixed steps of every writer against the specification layout, CONNECT flag / subscription-option / protocol-level bit layouts, property key vs source field agreement, and identity of the packet that is validated, alias-resolved and encoded. Added after the mutation sweeps: short forms of the MQTT 5 acknowledgements, DISCONNECT and AUTH agree between length function and writer on all four combinations of default reason code / empty property section (path-sensitive walk); variable byte integer size thresholds and loop termination; the slice helper re-queues a step only when bytes remain; every packet-builder setter stores its argument in the field of its name.')
ASSUMPTIONS = ['not decided: byte-level equality for arbitrary field values (UTF-8 content, VBI arithmetic over all integers) '
               'and equality of the produced stream across all output-buffer capacity sequences']


def canon(s):
    s = s.upper().replace(' ', '_').replace('-', '_')
    return re.sub(r'S(_|$)', r'\1', s)


def writers(ctx, fname):
    enc = ctx.fn(fname)
    d = codec.dispatch_by_variant(enc, r'^mqtt_packet is (\w+)$')
    return enc, {var: ctx.fn(norm(css[0].fn)) for var, css in d.items()}


def run(ctx):
    F = ctx.F
    # ---------------------------------------------------------------- R-C02-1 constants
    ctx.rule('R-C02-1', 'T4 table agreement', 'packet-type, first-byte, property-key, PUBLISH flag and subscription-option constants equal the specification values')
    n = 0
    for name, val in mqtt5.PACKET_TYPES.items():
        c = F.consts.get('mqtt::utils::PACKET_TYPE_' + name)
        ctx.ob(c is not None and c['val'] == val, 'PACKET_TYPE_%s == %d (spec 2.1.2)' % (name, val), 'const|PACKET_TYPE_' + name)
        n += 1
    fb = {k.split('::')[-1]: v for k, v in F.consts.items() if k.endswith('_FIRST_BYTE')}
    for cname, c in fb.items():
        pk = cname[:-len('_FIRST_BYTE')]
        ctx.ob(pk in mqtt5.PACKET_TYPES and c['val'] == mqtt5.first_byte(pk), '%s == 0x%02X (type<<4 | reserved flags, spec 2.1.3)' % (cname, mqtt5.first_byte(pk) if pk in mqtt5.PACKET_TYPES else -1), 'const|' + cname)
        n += 1
    ctx.floor(len(fb), 9, '*_FIRST_BYTE constants')
    spec_by_name = {canon(nm): k for k, (nm, _, _) in mqtt5.PROPERTIES.items()}
    pk = {k.split('::')[-1]: v for k, v in F.consts.items() if '::PROPERTY_KEY_' in k}
    for cname, c in pk.items():
        want = spec_by_name.get(canon(cname[len('PROPERTY_KEY_'):]))
        ctx.ob(want is not None and c['val'] == want, '%s == %s (spec table 2-4)' % (cname, want), 'const|' + cname)
    ctx.floor(len(pk), 27, 'PROPERTY_KEY_* constants')
    for cname, want in (('PUBLISH_PACKET_FIXED_HEADER_DUPLICATE_FLAG', mqtt5.PUBLISH_DUP_BIT), ('PUBLISH_PACKET_FIXED_HEADER_RETAIN_FLAG', mqtt5.PUBLISH_RETAIN_BIT),
                        ('QOS_MASK', mqtt5.PUBLISH_QOS_MASK), ('SUBSCRIPTION_OPTIONS_NO_LOCAL_MASK', mqtt5.SUB_OPT_NO_LOCAL),
                        ('SUBSCRIPTION_OPTIONS_RETAIN_AS_PUBLISHED_MASK', mqtt5.SUB_OPT_RETAIN_AS_PUBLISHED),
                        ('SUBSCRIPTION_OPTIONS_RETAIN_HANDLING_SHIFT', mqtt5.SUB_OPT_RETAIN_HANDLING_SHIFT)):
        c = F.consts.get('mqtt::utils::' + cname)
        ctx.ob(c is not None and c['val'] == want, '%s == %d' % (cname, want), 'const|' + cname)

    # first pushed byte of every client-sent packet writer
    ctx.rule('R-C02-1b', 'T4 table agreement', 'the first encoding step of every client-sent packet writer (both versions) is the specification first byte')
    enc5, w5 = writers(ctx, 'encode::write_encoding_steps5')
    enc3, w3 = writers(ctx, 'encode::write_encoding_steps311')
    nfb = 0
    for ver, ws in (('5', w5), ('311', w3)):
        for var in CLIENT_OUTBOUND:
            if var in ('Publish',) or (ver == '311' and var == 'Auth'):
                continue
            w = ws.get(var)
            if w is None:
                ctx.ob(False, 'encoder dispatch (%s) has a writer for %s' % (ver, var), 'writer|%s|%s' % (ver, var))
                continue
            ps = codec.pushes(w)
            if not ps:
                ctx.ob(False, '%s writer (%s) pushes steps' % (var, ver), 'pushes|%s|%s' % (ver, var), loc=w.loc())
                continue
            first = min(ps, key=lambda p: p.bb)
            v = fold(first.val) if first.val is not None else None
            want = mqtt5.first_byte(MQTT_VARIANT_TO_SPEC[var])
            ctx.ob(first.variant == 'Uint8' and v == want, '%s writer (MQTT %s) starts with byte 0x%02X (found %s)' % (var, ver, want, show(first.val)),
                   'firstbyte|%s|%s' % (ver, var), loc=first.cs.loc())
            nfb += 1
    ctx.floor(nfb, 18, 'first-byte checks')
    # PUBLISH first byte: (type << 4) | dup<<3 | qos<<1 | retain
    for ver, ws in (('5', w5), ('311', w3)):
        w = ws['Publish']
        fbf = [c for c in w.calls() if 'first_byte' in c.nfn]
        ctx.ob(len(fbf) == 1, 'PUBLISH writer (%s) computes its first byte via a helper' % ver, 'publish-firstbyte-helper|' + ver, loc=w.loc())
    pf = ctx.fn('publish::compute_publish_fixed_header_first_byte')
    txt = ' ## '.join(show(e) for _, e in prims.ret_variants(pf)) + ' ## ' + ' ## '.join(show(pf.rvalue_expr(s['rv'], i)) for (i, j, s) in pf.stmts() if s['k'] == 'assign')
    ctx.ob('PACKET_TYPE_PUBLISH Shl 4' in txt or 'PACKET_TYPE_PUBLISH) Shl 4' in txt, 'PUBLISH first byte carries PACKET_TYPE_PUBLISH << 4', 'publish-fb|type', loc=pf.loc())
    ctx.ob(re.search(r'discr\(packet\.qos\)[^#]*Shl 1', txt) is not None, 'PUBLISH first byte carries qos << 1', 'publish-fb|qos', loc=pf.loc())
    ors = {}
    for (i, j, st) in pf.stmts():
        if st['k'] == 'assign':
            e = pf.rvalue_expr(st['rv'], i)
            if e[0] == 'bin' and e[1] == 'BitOr' and fold(e[3]) is not None:
                for g in prims.guard_strs(pf, i):
                    ors[g] = fold(e[3])
    ctx.ob(ors.get('packet.duplicate') == mqtt5.PUBLISH_DUP_BIT, 'PUBLISH first byte sets bit 3 (DUP) exactly when packet.duplicate (found %s)' % ors.get('packet.duplicate'), 'publish-fb|dup', loc=pf.loc())
    ctx.ob(ors.get('packet.retain') == mqtt5.PUBLISH_RETAIN_BIT, 'PUBLISH first byte sets bit 0 (RETAIN) exactly when packet.retain (found %s)' % ors.get('packet.retain'), 'publish-fb|retain', loc=pf.loc())

    # ---------------------------------------------------------------- R-C02-2 property set and type
    ctx.rule('R-C02-2', 'T4 table agreement', 'every property a client-sent MQTT 5 packet writer pushes is legal for that packet and is followed by the steps of its specification data type')
    nprops = 0
    writer_props = {}
    for var in CLIENT_OUTBOUND:
        w = w5.get(var)
        if w is None:
            continue
        ps = codec.pushes(w)
        legal = mqtt5.properties_of(MQTT_VARIANT_TO_SPEC[var])
        if var == 'Connect':
            legal = legal | mqtt5.properties_of('WILL')
        for p in ps:
            k = p.key_const()
            if not k:
                continue
            nprops += 1
            kname, kval = k
            nx = [x.variant for x in codec.next_pushes(w, p, ps)]
            spec = mqtt5.PROPERTIES.get(kval)
            ctx.ob(spec is not None and kval in legal, '%s writer pushes property %s (%s): legal for %s' % (var, kval, kname, MQTT_VARIANT_TO_SPEC[var]),
                   'prop-legal|%s|%s' % (var, kname), loc=p.cs.loc())
            if spec is None:
                continue
            shapes = codec.STEP_SHAPES[spec[1]]
            ok = any(nx[:len(sh)] == sh for sh in shapes)
            ctx.ob(ok, '%s property %d (%s) is written as %s — spec type %s' % (var, kval, spec[0], '+'.join(nx[:max(len(s) for s in shapes)]) or '?', spec[1]),
                   'prop-type|%s|%s' % (var, kname), loc=p.cs.loc())
            fld = None
            best = -1
            for g in p.guards:
                mm = re.match(r'^(\w+(?:[.@]\w+)*) is Some$', g)
                if mm and '.' in mm.group(1) and len(mm.group(1)) > best:
                    best = len(mm.group(1))
                    fld = codec.field_path(mm.group(1))
            writer_props.setdefault(var, []).append((kval, kname, fld, tuple(nx[:2]) if spec[1] in (mqtt5.UTF8, mqtt5.BIN) else tuple(nx[:1]), p))
            # listed exception: the outbound Topic Alias is the resolver's decision, not a packet field (C17 decides that value)
            okf = (var, kname, fld) == ('Publish', 'PROPERTY_KEY_TOPIC_ALIAS', 'outbound_alias_resolution.alias')
            ctx.ob(okf or (fld is not None and codec.name_agrees(fld, spec[0])), '%s property %d (%s) is written from the field of that meaning (`%s`)' % (var, kval, spec[0], fld), 'prop-field|%s|%s' % (var, kname), loc=p.cs.loc())
    ctx.floor(nprops, 40, 'property pushes in client-sent packet writers')

    # ---------------------------------------------------------------- R-C02-3 length vs steps
    ctx.rule('R-C02-3', 'T10 sibling agreement', 'for every optional property the length function adds exactly the number of bytes its step sequence writes (key + wire width)')
    nl = 0
    for var, plist in writer_props.items():
        w = w5[var]
        lfc = [c for c in w.calls() if c.term.get('local') and 'length' in c.nfn.split('::')[-1]]
        if not lfc:
            ctx.ob(False, '%s writer calls a length function' % var, 'lenfn|' + var, loc=w.loc())
            continue
        lf = ctx.fn(norm(lfc[0].fn))
        contrib = codec.length_contribs(lf)
        for kval, kname, fld, shape, p in plist:
            if kval == 38 or fld is None:
                continue
            want = codec.SHAPE_LEN.get(shape)
            fkey = fld if fld in contrib else fld.split('.')[-1]
            got = [c for c in contrib.get(fkey, []) if c in ('2', '3', '5', '3+len', '1+vli')]
            if fkey == 'will' or (fld.startswith('will.') and fkey not in contrib):
                # will sub-fields are accumulated under the enclosing `will is Some` guard
                got = [want] if want in contrib.get('will', []) else []
            if var == 'Publish' and kval == 35:
                fkey = 'alias'
                got = [c for c in contrib.get('outbound_alias_resolution.alias', contrib.get('alias', [])) if c in ('2', '3', '5')]
            nl += 1
            ctx.ob(want is not None and want in got, '%s.%s: steps %s write %s bytes, length function adds %s' % (var, fld, '+'.join(shape), want, got or 'nothing'),
                   'len-agree|%s|%s' % (var, kname), loc=p.cs.loc())
    ctx.floor(nl, 20, 'property length/step comparisons')
    # user properties: 5 + name + value per property in both
    up = ctx.fn('encode::compute_user_properties_length')
    txt = ' ## '.join(show(up.rvalue_expr(s['rv'], i)) for (i, j, s) in up.stmts() if s['k'] == 'assign')
    ctx.ob('MulWithOverflow 5' in txt and '.name)' in txt and '.value)' in txt, 'user property length = 5 per property + name + value lengths', 'len-agree|userprops', loc=up.loc())

    # ---------------------------------------------------------------- R-C02-4 getter agreement
    ctx.rule('R-C02-4', 'T9 value flow', 'the accessor passed to a slice step returns the very field whose length was pushed as its 16-bit prefix')
    ng = 0
    for ver, ws in (('5', w5), ('311', w3)):
        for var in CLIENT_OUTBOUND:
            w = ws.get(var)
            if w is None:
                continue
            ps = codec.pushes(w)
            for p in ps:
                if p.variant != 'Uint16' or p.val is None:
                    continue
                lm = re.match(r'^(?:String|Vec|str|slice)::len\((.*)\) as u16$', show(p.val))
                if not lm:
                    continue
                nx = codec.next_pushes(w, p, ps, n=1)
                if not nx or nx[0].variant not in ('StringSlice', 'BytesSlice', 'IndexedString', 'UserPropertyName', 'UserPropertyValue'):
                    continue
                src = lm.group(1)
                mi = re.match(r"^\(Iterator::next\(([\w']+)\)\)@Some\.0(?:\.1)?$", src)
                if mi:
                    inits = var_inits(w, mi.group(1))
                    if inits:
                        src = show(inits[0][1]).rstrip(')')
                lenfield = [x for x in re.split(r'[.@]', src) if x not in ('Some', '0', '1')][-1]
                g = dict(nx[0].cs.arg(1)[3]).get('0')
                gname = None
                for x in subexprs(g):
                    if x[0] == 'fnref':
                        gname = x[1]
                if gname is None:
                    ctx.ob(False, 'slice step after len(%s) names an accessor' % lenfield, 'getter|%s|%s|%s' % (ver, var, lenfield), loc=p.cs.loc())
                    continue
                gv = ctx.fn(gname)
                rets = [show(e) for _, e in prims.ret_variants(gv)]
                if nx[0].variant in ('UserPropertyName', 'UserPropertyValue'):
                    ok = any('user_properties' in r for r in rets) and lenfield == ('name' if nx[0].variant == 'UserPropertyName' else 'value')
                    if lm.group(1).count('will'):
                        ok = ok and any('will' in r for r in rets)
                else:
                    ok = any(re.search(r'[.@]%s\b' % re.escape(lenfield), r) for r in rets)
                    ok = ok and all(('@' + var) in r for r in rets if 'packet@' in r)
                    if 'will' in lm.group(1):
                        ok = ok and any('will' in r for r in rets)
                ng += 1
                ctx.ob(ok, '%s (MQTT %s): prefix len(%s) is followed by %s(%s) returning %s' % (var, ver, lm.group(1), nx[0].variant, short(gname), rets[:1]),
                       'getter|%s|%s|%s' % (ver, var, lm.group(1)), loc=p.cs.loc())
    ctx.floor(ng, 40, 'length-prefix/getter pairs')

    # ---------------------------------------------------------------- R-C02-5 field coverage
    ctx.rule('R-C02-5', 'T5 field coverage', 'every user-visible field of the client-sent packet structs is read by the MQTT 5 writer (or its length function)')
    EXC = {('PublishPacket', 'topic_alias'): 'written through the alias resolution (C17)',
           ('PublishPacket', 'subscription_identifiers'): 'written if present; client publishes carrying it are rejected by validation (C16)'}
    for var, sname in (('Publish', 'PublishPacket'), ('Subscribe', 'SubscribePacket'), ('Unsubscribe', 'UnsubscribePacket'),
                       ('Disconnect', 'DisconnectPacket'), ('Connect', 'ConnectPacket'), ('Puback', 'PubackPacket'), ('Pubrec', 'PubrecPacket'),
                       ('Pubrel', 'PubrelPacket'), ('Pubcomp', 'PubcompPacket')):
        adt = F.adt('mqtt::' + sname)
        w = w5[var]
        used = fields_read(ctx, w, depth=2)
        for f in adt['variants'][0]['fields']:
            if (sname, f['name']) in EXC and f['name'] in used:
                pass
            ok = f['name'] in used or (sname, f['name']) in EXC
            ctx.ob(ok, '%s.%s is read by the MQTT 5 writer' % (sname, f['name']), 'field|%s|%s' % (sname, f['name']), loc=w.loc())
    for sname, fn_ in (('Subscription', 'subscribe::write_subscribe_encoding_steps5'),):
        adt = F.adt('mqtt::' + sname)
        used = fields_read(ctx, ctx.fn(fn_), depth=2, root=None)
        for f in adt['variants'][0]['fields']:
            ctx.ob(f['name'] in used, '%s.%s is read by the SUBSCRIBE writer' % (sname, f['name']), 'field|%s|%s' % (sname, f['name']))
    # 3.1.1 writers: exactly the expressible fields
    EXP311 = {'Publish': {'packet_id', 'topic', 'qos', 'duplicate', 'retain', 'payload'}, 'Subscribe': {'packet_id', 'subscriptions'},
              'Unsubscribe': {'packet_id', 'topic_filters'}, 'Puback': {'packet_id'}, 'Pubrec': {'packet_id'}, 'Pubrel': {'packet_id'}, 'Pubcomp': {'packet_id'}}
    for var, want in EXP311.items():
        used = fields_read(ctx, w3[var], depth=2)
        for f in sorted(want):
            ctx.ob(f in used, 'MQTT 3.1.1 %s writer reads %s' % (var, f), 'field311|%s|%s' % (var, f), loc=w3[var].loc())

    # ---------------------------------------------------------------- R-C02-6 bounded, resumable writes
    ctx.rule('R-C02-6', 'T2 + T9', 'a processed step appends at most 4 bytes or min(free capacity, remaining) slice bytes; a partial slice is re-queued at the front with the advanced offset; a step is only processed when 4 bytes are free')
    pes = ctx.fn('encode::process_encoding_step')
    arms = {}
    for cs in pes.calls():
        for g in prims.guard_strs(pes, cs.bb):
            m = re.match(r'^step is (\w+)$', g)
            if m:
                arms.setdefault(m.group(1), []).append(cs)
    estep = F.adt('encode::EncodingStep')
    for v in estep['variants']:
        name = v['name']
        calls = arms.get(name, [])
        names = [short(c.fn) for c in calls]
        if name in ('Uint8',):
            ok = names.count('Vec::push') == 1 and not any('extend' in n_ for n_ in names)
        elif name in ('Uint16', 'Uint32'):
            ok = any(n_.endswith('to_be_bytes') for n_ in names) and names.count('Vec::extend_from_slice') == 1
        elif name == 'Vli':
            ok = 'encode::encode_vli' in names and not any(n_.startswith('Vec::') for n_ in names)
        else:
            pb = [c for c in calls if c.is_fn('encode::process_byte_slice_encoding')]
            pf_ = [c for c in calls if c.is_fn('VecDeque::push_front')]
            ok = len(pb) == 1 and len(pf_) == 1
            if ok:
                re_q = pf_[0].arg(1)
                ok = re_q[0] == 'agg' and re_q[2] == name and show(dict(re_q[3])[str(len(re_q[3]) - 1)]).startswith('encode::process_byte_slice_encoding(') \
                    and prims.guarded_any(pes, pf_[0].bb, [r'^\(0 < encode::process_byte_slice_encoding\('])
                ok = ok and show(pb[0].arg(1)) == 'step@%s.%d' % (name, len(re_q[3]) - 1)
        ctx.ob(ok, 'EncodingStep::%s is processed with a bounded, resumable write (%s)' % (name, ', '.join(names)[:90]), 'step|' + name, loc=pes.loc())
    ctx.floor(len(estep['variants']), 9, 'EncodingStep variants')
    bs = ctx.fn('encode::process_byte_slice_encoding')
    ext = bs.calls('Vec::extend_from_slice')
    okb = len(ext) == 1 and re.search(r'Range\{start: offset, end: \(\(offset AddWithOverflow Ord::min\(\(\(Vec::capacity\(.*\) SubWithOverflow Vec::len\(.*\)\)\)\.0, \(\(slice::len\(.*\) SubWithOverflow offset\)\)\.0\)\)\)\.0\}', show(ext[0].arg(1))) is not None
    ctx.ob(okb, 'slice helper appends bytes[offset .. offset + min(capacity - len, len(bytes) - offset)]', 'slice-helper|range', loc=bs.loc())
    rets = [show(e) for _, e in prims.ret_variants(bs)]
    ctx.ob(any(r == '0' for r in rets) and any('offset AddWithOverflow Ord::min' in r for r in rets), 'slice helper returns the advanced offset when bytes remain and 0 when done', 'slice-helper|ret', loc=bs.loc())
    REM_ = r'\(\(slice::len\(\w+\) SubWithOverflow offset\)\)\.0'
    gr_ = {('adv' if 'offset AddWithOverflow' in show(e_) else show(e_)): prims.guard_strs_plain(bs, b_) for b_, e_ in prims.ret_variants(bs)}
    okg = len(gr_.get('adv', [])) == 1 and re.match(r'^\(Ord::min\(.*\) < ' + REM_ + r'\)$', gr_['adv'][0]) is not None and \
        len(gr_.get('0', [])) == 1 and re.match(r'^(\(' + REM_ + r' <= Ord::min\(.*\)\)|!\(Ord::min\(.*\) < ' + REM_ + r'\))$', gr_['0'][0]) is not None
    ctx.ob(okg, 'slice helper: "bytes remain" means strictly fewer bytes were appended than were left (a step that exactly finished is not re-queued)', 'slice-helper|ret-cond', loc=bs.loc())
    en = ctx.fn('Encoder::encode')
    for cs in en.calls('encode::process_encoding_step'):
        prims.requires(ctx, en, cs.bb, [r'^\(\(\(Vec::len\(dest\) AddWithOverflow 4\)\)\.0 <= Vec::capacity\(dest\)\)$', r'^!VecDeque::is_empty\(self\.steps\)$'], 'encode-loop', 'processing a step', loc=cs.loc())
        ctx.ob(show(cs.arg(1)) in ('Option::unwrap(VecDeque::pop_front(self.steps))', '(VecDeque::pop_front(self.steps))@Some.0'), 'steps are consumed from the front of the queue', 'encode-loop|front', loc=cs.loc())

    # ---------------------------------------------------------------- R-C02-7 dispatch
    ctx.rule('R-C02-7', 'T4 dispatch table', 'both encoder dispatchers route every MqttPacket variant to the writer of that packet; Encoder::reset picks the dispatcher by protocol version')
    allv = [v['name'] for v in F.adt('mqtt::MqttPacket')['variants']]
    for ver, ws in (('5', w5), ('311', w3)):
        for var in allv:
            w = ws.get(var)
            ok = w is not None and ('write_%s_encoding_steps' % var.lower()) in w.path and (w.path.endswith(ver) or var in ('Pingreq', 'Pingresp'))
            ctx.ob(ok, 'encoder dispatch (MQTT %s): %s -> %s' % (ver, var, short(w.path) if w else None), 'dispatch|%s|%s' % (ver, var))
    rs = ctx.fn('Encoder::reset')
    for cs in rs.calls():
        if 'write_encoding_steps' in cs.nfn:
            ver = '5' if cs.nfn.endswith('5') else '311'
            ctx.ob(prims.guarded_any(rs, cs.bb, [r'protocol_version is Mqtt%s$' % ver]), 'Encoder::reset uses the MQTT %s dispatcher only for that protocol version' % ver, 'reset-dispatch|' + ver, loc=cs.loc())
    clr = rs.calls('VecDeque::clear')
    ctx.ob(len(clr) == 1 and show(clr[0].arg(0)) == 'self.steps', 'Encoder::reset clears pending steps first', 'reset-clear', loc=rs.loc())

    # ---------------------------------------------------------------- R-C02-8/9 length arithmetic
    from . import c02_len
    c02_len.run(ctx, w5, w3)
    c02_len.run_short_forms(ctx, w5)
    from . import c02_layout
    c02_layout.run(ctx, w5, w3)
    # (added after seeds C02-3a / C02-3b) facts C02 shares with C07 and C16
    from . import shared
    n1 = shared.import_obligations(ctx, 'C07', lambda o: o['rule'] == 'R-C07-7', 'R-C02-5', 'the CONNECT packet is built from the connect options field by field')
    ctx.floor(n1, 20, 'CONNECT-from-options obligations shared with C07', rule='R-C02-5')
    n2 = shared.import_obligations(ctx, 'C16', lambda o: o['rule'] == 'R-C16-2', 'R-C02-4', 'a 16-bit length prefix is only well-formed if the field was length-validated before encoding')
    ctx.floor(n2, 20, 'length-validation obligations shared with C16', rule='R-C02-4')

    # ---- variable byte integer arithmetic (specification 1.5.5): constants and their roles
    def _binops(v):
        out = []
        for (i, j, s_) in v.stmts():
            if s_['k'] == 'assign' and s_['rv'].get('k') == 'bin' and not prims.is_log_mac(s_.get('mac', '')):
                rv_ = s_['rv']
                cb = rv_['b'].get('val') if rv_['b'].get('k') == 'const' else None
                out.append((rv_['op'], cb, show(v.rvalue_expr(rv_, i)), i))
        return out

    evv = ctx.fn('encode::encode_vli')
    bo = _binops(evv)
    ctx.ob(sorted((op, c) for op, c, txt, i in bo if op in ('BitAnd', 'Rem', 'Div', 'BitOr')) in ([('BitAnd', 127), ('BitOr', 128), ('Div', 128)], [('BitOr', 128), ('Div', 128), ('Rem', 128)]),
           'encode_vli emits value mod 128, divides by 128 and sets bit 7 on all but the last byte (%s)' % sorted((op, c) for op, c, txt, i in bo if op in ('BitAnd', 'Rem', 'Div', 'BitOr')), 'vbi|encode|constants', loc=evv.loc(), rule='R-C02-1')
    orr = [i for op, c, txt, i in bo if op == 'BitOr']
    ctx.ob(len(orr) == 1 and prims.guarded_any(evv, orr[0], [r'^!\(val == 0\)$']), 'encode_vli sets the continuation bit exactly when more bytes follow', 'vbi|encode|continuation', loc=evv.loc(), rule='R-C02-1')
    rmax = prims.rets_after(evv, [r'^\(MAXIMUM_VARIABLE_LENGTH_INTEGER as u32 < value\)$'])
    ctx.ob(rmax == {'Err'}, 'encode_vli refuses values above 268435455 (%s)' % sorted(rmax or ['test not found']), 'vbi|encode|max', loc=evv.loc(), rule='R-C02-1')

    # ---- added after the mutation sweep: size thresholds and loop termination
    cvs = ctx.fn('encode::compute_variable_length_integer_encode_size')
    rows_ = {show(e_): prims.guard_strs_plain(cvs, b_) for b_, e_ in prims.ret_variants(cvs) if e_[0] == 'agg' and e_[2] == 'Ok'}
    def _thr(g):
        m_ = re.match(r'^\(value < (?:\(1 Shl (\d+)\)|(\d+))\)$', g)
        return None if not m_ else (1 << int(m_.group(1))) if m_.group(1) else int(m_.group(2))
    got_ = {k: _thr(g[-1]) if g else None for k, g in rows_.items()}
    ctx.ob(got_ == {'Result::Ok{0: 1}': 128, 'Result::Ok{0: 2}': 16384, 'Result::Ok{0: 3}': 2097152, 'Result::Ok{0: 4}': 268435456},
           'a variable byte integer needs k bytes exactly for values below 128^k (1.5.5): %s' % got_, 'vbi|size|thresholds', loc=cvs.loc(), rule='R-C02-1')
    dn = [(b_, show(e_)) for b_, e_ in var_inits(evv, 'done')]
    okr = [b_ for b_, e_ in prims.ret_variants(evv) if e_[0] == 'agg' and e_[2] == 'Ok']
    pu_ = [c_ for c_ in evv.calls('Vec::push', 'push') if show(c_.arg(0)) == 'dest']
    ok_ = sorted(x for b_, x in dn) == ['(val Eq 0)', 'False'] and len(okr) == 1 and 'done' in prims.guard_strs_plain(evv, okr[0]) and len(pu_) == 1 and \
        not any(g in ('done', '!done') for g in prims.guard_strs_plain(evv, pu_[0].bb)[:0]) and any(b_ in evv.reach(list(evv.graph()[0][pu_[0].bb])) for b_, x in dn if x == '(val Eq 0)')
    ctx.ob(ok_, 'encode_vli emits at least one byte and stops exactly when the remaining value is 0 (loop flag: %s)' % [x for b_, x in dn], 'vbi|encode|termination', loc=evv.loc(), rule='R-C02-1')
    ee = ctx.fn('Encoder::encode')
    rc_ = prims.rets_after(ee, [r'^VecDeque::is_empty\(self\.steps\)$'])
    rf_ = prims.rets_after(ee, [r'^!VecDeque::is_empty\(self\.steps\)$'])
    rvs_ = [show(e) for b, e in prims.ret_variants(ee)]
    ok = any('EncodeResult::Complete' in x for x in rvs_) and any('EncodeResult::Full' in x for x in rvs_)
    comp_b = [b for b, e in prims.ret_variants(ee) if 'EncodeResult::Complete' in show(e)] or [i for (i, j, s_) in ee.stmts() if s_['k'] == 'assign' and 'EncodeResult::Complete' in show(ee.rvalue_expr(s_['rv'], i))]
    full_b = [b for b, e in prims.ret_variants(ee) if 'EncodeResult::Full' in show(e)] or [i for (i, j, s_) in ee.stmts() if s_['k'] == 'assign' and 'EncodeResult::Full' in show(ee.rvalue_expr(s_['rv'], i))]
    ok = bool(comp_b) and bool(full_b) and all(prims.guarded_any(ee, b, [r'^VecDeque::is_empty\(self\.steps\)$']) for b in comp_b) and all(prims.guarded_any(ee, b, [r'^!VecDeque::is_empty\(self\.steps\)$']) for b in full_b)
    ctx.ob(ok, 'Encoder::encode reports Complete exactly when no step is left and Full otherwise', 'encode-result', loc=ee.loc(), rule='R-C02-6')


    # ---------------------------------------------------------------- R-C02-12 (added after seed C02-2)
    ctx.rule('R-C02-12', 'T9 value flow', 'what is encoded is what was prepared: the packet given to the encoder is the one that was validated and the one whose topic-alias resolution the encoder receives (the PUBREL of an operation in its PUBREL phase, else the operation\'s packet)')
    sq = ctx.fn('ProtocolState::service_queue_aux')
    er = sq.calls('Encoder::reset')
    rc = sq.calls('ProtocolState::compute_outbound_alias_resolution')
    va = sq.calls('validate::validate_packet_outbound_internal')
    ok = len(er) == 1 and len(rc) == 1 and len(va) == 1
    ctx.ob(ok, 'one encoder-setup, one alias-resolution and one last-chance validation site in the service loop', 'prepared|sites', loc=sq.loc())
    if ok:
        pk = show(er[0].arg(1))
        same_value = lambda c_: True
        if re.match(r'^\w+$', pk):
            # a re-assignable local: the same *definitions* must reach all three uses (the value may be switched to the PUBREL in between)
            rd_e = prims.reaching_defs(sq, pk, er[0].bb)
            same_value = lambda c_: prims.reaching_defs(sq, pk, c_.bb) == rd_e
        ctx.ob(show(rc[0].arg(1)) == pk and same_value(rc[0]), 'the alias resolution is computed for the packet that is encoded (`%s` vs `%s`, same reaching definitions)' % (show(rc[0].arg(1)), pk), 'prepared|alias-input', loc=rc[0].loc())
        ctx.ob(show(va[0].arg(0)) == pk and same_value(va[0]), 'the validated packet is the packet that is encoded (`%s` vs `%s`, same reaching definitions)' % (show(va[0].arg(0)), pk), 'prepared|validated', loc=va[0].loc())
        inits = [(b, show(e)) for b, e in var_inits(sq, pk)] if re.match(r'^\w+$', pk) else []
        OPX = r'^\(?(?:Option::unwrap\(HashMap::get\(self\.operations, (?P<k>.+)\)\)|\(HashMap::get\(self\.operations, (?P<k2>.+)\)\)@Some\.0)\)?'
        plain = [re.match(OPX + r'\.packet\)?$', x) for b, x in inits]
        plain = [m_ for m_ in plain if m_]
        rel = [(b, re.match(OPX + r'\.qos2_pubrel@Some\.0\)?$', x)) for b, x in inits]
        rel = [(b, m_) for b, m_ in rel if m_]
        samekey = len(plain) == 1 and len(rel) == 1 and (plain[0].group('k') or plain[0].group('k2')) == (rel[0][1].group('k') or rel[0][1].group('k2'))
        ctx.ob(len(inits) == 2 and samekey and prims.guarded_any(sq, rel[0][0], [r'\.qos2_pubrel is Some$']),
               'that packet is the operation\'s own packet, replaced by its PUBREL exactly when the PUBREL slot is set (%s)' % [x[:70] for b, x in inits], 'prepared|packet-choice', loc=sq.loc())
    # ---- added after the mutation sweep: the configured values this property starts from reach the options (builder setters)
    from . import shared as _sh
    _ns = _sh.builder_setters(ctx, lambda b, m: b.endswith('PacketBuilder') or b == 'SubscriptionBuilder' or (b == 'MqttClientOptionsBuilder' and m == 'with_protocol_mode'), 'R-C02-5', 'the packet content the application supplied is what the packet structs hold; the protocol version is the configured one')
    if ctx.config == 'all':
        ctx.floor(_ns, 21, 'builder setters this property depends on')


def fields_read(ctx, view, depth=1, root='packet', _seen=None):
    """Field names of `<root>.<field>` (or any var when root is None) mentioned in a body and
    its local callees/closures up to `depth`."""
    F = ctx.F
    _seen = _seen if _seen is not None else set()
    if view.key in _seen:
        return set()
    _seen.add(view.key)
    ctx.touch(view)
    out = set()

    def scan(e):
        for x in subexprs(e):
            if x[0] == 'var' and (root is None or x[1] == root or x[1] in ('subscribe', 'publish', 'connect', 'subscription', 'will', 'a', 'ack')):
                for pj in x[2]:
                    if pj.startswith('.'):
                        out.add(pj[1:])
            elif x[0] == 'proj':
                for pj in x[2]:
                    if pj.startswith('.'):
                        out.add(pj[1:])
    for (i, j, s) in view.stmts():
        if s['k'] == 'assign':
            scan(view.rvalue_expr(s['rv'], i))
    for cs in view.calls(skip_log=True):
        for i in range(len(cs.args)):
            scan(cs.arg(i))
    for i in view.live_blocks():
        t = view.blocks[i]['term']
        if t['k'] == 'switch':
            scan(view.operand_expr(t['op'], i))
    if depth > 0:
        for cs, cv in F.callees_of(view):
            if cv.file.endswith('logging.rs'):
                continue
            out |= fields_read(ctx, cv, depth - 1, root=None if cs is None else root, _seen=_seen)
    return out

