"""C01 — every accepted operation resolves exactly once, with its own acknowledgement."""
import re
from ..mir import show, short, norm, subexprs, call_is
from .. import prims
from ..prims import requires, guard_strs, must_pass

EXPLANATION = ('Structural necessary conditions of exactly-once resolution: one-shot handler type and its only readers; '
               'the only writers of the operation table; removal implies delivery on every CFG path; per-handler '
               'acknowledgement routing guards; post-write placement; conservation of drained containers at connection '
               'close; reset fails every operation before clearing and clears every tracking field. Added in round 2: no engine function reads a local container after draining it; nothing is inserted at close into the high-priority queue, whose retained half is discarded by the same handler (defect 6b).')
ASSUMPTIONS = ['not decided: exactly-once over all interleavings of events (acks racing timeouts, mid-encode disconnects); '
               'the rules are necessary conditions on every path/site, not a proof of the history property']

P = 'src/protocol.rs'
PS = 'protocol::ProtocolState'


def mentions_field(e, field):
    for x in subexprs(e):
        if x[0] in ('var', 'proj') and ('.' + field) in x[2]:
            return True
    return False


def run(ctx):
    F = ctx.F
    # ------------------------------------------------------------------ R-C01-1
    ctx.rule('R-C01-1', 'T1 who-may-read + type fact',
             'response handlers are Option<Box<dyn FnOnce>>, only ever consumed by Option::take, and every take is '
             'followed by the call of the taken handler on all paths')
    for n in ('PublishOptionsInternal', 'SubscribeOptionsInternal', 'UnsubscribeOptionsInternal'):
        a = F.adt('client::' + n)
        fs = {f['name']: f['ty'] for f in a['variants'][0]['fields']}
        ty = fs.get('response_handler', '')
        ctx.ob(bool(re.match(r'std::option::Option<std::boxed::Box<\(?dyn std::ops::FnOnce\(', ty)),
               '%s.response_handler is a one-shot Option<Box<dyn FnOnce>> (type: %s)' % (n, ty[:60]),
               'type:' + n, loc='%s:%s' % (a['file'], a['ln']))
    takes = []
    deliverers = {}
    for v in F.all_fns():
        if v.f['crate'] != 'gneiss_mqtt':
            continue
        for cs in v.calls():
            for i in range(len(cs.args)):
                e = cs.arg(i)
                if not mentions_field(e, 'response_handler'):
                    continue
                # direct mention (not nested inside an inner call result)
                if e[0] in ('var', 'proj') and ('.response_handler') in e[2]:
                    ok = cs.is_fn('Option::take')
                    ctx.ob(ok, 'response_handler consumed only via Option::take: %s(%s)' % (short(cs.fn), show(e)),
                           'reader|%s|%s' % (short(v.path), short(cs.fn)), loc=cs.loc())
                    if ok:
                        takes.append((v, cs, e))
        for (i, s, pe, rve) in v.field_writes():
            if pe[0] in ('var', 'proj') and '.response_handler' in pe[2] and not s.get('synthetic'):
                ctx.ob(False, 'response_handler written outside construction: %s := %s' % (show(pe), show(rve)),
                       'writer|%s' % short(v.path), loc=v.loc(ln=s['ln']))
    ctx.floor(len(takes), 6, 'Option::take(response_handler) sites')
    for v, cs, e in takes:
        ctx.touch(v)
        inv = [c for c in v.calls('FnOnce::call_once', 'call_once') if c.args and mentions_field(c.arg(0), 'response_handler')
               and show(e) in show(c.arg(0))]
        ok, w = must_pass(v, cs.bb, [c.bb for c in inv])
        ctx.ob(bool(inv) and ok, 'taken handler %s is invoked on every path to a return' % show(e),
               'take-invoke|%s|%s' % (short(v.path), show(e)), loc=cs.loc())
        deliverers[v.key] = v

    # ------------------------------------------------------------------ R-C01-2
    ctx.rule('R-C01-2', 'T1 who-may-write',
             'the operation table changes membership only by insert of a fresh operation keyed by its own id, '
             'remove (completion points, R-C01-3) and clear (reset, R-C01-7)')
    muts = [m for f, m in prims.field_mutations(F, PS, P) if f == 'operations']
    kinds = {}
    for m in muts:
        if m.kind == 'access':
            continue
        kinds.setdefault(m.method, []).append(m)
        ctx.touch(m.view)
        if m.kind == 'escape' or m.method not in ('insert', 'remove', 'clear'):
            ctx.ob(False, 'unexpected writer of the operation table: %s' % m.desc(),
                   'writer|%s|%s' % (short(m.view.path), m.method), loc=m.loc())
    for m in kinds.get('insert', []):
        key = m.cs.arg(1)
        val = m.cs.arg(2)
        ok = val[0] == 'agg' and val[1].endswith('ClientOperation') and dict(val[3]).get('id') == key
        ctx.ob(ok, 'insert stores a freshly built ClientOperation under its own id (key %s)' % show(key),
               'insert|%s' % short(m.view.path), loc=m.loc())
        if ok:
            d = dict(val[3])
            ctx.ob(show(d.get('packet_id')) == 'Option::None{}' and show(d.get('qos2_pubrel')) == 'Option::None{}',
                   'a new operation starts with no packet id and no PUBREL', 'insert-init|%s' % short(m.view.path), loc=m.loc())
    ctx.floor(len(kinds.get('insert', [])), 1, 'operations.insert sites')
    ctx.floor(len(kinds.get('remove', [])), 2, 'operations.remove sites')
    ctx.floor(len(kinds.get('clear', [])), 1, 'operations.clear sites')

    # ------------------------------------------------------------------ R-C01-3
    ctx.rule('R-C01-3', 'T3 must-pass-through',
             'after a successful remove from the operation table every path to a normal return delivers the result '
             '(calls a deliverer) unless the operation did not exist, has no options (internal), or a `?` callee that '
             'errs only for DISCONNECT packets returned Err')
    deliver_names = set(norm(v.path) for v in deliverers.values())
    for m in kinds.get('remove', []):
        v = m.view
        dcalls = [c.bb for c in v.calls() if c.nfn in deliver_names]
        ctx.ob(bool(dcalls), 'completion point %s calls a deliverer' % short(v.path), 'deliver-call|%s' % short(v.path), loc=m.loc())
        removed = show(('call', m.cs.nfn, tuple(m.cs.arg(i) for i in range(len(m.cs.args))), m.cs.bb))
        # accepted bypass edges
        bypass = prims.edge_nodes_matching(v, ['^' + re.escape(removed) + r' is None$',
                                               r'^.*\.options is None$', r'\.options is None$'])
        # `?` on a callee: residual Break edge
        q_edges = []
        for en in prims.edge_nodes_matching(v, [r'^Try::branch\(.*\) is Break$']):
            a = v.edge_atom(en)
            inner = a[1]
            callee = None
            for x in subexprs(inner):
                if x[0] == 'call' and x[1].startswith(PS + '::'):
                    callee = x[1]
            if callee:
                q_edges.append((en, callee))
        for en, callee in q_edges:
            cv = F.fn(callee.split('protocol::')[-1])
            ctx.touch(cv)
            errs = prims.err_blocks(cv)
            ok = bool(errs) and all(prims.guarded_any(cv, b, [r'\.packet is Disconnect$']) for b in errs)
            ctx.ob(ok, '`?` bypass in %s: callee %s returns Err only under `packet is Disconnect`' % (short(v.path), short(callee)),
                   'q-bypass|%s|%s' % (short(v.path), short(callee)), loc=cv.loc())
        ok, w = must_pass(v, m.cs.bb, set(dcalls) | set(bypass) | set(e for e, _ in q_edges))
        ctx.ob(ok, 'every path from operations.remove in %s to a return delivers or takes an accepted bypass' % short(v.path),
               'remove-delivers|%s' % short(v.path), loc=m.loc(),
               detail=None if ok else 'path reaches return block bb%s without delivery' % w)
    # internal operations: DISCONNECT is created with options None
    ctx.rule('R-C01-3c', 'T4 table', 'user events carrying options are Publish/Subscribe/Unsubscribe; the DISCONNECT event creates an operation with no options')
    hue = ctx.fn('ProtocolState::handle_user_event')
    from . import shared
    uet = shared.user_event_table(F, hue)
    ctx.ob(uet is not None and set(uet) == {'Publish', 'Subscribe', 'Unsubscribe', 'Disconnect'}, 'the user-event handler is evaluated for each of the four user events (finite-domain evaluation)', 'userevent|table', loc=hue.loc())
    for var in ('Publish', 'Subscribe', 'Unsubscribe', 'Disconnect'):
        row = (uet or {}).get(var) or {'options': set(), 'outcomes': set()}
        want = {'None'} if var == 'Disconnect' else {'Some(%s(?))' % var}
        ctx.ob(row['options'] == want, 'user event %s -> create_operation(options = %s)' % (var, sorted(row['options'])), 'userevent|%s' % var, loc=hue.loc())
        ctx.ob(bool(row['outcomes']) and all(o.count('create_operation') == 1 for o in row['outcomes']), 'user event %s creates exactly one operation on every path (%s)' % (var, sorted(row['outcomes'])), 'userevent-once|%s' % var, loc=hue.loc())
        ctx.ob(all(('enqueue_operation' in o) != ('complete_operation_as_failure' in o) for o in row['outcomes']), 'user event %s: the new operation is either queued or failed, never both or neither (%s)' % (var, sorted(row['outcomes'])), 'userevent-fate|%s' % var, loc=hue.loc())
    ctx.table('handle_user_event: event variant -> options', sorted((k, sorted(v['options'])) for k, v in (uet or {}).items()))

    # ------------------------------------------------------------------ R-C01-3b
    ctx.rule('R-C01-3b', 'T3 must-pass-through', 'inside the deliverers every Ok exit has invoked the taken handler')
    for v in deliverers.values():
        inv = [c.bb for c in v.calls('FnOnce::call_once', 'call_once')]
        okret = [i for i, e in prims.ret_variants(v) if e[0] == 'agg' and e[2] == 'Ok']
        for b in okret:
            seen = v.reach([0], avoid=inv)
            ctx.ob(b not in seen, 'Ok exit of %s is reached only through a handler invocation' % short(v.path),
                   'ok-after-invoke|%s' % short(v.path), loc=v.loc(b))
    ctx.floor(len(deliverers), 2, 'deliverer functions')

    # ------------------------------------------------------------------ R-C01-4
    ctx.rule('R-C01-4', 'T2 must-dominate + T4', 'each acknowledgement completes only the operation found under its packet id in the right table, '
             'of the right packet kind and QoS phase, with the matching response variant')
    hp = ctx.fn('ProtocolState::handle_packet')
    dispatch = {}
    for cs in hp.calls():
        if cs.nfn.startswith(PS + '::handle_'):
            g = [x for x in guard_strs(hp, cs.bb) if re.search(r'^packet is \w+$', x)]
            if g:
                dispatch[g[0].split(' is ')[1]] = cs.nfn
    spec = {
        'Suback': ('pending_non_publish_operations', [r'\.packet is Subscribe$', r'^\(Vec::len\(.*reason_codes\) == Vec::len\(.*subscriptions\)\)$'],
                   r'^Option::Some\{0: OperationResponse::Subscribe\{0: \w+(@Suback\.0)?\}\}$'),
        'Unsuback': ('pending_non_publish_operations', [r'\.packet is Unsubscribe$',
                     [r'^\(Vec::len\(.*reason_codes\) == .*\)$', r'protocol_version == ProtocolVersion::Mqtt311']],
                     r'^Option::Some\{0: OperationResponse::Unsubscribe\{0: \w+(@Unsuback\.0)?\}\}$'),
        'Puback': ('pending_publish_operations', [r'^ProtocolState::is_operation_publish_of_qos\(self, .*@Some\.0, QualityOfService::AtLeastOnce\{\}\)$'],
                   r'^Option::Some\{0: OperationResponse::Publish\{0: PublishResponse::Qos1\{0: \w+(@Puback\.0)?\}\}\}$'),
        'Pubrec': ('pending_publish_operations', [r'\.packet is Publish$', r'\.qos == QualityOfService::ExactlyOnce\{\}\)$',
                   r'^\(128 <= discr\(.*reason_code\) as u8\)$'],
                   r'^Option::Some\{0: OperationResponse::Publish\{0: PublishResponse::Qos2\{0: Qos2Response::Pubrec\{0: \w+(@Pubrec\.0)?\}\}\}\}$'),
        'Pubcomp': ('pending_publish_operations', [r'\.packet is Publish$', r'\.qos == QualityOfService::ExactlyOnce\{\}\)$',
                    r'^.*\.qos2_pubrel is Some$'],
                    r'^Option::Some\{0: OperationResponse::Publish\{0: PublishResponse::Qos2\{0: Qos2Response::Pubcomp\{0: \w+(@Pubcomp\.0)?\}\}\}\}$'),
    }
    nsites = 0
    for var, (table, reqs, resp) in spec.items():
        hn = dispatch.get(var)
        if not ctx.ob(hn is not None, 'dispatch routes %s to a handler' % var, 'dispatch|' + var, loc=hp.loc()):
            continue
        hv = ctx.fn(hn.split('protocol::')[-1])
        sites = hv.calls('ProtocolState::complete_operation_as_success')
        ctx.ob(len(sites) >= 1, '%s handler has a success completion site' % var, 'has-site|' + var, loc=hv.loc())
        for cs in sites:
            nsites += 1
            ida = show(cs.arg(1))
            lookup = r'HashMap::get\(self\.%s, \w+(@%s\.0)?\.packet_id\)' % (table, var)
            ctx.ob(bool(re.match(r'^\(' + lookup + r'\)@Some\.0$', ida)),
                   '%s completes the operation id found in %s under the ack\'s packet id (id = %s)' % (var, table, ida),
                   'id-source|' + var, loc=cs.loc())
            requires(ctx, hv, cs.bb, [r'^packet is %s$' % var, '^' + lookup + r' is Some$'] + reqs, 'ack|' + var,
                     '%s success completion' % var, loc=cs.loc())
            ctx.ob(bool(re.match(resp, show(cs.arg(2)))), '%s completes with the matching response variant (%s)' % (var, show(cs.arg(2))[:90]),
                   'response|' + var, loc=cs.loc())
    ctx.floor(nsites, 5, 'ack-handler success completion sites')
    # helper used by the PUBACK guard really tests kind and QoS
    qv = ctx.fn('ProtocolState::is_operation_publish_of_qos')
    trues = [(b, e) for b, e in prims.ret_variants(qv)]
    okq = False
    for b, e in trues:
        s = show(e)
        if re.search(r'\.qos.*==.*qos|PartialEq::eq\(.*\.qos, qos\)', s):
            okq = prims.guarded_any(qv, b, [r'\.packet is Publish$'])
    ctx.ob(okq, 'is_operation_publish_of_qos returns (publish.qos == qos) only under `packet is Publish`', 'qos-helper', loc=qv.loc())

    # ------------------------------------------------------------------ R-C01-5
    ctx.rule('R-C01-5', 'T2 placement table', 'a fully written operation is tracked in exactly the container its acknowledgement handler searches, keyed by its own packet id')
    fw = ctx.fn('ProtocolState::on_current_operation_fully_written')
    place = []
    for m in prims.mutations(fw):
        f = prims.self_field(m.path)
        if f in ('pending_publish_operations', 'pending_non_publish_operations', 'pending_write_completion_operations') and m.kind == 'mutcall':
            place.append((f, m))
    exp = {'Subscribe': 'pending_non_publish_operations', 'Unsubscribe': 'pending_non_publish_operations'}
    seen_kinds = set()
    for f, m in place:
        gs = guard_strs(fw, m.bb)
        var = [g.split(' is ')[1] for g in gs if re.search(r'\.packet is [\w|]+$', g) or re.search(r'^packet is [\w|]+$', g)]
        var = var[0] if var else '?'
        if f == 'pending_non_publish_operations':
            ok = var in ('Subscribe', 'Unsubscribe') and re.search(r'@%s\.0\.packet_id$' % var, show(m.cs.arg(1))) is not None
            seen_kinds.add(var)
        elif f == 'pending_publish_operations':
            ok = var == 'Publish' and re.search(r'@Publish\.0\.packet_id$', show(m.cs.arg(1))) is not None and \
                prims.guarded_any(fw, m.bb, [r'^!\(.*\.qos == QualityOfService::AtMostOnce\{\}\)$'])
            seen_kinds.add('PublishQos1+')
        else:
            ok = (var not in ('Subscribe', 'Unsubscribe')) and (var != 'Publish' or prims.guarded_any(fw, m.bb, [r'^\(.*\.qos == QualityOfService::AtMostOnce\{\}\)$']))
            seen_kinds.add('other:' + var)
        if m.method in ('insert',):
            ok = ok and show(m.cs.arg(2)).endswith('.id')
        ctx.ob(ok, 'fully written %s -> %s (key %s)' % (var, f, show(m.cs.arg(1))[:70]), 'placement|%s|%s' % (var, f), loc=m.loc())
    ctx.floor(len(place), 6, 'placement sites in the fully-written hook')
    ctx.ob({'Subscribe', 'Unsubscribe', 'PublishQos1+'} <= seen_kinds, 'Subscribe, Unsubscribe and QoS1+ Publish all have an ack-table placement', 'placement-kinds', loc=fw.loc())

    # ------------------------------------------------------------------ R-C01-6
    ctx.rule('R-C01-6', 'T9 value flow', 'connection close: every drained container flows into a tracked queue or into the failing sequence; '
             'rejected halves of every policy partition are failed')
    ch = ctx.fn('ProtocolState::handle_network_event_connection_closed')
    swaps = [cs for cs in ch.calls('mem::swap')]
    drained = {}
    for cs in swaps:
        for i in (0, 1):
            f = prims.self_field(cs.arg(i))
            if f:
                drained[f] = (cs, show(cs.arg(1 - i)))
    ctx.table('containers drained at close', sorted((k, v[1]) for k, v in drained.items()))
    ctx.floor(len(drained), 5, 'containers drained (mem::swap) in the closed handler')
    nuad = 0
    for v_ in F.fns_in(P):
        for name_, d_, u_ in prims.use_after_drain(v_):
            nuad += 1
            ctx.ob(False, '%s: local container `%s` is read by %s after %s emptied it (the later reader silently sees nothing)' % (short(v_.path), name_, short(u_.fn), short(d_.fn)),
                   'use-after-drain|%s|%s' % (short(v_.path), name_), loc=u_.loc())
    ctx.ob(nuad == 0, 'no engine function reads a local operation container after draining it', 'use-after-drain|none')
    fails = ch.calls('ProtocolState::complete_operation_sequence_as_failure')
    fail_args = ' ## '.join(show(c.arg(1)) for c in fails)
    appends = [m for m in prims.mutations(ch) if m.kind == 'mutcall' and m.method in ('append', 'push_back', 'push_front', 'extend')]
    append_args = ' ## '.join(show(m.cs.arg(1)) for m in appends if len(m.cs.args) > 1)
    parts = [cs for cs in ch.calls() if 'partition' in cs.nfn.split('::')[-1]]
    for cs in parts:
        r = re.escape(show(('call', cs.nfn, tuple(cs.arg(i) for i in range(len(cs.args))), cs.bb)))
        rej = re.search(r'\(' + r + r'\)\.1', fail_args) is not None
        ctx.ob(rej, 'rejected half of %s(..) is passed to the failing sequence' % short(cs.fn), 'partition-rejected|%s|%s' % (short(cs.fn), show(cs.arg(1))[:40]), loc=cs.loc())
        # retained half: appended to a queue, unless it is the high-priority partition (PUBREL operations stay in the pending-publish table)
        src = show(cs.arg(1))
        ret_used = False
        for m in appends:
            if len(m.cs.args) > 1:
                a = m.cs.arg(1)
                if a[0] == 'var':
                    # `mut retained` local: bound from (.0) of this partition?
                    for (bi, j, s) in ch.stmts():
                        if s['k'] == 'assign' and not s['lhs']['p'] and ch.varnames.get(s['lhs']['l']) == a[1]:
                            if re.search(r'\(' + r + r'\)\.0', show(ch.rvalue_expr(s['rv'], bi))):
                                ret_used = True
        if 'high_priority' in cs.nfn:
            ctx.note('listed exception: retained half of the high-priority partition is dropped (PUBREL operations remain in the pending-publish table and are re-queued from there)')
            # ... which is only sound when nothing is put into that queue during the close itself: an operation pushed there by
            # the close-time handling would be discarded with the retained half and stay unresolved forever (defect 6b)
            hp_ins = []
            for v_ in [ch] + [c_ for c_ in F.reachable_from([ch]) if c_.file.endswith(P)]:
                for m_ in prims.mutations(v_):
                    if prims.self_field(m_.path) == 'high_priority_operation_queue' and m_.kind == 'mutcall' and m_.method not in ('swap',):
                        hp_ins.append(m_)
                for c_ in v_.calls('ProtocolState::enqueue_operation'):
                    hp_ins.append(c_)
            ctx.ob(not hp_ins, 'the close-time handling inserts nothing into the high-priority queue, whose retained half is discarded in the same handler (%s)' % [x.loc() for x in hp_ins],
                   'discarded-queue|no-insert', loc=cs.loc())
            tbl = [c_ for c_ in ctx.fn('ProtocolState::handle_pubrec').calls('ProtocolState::enqueue_operation')]
            hpv = ctx.fn('ProtocolState::handle_pubrec')
            ctx.ob(len(tbl) == 1 and prims.guarded_any(hpv, tbl[0].bb, [r'^HashMap::get\(self\.pending_publish_operations, .*\) is Some$']),
                   'a PUBREL enters the high-priority queue only for an operation found in the unacked-publish table (so the discarded retained half is always re-queued from that table)', 'discarded-queue|pubrel-in-table', loc=hpv.loc())
        else:
            ctx.ob(ret_used, 'retained half of %s(%s) is appended to a tracked queue' % (short(cs.fn), src[:40]), 'partition-retained|%s|%s' % (short(cs.fn), src[:40]), loc=cs.loc())
    ctx.floor(len(parts), 3, 'partition calls in the closed handler')
    # the two ack tables are drained by closures that re-queue every id
    closures = [c for _, c in F.callees_of(ch) if c.f.get('parent') and norm(c.f['parent']) == norm(ch.path)]
    requeue = {}
    for c in closures:
        for m in prims.mutations(c):
            f = prims.self_field(m.path)
            if m.kind == 'mutcall' and f and m.method in ('push_back', 'push_front'):
                requeue[f] = (c, m)
                ctx.touch(c)
    ctx.ob('resubmit_operation_queue' in requeue, 'unacked publishes are re-queued into the resubmit queue by the drain closure', 'drain|pending_publish', loc=ch.loc())
    ctx.ob('user_operation_queue' in requeue, 'unacked subscribes/unsubscribes are re-queued into the user queue by the drain closure', 'drain|pending_non_publish', loc=ch.loc())
    for f, (c, m) in requeue.items():
        okp, _ = must_pass(c, 0, [m.bb], after_start=False) if m.bb != 0 else (True, None)
        ctx.ob(okp or m.bb == 0 or c.dominates(m.bb, c.exits()[0]), 'drain closure pushes every id unconditionally into %s' % f, 'drain-uncond|' + f, loc=m.loc())

    # no tracking container is ever overwritten wholesale while it may hold ids (only the swapped-out
    # user queue is assigned back at CONNACK)
    for f, m in prims.field_mutations(F, PS, P):
        if f in ('resubmit_operation_queue', 'high_priority_operation_queue', 'pending_publish_operations', 'pending_non_publish_operations',
                 'pending_write_completion_operations', 'operations', 'allocated_packet_ids') and m.kind == 'assign' and not m.path[2][1:]:
            ctx.ob(False, 'tracking container `%s` is overwritten by assignment in %s (ids it held are silently dropped)' % (f, short(m.view.path)), 'overwrite|%s|%s' % (f, short(m.view.path)), loc=m.loc())
    uq = [m for f, m in prims.field_mutations(F, PS, P) if f == 'user_operation_queue' and m.kind == 'assign' and not m.path[2][1:]]
    ctx.ob(len(uq) == 1 and 'apply_session_present_to_connection' in uq[0].view.path and show(uq[0].rv) == 'user_queue', 'the user queue is assigned only once: the swapped-out queue is put back at CONNACK', 'overwrite|user_operation_queue', loc=uq[0].loc() if uq else None)

    # ------------------------------------------------------------------ R-C01-7
    ctx.rule('R-C01-7', 'T3 + T5 field coverage', 'reset fails every tracked operation before clearing the table and resets every tracking field; Shutdown resets the engine')
    rs = ctx.fn('ProtocolState::reset')
    clear = [m for m in prims.mutations(rs) if prims.self_field(m.path) == 'operations' and m.method == 'clear']
    failc = rs.calls('ProtocolState::complete_operation_as_failure')
    ctx.ob(len(failc) == 1 and 'keys(self.operations)' in show(('x',)) + ' '.join(show(c.arg(0)) for c in rs.calls('Iterator::collect', 'collect')),
           'reset iterates the keys of the operation table', 'reset-iter', loc=rs.loc())
    for cs in failc:
        ctx.ob(re.search(r'next\(.*\)\)@Some\.0$', show(cs.arg(1))) is not None and prims.guarded_any(rs, cs.bb, [r'next\(.*\) is Some$']),
               'reset fails each id produced by the key iterator', 'reset-fail-each', loc=cs.loc())
    for m in clear:
        ctx.ob(prims.guarded_any(rs, m.bb, [r'next\(.*\) is None$']), 'operations.clear() happens only after the failing loop is exhausted', 'reset-clear-after-loop', loc=m.loc())
    ctx.floor(len(clear), 1, 'operations.clear in reset')
    adt = F.adt(PS)
    tracked = []
    for f in adt['variants'][0]['fields']:
        t = f['ty']
        if re.match(r'std::collections::(VecDeque|HashMap|HashSet|BinaryHeap)<', t) or t in ('bool',) or \
                re.match(r'std::option::Option<(u64|std::time::Instant|client::NegotiatedSettings)>$', t):
            tracked.append(f['name'])
    written = set(prims.self_field(m.path) for m in prims.mutations(rs) if m.kind in ('assign', 'mutcall'))
    for f in tracked:
        ctx.ob(f in written, 'reset() resets tracking field `%s`' % f, 'reset-field|' + f, loc=rs.loc())
    ctx.floor(len(tracked), 17, 'tracking fields of ProtocolState selected by type')
    hio = ctx.fn('MqttClientImpl::handle_incoming_operation')
    rc = hio.calls('ProtocolState::reset')
    ctx.ob(len(rc) >= 1 and all(prims.guarded_any(hio, c.bb, [r' is Shutdown$']) for c in rc), 'the Shutdown arm of the client resets the engine', 'shutdown-reset', loc=hio.loc())
    sh_edges = prims.edge_nodes_matching(hio, [r' is Shutdown$'])
    oku = bool(sh_edges) and bool(rc)
    for en_ in sh_edges:
        seen_ = hio.reach([en_], avoid=[c.bb for c in rc])
        oku = oku and not any(x in seen_ for x in hio.exits())
    ctx.ob(oku, 'the Shutdown arm resets the engine unconditionally: every path through it fails all still-unresolved operations (whatever the client state)', 'shutdown-reset|unconditional', loc=hio.loc())

    # ---- added after the mutation sweep
    ph = ctx.fn('ProtocolState::partition_high_priority_queue_for_disconnect')
    cl_ = [c for _, c in F.callees_of(ph) if c.f.get('parent') and norm(c.f['parent']) == norm(ph.path)]
    okt = len(cl_) == 1
    if okt:
        c_ = cl_[0]
        pushes_ = [m for m in prims.mutations(c_) if m.kind == 'mutcall' and m.method in ('push_back', 'push_front')]
        tg = sorted(show(m.path) for m in pushes_)
        okt = tg == ['rejected', 'retained'] and all(show(m.cs.arg(1)) == 'id' for m in pushes_)
        if okt:
            seen_ = c_.reach([0], avoid=[m.bb for m in pushes_])
            okt = not any(e in seen_ for e in c_.exits())
            r_ = [m for m in pushes_ if show(m.path) == 'retained'][0]
            okt = okt and prims.guarded_any(c_, r_.bb, [r'^ProtocolState::should_retain_high_priority_operation\(.*\)$'])
    ctx.ob(okt, 'the high-priority partition is total: every id goes into exactly one of retained / rejected (so every rejected operation is failed)', 'partition-total|high-priority', loc=ph.loc(), rule='R-C01-6')
    pq = ctx.fn('protocol::partition_operations_by_queue_policy')
    pcl = [c for _, c in F.callees_of(pq) if c.f.get('parent') and norm(c.f['parent']) == norm(pq.path)]
    okq = len(pcl) == 1
    if okq:
        c_ = pcl[0]
        pushes_ = [m for m in prims.mutations(c_) if m.kind == 'mutcall' and m.method in ('push_back', 'push_front')]
        seen_ = c_.reach([0], avoid=[m.bb for m in pushes_])
        ret_ = [show(e) for b, e in prims.ret_variants(pq)]
        names_ = sorted(show(m.path) for m in pushes_)
        okq = len(names_) == 2 and names_[0] != names_[1] and not any(e in seen_ for e in c_.exits()) and \
            any(prims.guarded_any(c_, m.bb, [r'^protocol::does_packet_pass_offline_queue_policy\(.*\)$']) and re.search(r'^\(tuple\)\{0: %s, 1: \w+\}$' % re.escape(show(m.path)), ret_[0] if ret_ else '') for m in pushes_)
    ctx.ob(okq, 'the offline-policy partition is total: every id goes into exactly one half, and the half returned first is the one the policy passes', 'partition-total|policy', loc=pq.loc(), rule='R-C01-6')
    fwv = ctx.fn('ProtocolState::on_current_operation_fully_written')
    eff_ = prims.must_field_effects(F, fwv)
    ctx.ob('Option::None{}' in eff_.get('current_operation', set()), 'a fully written operation always vacates the current-operation slot (otherwise the service loop would process it again)', 'fully-written|vacates', loc=fwv.loc(), rule='R-C01-5')
    # ---- added after seed C15-4b: an operation taken out of a queue is the operation handed to the encoder
    dq_ = ctx.fn('ProtocolState::dequeue_operation')
    rv_ = prims.ret_variants(dq_)
    pops_ = dq_.calls('VecDeque::pop_front', 'pop_front')
    for c_ in pops_:
        q_ = show(c_.arg(0))
        from ..mir import show_atom as _sa
        somes_ = [en_ for en_ in dq_.graph()[2] if _sa(dq_.edge_atom(en_)) == 'VecDeque::pop_front(%s) is Some' % q_]   # the written test only, not equivalent spellings of `!is_empty`
        after = dq_.reach(somes_) if somes_ else dq_.reach(list(dq_.graph()[0][c_.bb]))
        outs = sorted({show(e_) for b_, e_ in rv_ if b_ in after or (b_ == c_.bb and not somes_)})
        ctx.ob(bool(outs) and all((o_.startswith('Option::Some{0: ') and ('VecDeque::pop_front(%s)' % q_) in o_) or o_ == 'VecDeque::pop_front(%s)' % q_ for o_ in outs),
               'dequeue: whatever is popped from %s is returned (no path pops an operation and answers None, which would leave it tracked but in no queue) (%s)' % (q_.replace('self.', ''), outs),
               'popped-is-returned|' + q_.replace('self.', ''), loc=c_.loc(), rule='R-C01-6')
    ctx.floor(len(pops_), 3, 'pop sites in dequeue_operation')
