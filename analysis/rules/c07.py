"""C07 — one faithful CONNECT first, nothing before CONNACK, nothing after DISCONNECT."""
import re
from ..mir import show, short, norm, subexprs, fold, var_inits
from .. import prims, statectx
from ..prims import requires, guard_strs, guarded_any, must_pass
from ..spec import mqtt5

EXPLANATION = ('Structural necessary conditions of the connection handshake: the connection-opened handler queues the CONNECT at the '
               'front of the high-priority queue on every Ok path and resets per-connection state; a typestate analysis of the engine '
               'state shows no other high-priority insertion can execute while pending CONNACK; the pending-CONNACK service only '
               'dequeues high priority; the service loop only encodes in PendingConnack/Connected and a written DISCONNECT leaves those '
               'states; CONNACK success guards; clean-start decision table; negotiated-settings defaults vs specification; every '
               'ConnectOptions field reaches the CONNECT packet. Added in round 2: every answer of the PendingConnack next-service-time function is computed from the CONNACK deadline. Added after the mutation sweeps: each of PendingConnack and Connected alone lets the service loop run (sufficiency); the ConnectOptions builder setters and the connect timeout setter store their argument.')
ASSUMPTIONS = ['not decided: "exactly one CONNECT / nothing before CONNACK" over all timings and buffer sizes beyond the structural conditions; '
               'typestate is a may-analysis over the CFG (sound for "cannot execute in state X")']
P = 'src/protocol.rs'
PS = 'protocol::ProtocolState'
ENTRIES = ['handle_network_event', 'service', 'handle_user_event', 'get_next_service_timepoint', 'reset']


def engine_states(ctx):
    S = statectx.StateAnalysis(ctx.F, PS, 'state', 'protocol::ProtocolStateType', P)
    B = S.contexts({PS + '::' + n: S.full for n in ENTRIES})
    return S, B


def states_at(S, B, view, bb):
    m = B.get(norm(view.path), {}).get(bb, 0)
    return set(S.names_of(S._transfer_stmts_only(view, bb, m)))


def run(ctx):
    F = ctx.F
    S, B = engine_states(ctx)
    # ------------------------------------------------------------ R-C07-1
    ctx.rule('R-C07-1', 'T3 + T6', 'every Ok path of the connection-opened handler enters PendingConnack, resets per-connection state and queues the CONNECT at the front of the high-priority queue; '
             'no other high-priority insertion can execute in PendingConnack or (outside the closed handler) Disconnected')
    op = ctx.fn('ProtocolState::handle_network_event_connection_opened')
    okret = [b for b, e in prims.ret_variants(op) if e[0] == 'agg' and e[2] == 'Ok']
    ctx.ob(len(okret) >= 1, 'connection-opened handler has an Ok exit', 'opened-ok', loc=op.loc())
    need = {}
    for cs in op.calls():
        if cs.is_fn('ProtocolState::change_state') and show(cs.arg(1)) == 'ProtocolStateType::PendingConnack{}':
            need['state := PendingConnack'] = cs.bb
        if cs.is_fn('Decoder::reset_for_new_connection'):
            need['decoder reset'] = cs.bb
        if cs.is_fn('ProtocolState::enqueue_operation') and show(cs.arg(2)) == 'ProtocolQueueType::HighPriority{}' and show(cs.arg(3)) == 'ProtocolEnqueuePosition::Front{}' \
                and re.match(r'^ProtocolState::create_operation\(self, ProtocolState::create_connect\(self\), Option::None\{\}\)$', show(cs.arg(1))):
            need['CONNECT queued HighPriority/Front'] = cs.bb
    for (i, s, pe, rve) in op.field_writes():
        if show(pe) == 'self.current_operation' and show(rve) == 'Option::None{}':
            need['current_operation := None'] = i
        if show(pe) == 'self.pending_write_completion' and show(rve) == 'False':
            need['pending_write_completion := false'] = i
        if show(pe) == 'self.connack_timeout_timepoint' and show(rve).startswith('Option::Some{'):
            need['connack deadline armed'] = i
    for what in ('state := PendingConnack', 'decoder reset', 'CONNECT queued HighPriority/Front', 'current_operation := None', 'pending_write_completion := false', 'connack deadline armed'):
        bb = need.get(what)
        ok = bb is not None and all(bb not in () and (bb == b or op.dominates(bb, b)) for b in okret)
        ctx.ob(ok, 'opened handler: `%s` happens on every Ok path' % what, 'opened|' + what, loc=op.loc(bb) if bb is not None else op.loc())
    for cs in op.calls('ProtocolState::change_state'):
        if show(cs.arg(1)) == 'ProtocolStateType::PendingConnack{}':
            requires(ctx, op, cs.bb, [r'^\(self\.state == ProtocolStateType::Disconnected\{\}\)$'], 'opened-from-disconnected', 'entering PendingConnack', loc=cs.loc())
    cc = ctx.fn('ProtocolState::create_connect')
    rets = [show(e) for _, e in prims.ret_variants(cc)]
    ctx.ob(any(re.match(r'^Box::new\(MqttPacket::Connect\{0: connect\}\)$', r) for r in rets) and
           any(show(e).startswith('ConnectOptions::to_connect_packet(self.config.connect_options, self.has_connected_successfully)') for _, e in var_inits(cc, 'connect')),
           'the CONNECT is built from the configured connect options and the has-connected flag', 'connect-built', loc=cc.loc())
    # high-priority insertion sites and the states they can execute in
    eq = ctx.fn('ProtocolState::enqueue_operation')
    nhp = 0
    for cv, bb in F.callers().get(eq.key, []):
        cs = [c for c in cv.calls() if c.bb == bb][0]
        q = show(cs.arg(2))
        st = states_at(S, B, cv, bb)
        if cv.key == op.key:
            ctx.ob(st == {'PendingConnack'}, 'the CONNECT is queued in state PendingConnack only (%s)' % sorted(st), 'hp-states|opened', loc=cs.loc())
            nhp += 1
            continue
        if 'handle_user_event' in cv.path:
            continue
        if q == 'ProtocolQueueType::HighPriority{}':
            nhp += 1
            ctx.ob(not (st & {'PendingConnack', 'Disconnected'}), 'high-priority enqueue in %s cannot execute in PendingConnack/Disconnected (may run in %s)' % (short(cv.path), sorted(st)),
                   'hp-states|%s|%s' % (short(cv.path), show(cs.arg(1))[:40]), loc=cs.loc())
    ctx.floor(nhp, 6, 'high-priority enqueue sites')
    # the user-submitted DISCONNECT: reaches the enqueue only when the engine is Connected
    pol = ctx.fn('protocol::does_packet_pass_offline_queue_policy')
    rv = prims.ret_variants(pol)
    other_false = False
    for b, e in rv:
        gs = guard_strs(pol, b)
        for g in gs:
            m = re.match(r'^packet is ([\w|]+)$', g)
            if m and 'Disconnect' in m.group(1).split('|'):
                other_false = (show(e) == 'False') and not ({'Subscribe', 'Unsubscribe', 'Publish'} & set(m.group(1).split('|')))
    ctx.ob(other_false, 'the offline-policy helper is false for every packet other than Subscribe/Unsubscribe/Publish (so for DISCONNECT)', 'policy-nonuser-false', loc=pol.loc())
    wr = ctx.fn('ProtocolState::operation_packet_passes_offline_queue_policy')
    rr = prims.ret_variants(wr)
    okw = True
    for b, e in rr:
        if show(e) == 'True':
            okw = okw and guarded_any(wr, b, [r'^\(self\.state == ProtocolStateType::Connected\{\}\)$'])
        elif not show(e).startswith('protocol::does_packet_pass_offline_queue_policy(packet, self.config.offline_queue_policy)'):
            okw = False
    ctx.ob(okw and len(rr) == 2, 'the submit-time policy wrapper is true unconditionally only when Connected, otherwise defers to the policy helper', 'policy-wrapper', loc=wr.loc())
    hue = ctx.fn('ProtocolState::handle_user_event')
    for cs in hue.calls('ProtocolState::enqueue_operation'):
        ok = guarded_any(hue, cs.bb, [r'^ProtocolState::operation_packet_passes_offline_queue_policy\(self, .*\.packet\)$', r'^HashMap::get\(self\.operations, .*\) is None$'])
        ctx.ob(ok, 'a user event is queued only after passing the submit-time policy test', 'userevent-policy', loc=cs.loc())
    # direct high-priority push in the closed handler is followed by the drain of the whole queue
    closed = ctx.fn('ProtocolState::handle_network_event_connection_closed')
    direct = [(f, m) for f, m in prims.field_mutations(F, PS, P) if f == 'high_priority_operation_queue' and m.kind == 'mutcall' and m.method in ('push_front', 'push_back', 'append', 'insert', 'extend')]
    for f, m in direct:
        callers = F.callers().get(m.view.key, [])
        okd = bool(callers) and all(cv.key == closed.key for cv, _ in callers)
        if okd:
            for cv, bb in callers:
                swaps = [c.bb for c in closed.calls('mem::swap') if 'high_priority_operation_queue' in show(c.arg(1)) + show(c.arg(0))]
                brk = prims.edge_nodes_matching(closed, [r'^Try::branch\(.*ProtocolState::apply_connection_closed_to_current_operation\(self\)\)*\) is Break$'])
                ok_, _ = must_pass(closed, bb, set(swaps) | set(brk))
                okd = okd and ok_ and bool(swaps)
        ctx.ob(okd, 'direct high-priority push (%s in %s) happens only in the closed handler and is followed by the drain of the queue' % (m.method, short(m.view.path)), 'hp-direct|' + short(m.view.path), loc=m.loc())

    # ------------------------------------------------------------ R-C07-2
    ctx.rule('R-C07-2', 'T4 + T2', 'while pending CONNACK only the high-priority queue is serviced')
    spc = ctx.fn('ProtocolState::service_pending_connack')
    sq = spc.calls('ProtocolState::service_queue')
    ctx.ob(len(sq) == 1 and show(sq[0].arg(2)) == 'ProtocolQueueServiceMode::HighPriorityOnly{}', 'PendingConnack service passes HighPriorityOnly', 'pc-mode', loc=spc.loc())
    svq = ctx.fn('ProtocolState::service_queue')
    aux = ctx.fn('ProtocolState::service_queue_aux')
    for v, callee in ((svq, 'ProtocolState::service_queue_aux'), (aux, 'ProtocolState::dequeue_operation')):
        cs = v.calls(callee)
        ctx.ob(len(cs) == 1 and show(cs[0].arg(len(cs[0].args) - 1)) == 'mode', '%s forwards the service mode unchanged' % short(v.path), 'mode-forward|' + short(v.path), loc=v.loc())
    dq = ctx.fn('ProtocolState::dequeue_operation')
    npop = 0
    for m in prims.mutations(dq):
        f = prims.self_field(m.path)
        if m.kind == 'mutcall' and f in ('resubmit_operation_queue', 'user_operation_queue'):
            npop += 1
            requires(ctx, dq, m.bb, [r'^!\(mode == ProtocolQueueServiceMode::HighPriorityOnly\{\}\)$|^\(mode == ProtocolQueueServiceMode::All\{\}\)$'], 'pop|' + f, 'dequeuing from ' + f, loc=m.loc())
    ctx.floor(npop, 2, 'non-high-priority dequeue sites')
    sv = ctx.fn('ProtocolState::service')
    for cs in sv.calls():
        for nm, st in (('service_pending_connack', 'PendingConnack'), ('service_connected', 'Connected'), ('service_pending_disconnect', 'PendingDisconnect'), ('service_disconnected', 'Disconnected')):
            if cs.nfn.endswith('::' + nm):
                requires(ctx, sv, cs.bb, [r'^self\.state is %s$' % st], 'service-dispatch|' + nm, 'calling ' + nm, loc=cs.loc())

    # ------------------------------------------------------------ R-C07-3
    ctx.rule('R-C07-3', 'T1 + T2 + T6', 'a fully written DISCONNECT moves the engine to PendingDisconnect; packets are encoded only in PendingConnack/Connected; the PendingDisconnect/Halted services never reach the queue')
    fw = ctx.fn('ProtocolState::on_current_operation_fully_written')
    w = [(i, s, pe, rve) for (i, s, pe, rve) in fw.field_writes() if show(pe) == 'self.state']
    ctx.ob(len(w) == 1 and show(w[0][3]) == 'ProtocolStateType::PendingDisconnect{}' and guarded_any(fw, w[0][0], [r'^packet is Disconnect$|\.packet is Disconnect$']),
           'the fully-written hook sets PendingDisconnect exactly for a DISCONNECT', 'disconnect-written', loc=fw.loc())
    for cs in aux.calls('Encoder::encode'):
        ok = guarded_any(aux, cs.bb, [r'^\(self\.state == ProtocolStateType::PendingConnack\{\}\)$', r'^\(self\.state == ProtocolStateType::Connected\{\}\)$'])
        ctx.ob(ok, 'encoding happens only under state == PendingConnack || state == Connected (loop condition)', 'encode-guard', loc=cs.loc())
        st = states_at(S, B, aux, cs.bb)
        ctx.ob(st <= {'PendingConnack', 'Connected'}, 'typestate: the encoder call can only execute in %s' % sorted(st), 'encode-states', loc=cs.loc())
    em = set(S.names_of(S.entry_mask[norm(aux.path)]))
    ctx.ob(em <= {'PendingConnack', 'Connected'}, 'typestate: the queue service is entered only in %s' % sorted(em), 'queue-entry-states', loc=aux.loc())
    # after fully-written returns in PendingDisconnect the loop exits: the hook call is followed by the loop test
    ctx.ob(S.summary[norm(fw.path)][S.idx['Connected']] & S.mask(['PendingDisconnect']) != 0, 'typestate: the fully-written hook can leave Connected for PendingDisconnect', 'fw-summary', loc=fw.loc())

    # ------------------------------------------------------------ R-C07-4
    ctx.rule('R-C07-4', 'T2 + T6', 'the engine becomes Connected only from PendingConnack on a successful CONNACK; no other packet handler acts before CONNACK; the CONNACK deadline gates the PendingConnack service')
    hc = ctx.fn('ProtocolState::handle_connack')
    for cs in hc.calls('ProtocolState::change_state'):
        if show(cs.arg(1)) == 'ProtocolStateType::Connected{}':
            requires(ctx, hc, cs.bb, [r'^\(self\.state == ProtocolStateType::PendingConnack\{\}\)$', r'^\(packet@Connack\.0\.reason_code == ConnectReasonCode::Success\{\}\)$',
                                      r'^Try::branch\(connack::validate_connack_packet_inbound_internal\(packet@Connack\.0\)\) is Continue$'], 'connack-success', 'entering Connected', loc=cs.loc())
    others = [(f, m) for f, m in prims.field_mutations(F, PS, P) if f == 'state' and 'Connected{}' in show(m.rv or ('x',)) and 'Disconnected' not in show(m.rv)]
    setters = [c for v in F.fns_in(P) for c in v.calls('ProtocolState::change_state') if show(c.arg(1)) == 'ProtocolStateType::Connected{}']
    ctx.ob(len(setters) == 1 and not others, 'exactly one site moves the engine to Connected', 'connected-single', loc=hc.loc())
    hp = ctx.fn('ProtocolState::handle_packet')
    nh = 0
    for cs in hp.calls():
        if cs.nfn.startswith(PS + '::handle_') and not cs.nfn.endswith('handle_connack') and not cs.nfn.endswith('handle_auth'):
            hv = ctx.fn(cs.nfn.split('protocol::')[-1])
            acts = [c for c in hv.calls() if c.nfn.startswith(PS + '::') and c.nfn.split('::')[-1] in ('complete_operation_as_success', 'enqueue_operation', 'create_operation')]
            acts_bb = [c.bb for c in acts] + [m.bb for m in prims.mutations(hv) if m.kind in ('assign', 'mutcall') and (prims.self_field(m.path) or 'packet_events' in show(m.path))]
            for b in sorted(set(acts_bb)):
                nh += 1
                st = states_at(S, B, hv, b)
                ctx.ob(not (st & {'PendingConnack', 'Disconnected'}), '%s: state-changing site at bb%d cannot execute before CONNACK (may run in %s)' % (short(hv.path), b, sorted(st)),
                       'handler-states|%s|%s' % (short(hv.path), hv.blocks[b]['term'].get('fn', 'assign').split('::')[-1]), loc=hv.loc(b))
    ctx.floor(nh, 12, 'state-changing sites in packet handlers')
    for cs in sq:
        requires(ctx, spc, cs.bb, [r'^\(context\.current_time < Option::unwrap\(self\.connack_timeout_timepoint\)\)$'], 'connack-deadline', 'servicing the queue while pending CONNACK', loc=cs.loc())
    nxc = ctx.fn('ProtocolState::get_next_service_timepoint_pending_connack')
    okd, _, badr = prims.consulted_on_every_return(nxc, 'connack_timeout_timepoint')
    ctx.ob(okd, 'while pending CONNACK the reported next service time always takes the CONNACK deadline into account, whatever else is pending (so a driver that sleeps until then observes the deadline)%s' % ('' if okd else ' — return at %s ignores it' % nxc.loc(badr)), 'connack-deadline|next-service', loc=nxc.loc())
    rvx = [show(e) for b, e in prims.ret_variants(nxc)]
    ctx.ob(bool(rvx) and all('connack_timeout_timepoint' in x for x in rvx), 'every answer of the PendingConnack next-service function is computed from the CONNACK deadline (%s)' % [x[:60] for x in rvx], 'connack-deadline|next-service-value', loc=nxc.loc())

    # ------------------------------------------------------------ R-C07-5
    ctx.rule('R-C07-5', 'T11 decision table + T1', 'clean start = {PostSuccess: !connected_previously, Always: false, Never: true}; the has-connected flag is set only by a successful CONNACK and cleared by reset; the CONNECT falls back to the negotiated client id')
    tc = ctx.fn('ConnectOptions::to_connect_packet')
    tab = {}
    for b, e in var_inits(tc, 'clean_start'):
        for g in guard_strs(tc, b):
            m = re.match(r'^self\.rejoin_session_policy is (\w+)$', g)
            if m:
                tab[m.group(1)] = show(e)
    ctx.table('clean start decision', sorted(tab.items()))
    ctx.ob(tab == {'PostSuccess': 'Not(connected_previously)', 'Always': 'False', 'Never': 'True'}, 'clean-start table %s' % tab, 'clean-start-table', loc=tc.loc())
    lit = [e for _, e in prims.ret_variants(tc) if e[0] == 'agg' and e[1].endswith('ConnectPacket')]
    ctx.ob(len(lit) == 1 and show(dict(lit[0][3]).get('clean_start')) == 'clean_start', 'the computed value is stored in ConnectPacket.clean_start', 'clean-start-flow', loc=tc.loc())
    hw = [(f, m) for f, m in prims.field_mutations(F, PS, P) if f == 'has_connected_successfully']
    for f, m in hw:
        val = show(m.rv)
        if val == 'True':
            ok = 'handle_connack' in m.view.path and guarded_any(m.view, m.bb, [r'^\(packet@Connack\.0\.reason_code == ConnectReasonCode::Success\{\}\)$'])
        else:
            ok = val == 'False' and any(prims.self_field(x.path) == 'operations' and x.method == 'clear' for x in prims.mutations(m.view))
        ctx.ob(ok, 'has_connected_successfully := %s in %s' % (val, short(m.view.path)), 'hasconnected|' + val, loc=m.loc())
    ctx.floor(len(hw), 2, 'writers of has_connected_successfully')
    w = [(i, s, pe, rve) for (i, s, pe, rve) in cc.field_writes() if show(pe) == 'connect.client_id']
    ctx.ob(len(w) == 1 and 'current_settings' in show(w[0][3]) and 'client_id' in show(w[0][3]) and guarded_any(cc, w[0][0], [r'^connect\.client_id is None$']),
           'create_connect uses the previously negotiated client id only when the options have none', 'clientid-fallback', loc=cc.loc())

    # ------------------------------------------------------------ R-C07-6
    ctx.rule('R-C07-6', 'T4 table agreement', 'negotiated settings take each value from the CONNACK field of the same meaning, defaulting to the specification value (or the CONNECT value for session expiry / keep alive)')
    bn = ctx.fn('protocol::build_negotiated_settings')
    lit = [e for _, e in prims.ret_variants(bn) if e[0] == 'agg' and e[1].endswith('NegotiatedSettings')]
    ctx.ob(len(lit) == 1, 'one NegotiatedSettings literal', 'ns-literal', loc=bn.loc())
    if lit:
        d = dict(lit[0][3])
        WANT = {'maximum_qos': ('maximum_qos', 'QualityOfService::ExactlyOnce{}'), 'receive_maximum_from_server': ('receive_maximum', mqtt5.CONNACK_DEFAULTS['receive_maximum']),
                'maximum_packet_size_to_server': ('maximum_packet_size', mqtt5.CONNACK_DEFAULTS['maximum_packet_size']), 'topic_alias_maximum_to_server': ('topic_alias_maximum', 0),
                'retain_available': ('retain_available', True), 'wildcard_subscriptions_available': ('wildcard_subscriptions_available', True),
                'subscription_identifiers_available': ('subscription_identifiers_available', True), 'shared_subscriptions_available': ('shared_subscriptions_available', True)}
        for fld, (src, dflt) in WANT.items():
            e = d.get(fld)
            ok = e is not None and e[0] == 'call' and e[1].endswith('Option::unwrap_or') and show(e[2][0]) == 'packet.' + src
            if ok:
                got = fold(e[2][1])
                ok = (got == dflt) if not isinstance(dflt, str) else show(e[2][1]) == dflt
            ctx.ob(ok, 'NegotiatedSettings.%s = CONNACK.%s or %s (found %s)' % (fld, src, dflt, show(e)[:80] if e else None), 'ns|' + fld, loc=bn.loc())
        for fld, src, csrc in (('session_expiry_interval', 'session_expiry_interval', 'session_expiry_interval_seconds'), ('server_keep_alive', 'server_keep_alive', 'keep_alive_interval_seconds')):
            e = d.get(fld)
            ok = e is not None and show(e) == 'Option::unwrap_or(packet.%s, Option::unwrap_or(config.connect_options.%s, 0))' % (src, csrc)
            ctx.ob(ok, 'NegotiatedSettings.%s = CONNACK value, else CONNECT value, else 0' % fld, 'ns|' + fld, loc=bn.loc())
        ctx.ob(show(d.get('rejoined_session')) == 'packet.session_present', 'rejoined_session mirrors CONNACK.session_present', 'ns|rejoined_session', loc=bn.loc())
        allf = [f['name'] for f in F.adt('client::NegotiatedSettings')['variants'][0]['fields']]
        ctx.ob(set(allf) == set(d) and set(allf) == set(WANT) | {'session_expiry_interval', 'server_keep_alive', 'rejoined_session', 'client_id'}, 'every NegotiatedSettings field is covered by this table', 'ns|coverage', loc=bn.loc())
        # client id precedence: assigned -> options -> previous -> empty
        cid = []
        lcl = [l for l, nm in bn.varnames.items() if nm == 'final_client_id']
        for b, e in (bn.phi_defs(lcl[0]) if lcl else []):
            cid.append((show(e), [g for g in guard_strs(bn, b)]))
        srcs = [re.sub(r'^Clone::clone\(|Option::unwrap\(Option::as_ref\(|\)+$', '', c[0]) for c in cid]
        ok = len(cid) == 4 and 'packet.assigned_client_identifier' in cid[0][0] and any('packet.assigned_client_identifier is Some' == g for g in cid[0][1]) \
            and 'config.connect_options.client_id' in cid[1][0] and any(g == 'packet.assigned_client_identifier is None' for g in cid[1][1]) \
            and 'existing_settings' in cid[2][0] and any(g == 'config.connect_options.client_id is None' for g in cid[2][1])
        ctx.ob(ok, 'client id precedence: assigned, then configured, then previous, then empty', 'ns|client_id', loc=bn.loc())
    for (i, s, pe, rve) in hc.field_writes():
        if show(pe) == 'self.current_settings':
            ctx.ob(show(rve).startswith('Option::Some{0: protocol::build_negotiated_settings(self.config, packet@Connack.0, self.current_settings)'), 'the settings are built from this CONNACK', 'ns|stored', loc=hc.loc(i))

    # ------------------------------------------------------------ R-C07-7
    ctx.rule('R-C07-7', 'T5 field coverage', 'every ConnectOptions field reaches the ConnectPacket literal; every ConnectPacket field is initialised from the options field of the same name')
    opts = [f['name'] for f in F.adt('client::config::ConnectOptions')['variants'][0]['fields']]
    if lit is not None:
        cl = [e for _, e in prims.ret_variants(tc) if e[0] == 'agg' and e[1].endswith('ConnectPacket')]
        d = dict(cl[0][3]) if cl else {}
        used = set()
        for k, e in d.items():
            for x in subexprs(e):
                if x[0] == 'var' and x[1] == 'self' and x[2]:
                    used.add(x[2][0][1:])
        for k, e in var_inits(tc, 'clean_start'):
            pass
        for g in set(g for i in tc.live_blocks() for g in guard_strs(tc, i)):
            m = re.match(r'^self\.(\w+) is ', g)
            if m:
                used.add(m.group(1))
        for f in opts:
            ctx.ob(f in used, 'ConnectOptions.%s flows into the CONNECT packet' % f, 'opt-used|' + f, loc=tc.loc())
        for k, e in d.items():
            s = show(e)
            if k in ('authentication_method', 'authentication_data'):
                ok = s == 'Option::None{}'
            elif k == 'clean_start':
                ok = s == 'clean_start'
            elif k == 'keep_alive_interval_seconds':
                ok = s == 'Option::unwrap_or(self.keep_alive_interval_seconds, 0)'
            else:
                ok = s in ('self.' + k, 'Clone::clone(self.%s)' % k)
            ctx.ob(ok, 'ConnectPacket.%s = %s' % (k, s[:60]), 'pkt-field|' + k, loc=tc.loc())
        ctx.floor(len(d), 16, 'ConnectPacket fields in the literal')

    # ---- added after the mutation sweep
    sqa = ctx.fn('ProtocolState::service_queue_aux')
    dqc = sqa.calls('ProtocolState::dequeue_operation')
    st_ok = True
    for st_ in ('PendingConnack', 'Connected'):
        r_ = prims.reaches_ret(sqa, [r'^\(self\.state == ProtocolStateType::%s\{\}\)$' % st_], 'Ok')
        e_ = prims.edge_nodes_matching(sqa, [r'^\(self\.state == ProtocolStateType::%s\{\}\)$' % st_])
        oth_ = prims.edge_nodes_matching(sqa, [r'^\(self\.state == ProtocolStateType::(?!%s)\w+\{\}\)$' % st_])
        st_ok = st_ok and bool(e_) and bool(dqc) and any(dqc[0].bb in sqa.reach([x], avoid=oth_) for x in e_)
    ctx.ob(st_ok, 'the service loop body (dequeue, encode) is entered in PendingConnack and in Connected (each state alone suffices)', 'service-loop|states', loc=sqa.loc(), rule='R-C07-3')
    enc_ = sqa.calls('Encoder::encode')
    fwc = sqa.calls('ProtocolState::on_current_operation_fully_written')
    ctx.ob(len(enc_) == 1 and len(fwc) == 1 and guarded_any(sqa, fwc[0].bb, [r'^\(.* == EncodeResult::Complete\{\}\)$', r' is Complete$']), 'an operation counts as written only when the encoder reports Complete', 'service-loop|complete', loc=sqa.loc(), rule='R-C07-3')
    rfull = prims.rets_after(sqa, [r'^!\(.* == EncodeResult::Complete\{\}\)$'])
    ctx.ob(rfull is not None and 'Ok' in rfull and bool(fwc) and not any(fwc[0].bb in sqa.reach([e]) and False for e in prims.edge_nodes_matching(sqa, [r'^!\(.* == EncodeResult::Complete\{\}\)$'])),
           'a partially encoded operation ends the service call (the rest is written on a later call)', 'service-loop|partial', loc=sqa.loc(), rule='R-C07-3')
    # ---- added after seeds C07-3a / C07-3b
    inc_ = ctx.fn('ProtocolState::handle_network_event_incoming_data')
    for cond in (r'^ProtocolState::is_connect_in_queue\(self\)$', r'^self\.current_operation is Some$', r'^self\.pending_write_completion$'):
        ra = prims.rets_after(inc_, [r'^\(self\.state == ProtocolStateType::PendingConnack\{\}\)$', cond])
        ctx.ob(ra == {'Err'}, 'anything received while the CONNECT is still queued, being encoded or not yet flushed (%s) is a connection error, not a CONNACK to act on (%s)' % (cond, sorted(ra or ['test not found'])),
               'unsolicited|' + cond[:32], loc=inc_.loc(), rule='R-C07-4')
    cs_none = [(short(m.view.path), m) for f_, m in prims.field_mutations(F, PS, P) if f_ == 'current_settings' and (m.kind == 'assign' or m.method == 'take') and show(m.rv) == 'Option::None{}']
    ctx.ob([n for n, m in cs_none] == ['ProtocolState::reset'], 'the negotiated settings (with the server-assigned client id the next CONNECT reuses) are forgotten only by reset, never by a new connection (%s)' % [n for n, m in cs_none],
           'clientid|settings-persist', loc=ctx.fn('ProtocolState::reset').loc(), rule='R-C07-5')
    # ---- added after the mutation sweep: the configured values this property starts from reach the options (builder setters)
    from . import shared as _sh
    _ns = _sh.builder_setters(ctx, lambda b, m: b == 'ConnectOptionsBuilder' or (b in ('TokioClientBuilder', 'ThreadedClientBuilder') and m in ('with_connect_options', 'with_client_options')) or (b == 'MqttClientOptionsBuilder' and m == 'with_connect_timeout'), 'R-C07-7', 'the CONNECT reflects the configured connect options; the establishment deadline is the configured connect timeout')
    if ctx.config == 'all':
        ctx.floor(_ns, 17, 'builder setters this property depends on')
    # ---- added after the second mutation sweep: "the CONNECT is still queued" means a CONNECT (predicate polarity, shared with C11)
    from . import shared as _sh5
    _n6 = _sh5.import_obligations(ctx, 'C11', lambda o: o['key'].endswith('early-data|is-connect'), 'R-C07-4', 'the unsolicited-CONNACK guard asks whether a CONNECT is waiting in the high-priority queue')
    if ctx.config == 'all':
        ctx.floor(_n6, 1, 'CONNECT-queued predicate obligation shared with C11')
