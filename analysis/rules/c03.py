"""C03 — inbound decoding is faithful, chunking-invariant, robust."""
import re
from ..mir import show, short, norm, subexprs, fold, var_inits
from .. import prims, panics
from ..prims import guarded_any, guard_strs
from ..spec import mqtt5, mqtt311
from . import codec
from .codec import MQTT_VARIANT_TO_SPEC, SERVER_OUTBOUND

EXPLANATION = ('Decoder tables extracted from MIR and compared with the specification: reason-code conversion tables, '
               'the property keys and wire-type helper each inbound packet accepts (with duplicate rejection inside every '
               'optional helper), per-type dispatch with fixed first bytes, the size check that dominates buffering, and a '
               'panic-site inventory of every body reachable from Decoder::decode_bytes with each site discharged by a '
               'dominating length/variant guard or a listed state invariant that has its own maintenance rule. Added in round 2: the wire layout of every inbound packet decoder as a reaching-definition chain over the body cursor (field order, optional fields, property/payload split, flag bits), property key vs destination field agreement, and the value flow of the maximum packet size in force from the CONNECT options to the decoder comparison. Added after the mutation sweeps: decoder state transitions as must-effects, exact bounds of the fixed-width and length-prefixed primitives, outcome tables of every inbound decoder (which remaining-length conditions accept / reject, when a payload is stored), continuation-bit polarity of the variable byte integer decoder.')
ASSUMPTIONS = ['not decided: value faithfulness for arbitrary byte content and invariance under every chunking of the stream '
               '(only the structural conditions: state-field write sets, size check placement, bounds guards)']

RC_TYPES = {'ConnectReasonCode': 'CONNACK', 'PubackReasonCode': 'PUBACK', 'PubrecReasonCode': 'PUBREC', 'PubrelReasonCode': 'PUBREL',
            'PubcompReasonCode': 'PUBCOMP', 'SubackReasonCode': 'SUBACK', 'UnsubackReasonCode': 'UNSUBACK',
            'DisconnectReasonCode': 'DISCONNECT', 'AuthenticateReasonCode': 'AUTH'}
HELPER_TYPES = {
    'decode_optional_u8_as_bool': mqtt5.BYTE, 'decode_optional_u8_as_enum': mqtt5.BYTE, 'decode_optional_u8': mqtt5.BYTE,
    'decode_optional_u16': mqtt5.TWO, 'decode_optional_u32': mqtt5.FOUR, 'decode_vli_into_mutable': mqtt5.VBI,
    'decode_optional_length_prefixed_string': mqtt5.UTF8, 'decode_optional_length_prefixed_bytes': mqtt5.BIN,
    'decode_user_property': mqtt5.PAIR,
}


def ok_wraps(v, local):
    """Every `Ok(..)` the function returns wraps exactly the given local (the hoisted-Ok form of a conversion table)."""
    oks = [e for b, e in prims.ret_variants(v) if e[0] == 'agg' and e[2] == 'Ok']
    if not oks:
        return False
    for e in oks:
        inner = dict(e[3]).get('0')
        if inner is None:
            return False
        if inner[0] == 'phi' and inner[1] == local:
            continue
        if inner[0] == 'var' and v.varnames.get(local) == inner[1] and not inner[2]:
            continue
        return False
    return True


def try_from_table(F, v):
    tabs = codec.switch_table(v, r'^\w+$')
    if not tabs:
        return None
    bb, tab, other, _ = tabs[0]
    out = {}
    for val, tg in tab.items():
        # target block assigns _0 = Ok(Enum::Variant)
        cur = tg
        found = None
        for _ in range(4):
            for s in v.blocks[cur]['stmts']:
                if s['k'] == 'assign' and s['lhs']['l'] == 0 and not s['lhs']['p']:
                    e = v.rvalue_expr(s['rv'], cur)
                    if e[0] == 'agg' and e[2] == 'Ok':
                        inner = dict(e[3]).get('0')
                        if inner and inner[0] == 'agg':
                            found = (inner[1], inner[2])
                elif s['k'] == 'assign' and not s['lhs']['p'] and s['lhs']['l'] != 0 and found is None:
                    # `let rc = match v { 0 => Enum::A, .. }; Ok(rc)`: the arm stores the bare variant; accepted when the function's
                    # only Ok value is that local (checked below by ok_wraps)
                    e = v.rvalue_expr(s['rv'], cur)
                    if e[0] == 'agg' and not e[3] and e[2] not in ('Ok', 'Err', 'Some', 'None') and ok_wraps(v, s['lhs']['l']):
                        found = (e[1], e[2])
            if found:
                break
            t = v.blocks[cur]['term']
            if t['k'] == 'goto':
                cur = t['t']
            else:
                break
        out[val] = found
    return out


def run(ctx):
    F = ctx.F
    # ------------------------------------------------------------ R-C03-1
    ctx.rule('R-C03-1', 'T4 table agreement', 'each reason-code conversion accepts every value the specification defines for that packet and maps it to the variant with that discriminant')
    seen = 0
    for tname, pk in RC_TYPES.items():
        v = ctx.try_fn('<mqtt::%s as std::convert::TryFrom<u8>>::try_from' % tname)
        if v is None:
            continue
        tab = try_from_table(F, v)
        adt = F.adt('mqtt::' + tname)
        discr = {x['name']: x['discr'] for x in adt['variants']}
        seen += 1
        for val in sorted(mqtt5.REASON_CODES[pk]):
            ent = tab.get(val) if tab else None
            ok = ent is not None and discr.get(ent[1]) == val
            ctx.ob(ok, '%s::try_from(%d) -> %s (spec %s reason code %d / 0x%02X)' % (tname, val, ent[1] if ent else 'Err', pk, val, val),
                   'rc|%s|%d' % (tname, val), loc=v.loc())
        extra = sorted(set(tab or {}) - mqtt5.REASON_CODES[pk])
        for val in extra:
            ent = tab.get(val)
            ctx.note('%s accepts %d (%s) which the specification does not define for %s (tolerated: the property requires decoding what the spec allows)' % (tname, val, ent[1] if ent else '?', pk))
            ctx.ob(ent is not None and discr.get(ent[1]) == val, '%s::try_from(%d) maps to the variant with that discriminant' % (tname, val), 'rc-extra|%s|%d' % (tname, val), loc=v.loc())
    ctx.floor(seen, 9, 'reason-code TryFrom<u8> implementations')
    for tname, n in (('QualityOfService', 3), ('PayloadFormatIndicator', 2)):
        v = ctx.fn('<mqtt::%s as std::convert::TryFrom<u8>>::try_from' % tname)
        tab = try_from_table(F, v)
        discr = {x['name']: x['discr'] for x in F.adt('mqtt::' + tname)['variants']}
        ctx.ob(set(tab) == set(range(n)) and all(discr.get(tab[k][1]) == k for k in tab), '%s::try_from accepts exactly 0..%d' % (tname, n - 1), 'enum|' + tname, loc=v.loc())
    v = ctx.fn('mqtt::convert_311_encoding_to_connect_reason_code')
    tab = try_from_table(F, v)
    ctx.ob(set(tab) == mqtt311.CONNACK_RETURN_CODES and tab[0][1] == 'Success' and all(tab[k][1] != 'Success' for k in tab if k), 'MQTT 3.1.1 CONNACK return codes 0..5 are accepted, 0 is the only success', 'rc311|connack', loc=v.loc())
    v = ctx.fn('mqtt::convert_311_encoding_to_suback_reason_code')
    tab = try_from_table(F, v)
    want = {0: 'GrantedQos0', 1: 'GrantedQos1', 2: 'GrantedQos2', 128: 'UnspecifiedError'}
    ctx.ob(tab is not None and {k: (tab[k][1] if tab[k] else None) for k in tab} == want, 'MQTT 3.1.1 SUBACK return codes {0,1,2,0x80} map to granted QoS 0/1/2 / failure', 'rc311|suback', loc=v.loc())

    # ------------------------------------------------------------ R-C03-2
    ctx.rule('R-C03-2', 'T4 table agreement + T2', 'each inbound packet\'s property decoder handles every property the specification allows in that packet with the helper of its wire type; optional helpers reject duplicates')
    dec5 = ctx.fn('decode::decode_packet5')
    dec3 = ctx.fn('decode::decode_packet311')
    propfns = {}
    for pk, fn_ in (('CONNACK', 'connack::decode_connack_properties'), ('PUBLISH', 'publish::decode_publish_properties'),
                    ('PUBACK', 'puback::decode_puback_properties'), ('PUBREC', 'pubrec::decode_pubrec_properties'),
                    ('PUBREL', 'pubrel::decode_pubrel_properties'), ('PUBCOMP', 'pubcomp::decode_pubcomp_properties'),
                    ('SUBACK', 'suback::decode_suback_properties'), ('UNSUBACK', 'unsuback::decode_unsuback_properties'),
                    ('DISCONNECT', 'disconnect::decode_disconnect_properties'), ('AUTH', 'auth::decode_auth_properties')):
        v = ctx.try_fn(fn_)
        if v is None:
            continue
        tabs = codec.switch_table(v, r'\[_\d+\]$|property_key')
        if not ctx.ob(len(tabs) == 1, '%s property decoder dispatches on the property key byte' % pk, 'propswitch|' + pk, loc=v.loc()):
            continue
        _, tab, other, _ = tabs[0]
        # (added after the second mutation sweep) a key outside the table is a malformed packet, never skipped
        ra_u = prims.rets_after(v, [r' not in \('])
        ctx.ob(ra_u == {'Err'}, '%s property decoder rejects every property key it does not handle (outcomes after the default arm: %s)' % (pk, sorted(ra_u or ['default arm not found'])), 'propdefault|' + pk, loc=v.loc())
        # ... and the loop runs while property bytes remain
        lp_ = prims.edge_nodes_matching(v, [r'^\(0 < slice::len\(\w+\)\)$', r'^!slice::is_empty\(\w+\)$', r'^!\(slice::len\(\w+\) == 0\)$'])
        ok_ = prims.rets_after(v, [r'^\(slice::len\(\w+\) <= 0\)$|^slice::is_empty\(\w+\)$|^\(slice::len\(\w+\) == 0\)$'])
        ctx.ob(bool(lp_) and ok_ == {'Ok'}, '%s property decoder consumes all property bytes: it returns Ok exactly when none remain (%s)' % (pk, sorted(ok_ or ['loop test not found'])), 'proploop|' + pk, loc=v.loc())
        rows = []
        legal = mqtt5.properties_of(pk)
        for key in sorted(legal):
            spec = mqtt5.PROPERTIES[key]
            tg = tab.get(key)
            cs = codec.first_call_from(v, tg) if tg is not None else None
            helper = cs.nfn.split('::')[-1] if cs else None
            rows.append((key, spec[0], helper, show(cs.arg(1)) if cs else None))
            ctx.ob(helper is not None and HELPER_TYPES.get(helper) == spec[1], '%s property %d (%s, %s) decoded by %s' % (pk, key, spec[0], spec[1], helper),
                   'prop|%s|%d' % (pk, key), loc=cs.loc() if cs else v.loc())
            dest_ = show(cs.arg(1)) if cs is not None and len(cs.args) > 1 else None
            ctx.ob(dest_ is not None and codec.name_agrees(dest_, spec[0]), '%s property %d (%s) is decoded into the field of that meaning (`%s`)' % (pk, key, spec[0], dest_), 'prop-field|%s|%d' % (pk, key), loc=cs.loc() if cs else v.loc())
            if cs is not None and key not in mqtt5.REPEATABLE:
                ctx.ob(helper.startswith('decode_optional_'), '%s property %d is non-repeatable and goes through a duplicate-rejecting helper' % (pk, key), 'prop-dup|%s|%d' % (pk, key), loc=cs.loc())
        dests_ = [r[3] for r in rows if r[3]]
        ctx.ob(len(dests_) == len(set(dests_)), '%s: every property is decoded into its own field (no two keys share a destination)' % pk, 'prop-field-distinct|' + pk, loc=v.loc())
        for key in sorted(set(tab) - legal):
            ctx.note('%s decoder also accepts property %d, not allowed by the specification for this packet' % (pk, key))
        # unknown keys are an error
        errb = prims.err_blocks(v)
        ctx.ob(bool(errb), '%s property decoder rejects unknown property keys with an error' % pk, 'prop-unknown|' + pk, loc=v.loc())
        ctx.table('inbound %s properties' % pk, rows)
        propfns[pk] = v
    ctx.floor(len(propfns), 10, 'inbound property decoders')
    nh = 0
    for h in HELPER_TYPES:
        if not h.startswith('decode_optional_'):
            continue
        hv = F.find_fns('decode::' + h)
        if not hv:
            continue
        hv = hv[0]
        ctx.touch(hv)
        nh += 1
        stores = [i for (i, s, pe, rve) in [(i, s, hv.place_expr(s['lhs']), hv.rvalue_expr(s['rv'], i)) for (i, j, s) in hv.stmts() if s['k'] == 'assign' and s['lhs']['p']]
                  if show(pe) == 'value' and rve[0] == 'agg' and rve[2] == 'Some']
        ok = bool(stores) and all(prims.guarded_any(hv, b, [r'^value is None$', r'^value is None$']) for b in stores)
        ctx.ob(ok, '%s stores the value only after rejecting an already-set destination (duplicate property)' % h, 'dup-check|' + h, loc=hv.loc())
    ctx.floor(nh, 6, 'optional decode helpers')

    # ------------------------------------------------------------ R-C03-3
    ctx.rule('R-C03-3', 'T4 dispatch table', 'the packet-type dispatch routes every server-to-client packet type to the decoder that builds that MqttPacket variant; fixed-flag packets compare the first byte with the specification value')
    nd = 0
    for ver, dv in (('5', dec5), ('311', dec3)):
        tabs = codec.switch_table(dv, r'Shr 4')
        if not ctx.ob(len(tabs) == 1, 'decode_packet%s dispatches on first_byte >> 4' % ver, 'decswitch|' + ver, loc=dv.loc()):
            continue
        _, tab, other, _ = tabs[0]
        for var in SERVER_OUTBOUND:
            pk = MQTT_VARIANT_TO_SPEC[var]
            if ver == '311' and var == 'Auth':
                continue
            tg = tab.get(mqtt5.PACKET_TYPES[pk])
            cs = codec.first_call_from(dv, tg) if tg is not None else None
            ok = cs is not None and ('decode_%s_packet' % var.lower()) in cs.nfn
            nd += 1
            ctx.ob(ok, 'MQTT %s type %d (%s) -> %s' % (ver, mqtt5.PACKET_TYPES[pk], pk, short(cs.fn) if cs else None), 'decdispatch|%s|%s' % (ver, var), loc=dv.loc())
            if not ok:
                continue
            pv = ctx.fn(norm(cs.fn))
            built = set()
            for bc in pv.calls('Box::new'):
                e = bc.arg(0)
                if e[0] == 'agg' and e[1].endswith('MqttPacket'):
                    built.add(e[2])
            ctx.ob(built == {var}, '%s builds MqttPacket::%s and no other variant (builds %s)' % (short(pv.path), var, sorted(built)), 'decbuilds|%s|%s' % (ver, var), loc=pv.loc())
            if var not in ('Publish',):
                want = mqtt5.first_byte(pk)
                # the Ok path must be cut by a first-byte equality with the spec value
                okfb = False
                for en in prims.edge_nodes_matching(pv, [r'^\(first_byte == ']):
                    a = pv.edge_atom(en)
                    if a[2] and fold(a[1][2]) == want:
                        okfb = True
                ctx.ob(okfb, '%s accepts only first byte 0x%02X' % (short(pv.path), want), 'decfirstbyte|%s|%s' % (ver, var), loc=pv.loc())
                rbad = prims.rets_after(pv, [r'^!\(first_byte == '])
                okret = [b for b, e in prims.ret_variants(pv) if e[0] == 'agg' and e[2] == 'Ok']
                ctx.ob(rbad == {'Err'} and bool(okret) and all(prims.guarded_any(pv, b, [r'^\(first_byte == ']) for b in okret),
                       '%s: any other first byte is a decoding error, and a packet is produced only under the matching first byte (outcomes after a mismatch: %s)' % (short(pv.path), sorted(rbad or ['test not found'])), 'decfirstbyte-complete|%s|%s' % (ver, var), loc=pv.loc())
    ctx.floor(nd, 21, 'decoder dispatch entries')
    dp = ctx.fn('decode::decode_packet')
    for cs in dp.calls():
        if 'decode_packet' in cs.nfn:
            ver = '5' if cs.nfn.endswith('5') else '311'
            ctx.ob(prims.guarded_any(dp, cs.bb, [r'^protocol_version is Mqtt%s$' % ver]), 'decode_packet uses the MQTT %s table only for that version' % ver, 'decver|' + ver, loc=cs.loc())

    # ------------------------------------------------------------ R-C03-7
    ctx.rule('R-C03-7', 'T9 def-use chain + T4', 'wire layout: in every server-to-client packet decoder the fields are taken off the body cursor in the order the specification lays them out (reaching-definition chain over the cursor), each into the field of that meaning; optional middle fields are bypassed, the property section is exactly the announced length, the payload / reason-code list is the rest')
    run_layout(ctx, F)
    run_outcomes(ctx, F)


    # ---- variable byte integer arithmetic (specification 1.5.5): constants and their roles
    def _binops(v):
        out = []
        for (i, j, s_) in v.stmts():
            if s_['k'] == 'assign' and s_['rv'].get('k') == 'bin' and not prims.is_log_mac(s_.get('mac', '')):
                rv_ = s_['rv']
                cb = rv_['b'].get('val') if rv_['b'].get('k') == 'const' else None
                out.append((rv_['op'], cb, show(v.rvalue_expr(rv_, i)), i))
        return out

    dv = ctx.fn('decode::decode_vli')
    bo = _binops(dv)
    masks = sorted(c for op, c, txt, i in bo if op == 'BitAnd')
    ctx.ob(masks == [127, 128], 'decode_vli masks the value bits with 0x7F and the continuation bit with 0x80 (%s)' % masks, 'vbi|decode|masks', loc=dv.loc(), rule='R-C03-7')
    ctx.ob(any(op in ('Add', 'AddWithOverflow', 'Mul', 'MulWithOverflow') and c == 7 for op, c, txt, i in bo) and any(op == 'Shl' and 'BitAnd 127' in txt for op, c, txt, i in bo) and
           any(op == 'BitOr' and txt.startswith('(value BitOr ') for op, c, txt, i in bo), 'decode_vli accumulates 7 bits per byte, least significant group first', 'vbi|decode|shift', loc=dv.loc(), rule='R-C03-7')
    alltxt = [txt for op, c, txt, i in bo] + [g for i_ in dv.live_blocks() for g in prims.guard_strs_plain(dv, i_)]
    ctx.ob(any(re.search(r'BitAnd 128\) (Ne|Eq|==|!=) 0\)', x) for x in alltxt), 'decode_vli decides continuation by bit 7 of the byte', 'vbi|decode|continuation', loc=dv.loc(), rule='R-C03-7')
    okv = [(b, show(e)) for b, e in prims.ret_variants(dv) if 'DecodeVliResult::Value{' in show(e)]
    ctx.ob(len(okv) == 1 and re.search(r"^Result::Ok\{0: DecodeVliResult::Value\{0: value, 1: Index::index\(buffer, RangeFrom\{start: \(\(.* AddWithOverflow 1\)\)\.0\}\)\}\}$", okv[0][1]) is not None,
           'decode_vli returns the accumulated value and the bytes after the last length byte', 'vbi|decode|value', loc=dv.loc(), rule='R-C03-7')
    def _resolved_guards(view, bb):
        out = []
        for g in prims.guard_strs_plain(view, bb):
            m = re.match(r'^(!?)(\w+)$', g)
            if m:
                ds = [show(e) for b_, e in var_inits(view, m.group(2))]
                if len(ds) == 1:
                    g = m.group(1) + ds[0]
            out.append(g)
        return out
    CLEAR = re.compile(r'^(!\(.* BitAnd 128\) (Ne|!=) 0\)|\(.* BitAnd 128\) (Eq|==) 0\)|!\(128 <= .*\)|\(.* < 128\))$')
    SETB = re.compile(r'^(\(.* BitAnd 128\) (Ne|!=) 0\)|!\(.* BitAnd 128\) (Eq|==) 0\)|\(128 <= .*\)|!\(.* < 128\))$')
    gv = _resolved_guards(dv, okv[0][0]) if okv else []
    ctx.ob(any(CLEAR.match(g) for g in gv) and not any(SETB.match(g) for g in gv), 'decode_vli finishes exactly at the first byte whose continuation bit is clear (guards of the Value return: %s)' % gv[-2:], 'vbi|decode|polarity', loc=dv.loc(), rule='R-C03-7')
    fours = [show(c.arg(k)) for c in dv.calls() for k in range(len(c.args)) if c.nfn.split('::')[-1] in ('into_iter', 'take')]
    ctx.ob(any(re.search(r'Range\{start: 0, end: 4\}', x) or x == '4' for x in fours) or any(op in ('Lt', 'Ge') and c == 4 for op, c, txt, i in bo), 'decode_vli reads at most four bytes', 'vbi|decode|four', loc=dv.loc(), rule='R-C03-7')

    # ------------------------------------------------------------ R-C03-4
    ctx.rule('R-C03-4', 'T2 + T1', 'the body state is entered only under total_packet_size <= maximum; body bytes are buffered only in the body-state function; cross-call decoder state is written only by the three state functions and reset')
    DEC = 'decode::Decoder'
    writes = prims.field_mutations(F, DEC, 'src/decode.rs')
    by = {}
    for f, m in writes:
        by.setdefault(f, []).append(m)
    for m in by.get('state', []):
        if m.kind == 'assign' and show(m.rv) == 'DecoderState::ReadPacketBody{}':
            prims.requires(ctx, m.view, m.bb, [r'^\(.* <= maximum_size\)$|^\(\(\(.*AddWithOverflow.*\)\)\.0 <= maximum_size\)$'], 'size-check', 'entering the body state', loc=m.loc())
            # remaining_length := Some in the same straight-line region
            rl = [x for x in by.get('remaining_length', []) if x.view.key == m.view.key and x.kind == 'assign' and show(x.rv).startswith('Option::Some{')]
            ctx.ob(any(x.bb == m.bb or m.view.dominates(x.bb, m.bb) for x in rl), 'remaining_length := Some(..) accompanies the transition to the body state (invariant I-dec-1)', 'inv|remaining_length', loc=m.loc())
        if m.kind == 'assign' and show(m.rv) == 'DecoderState::ReadTotalRemainingLength{}':
            fb = [x for x in by.get('first_byte', []) if x.view.key == m.view.key and x.kind == 'assign' and show(x.rv).startswith('Option::Some{')]
            ctx.ob(any(x.bb == m.bb or m.view.dominates(x.bb, m.bb) for x in fb), 'first_byte := Some(..) accompanies the transition out of the type state (invariant I-dec-2)', 'inv|first_byte', loc=m.loc())
    for f in ('remaining_length', 'first_byte'):
        for m in by.get(f, []):
            if m.kind == 'assign' and show(m.rv) == 'Option::None{}':
                st = [x for x in by.get('state', []) if x.view.key == m.view.key and show(x.rv) == 'DecoderState::ReadPacketType{}']
                ctx.ob(bool(st), '%s is cleared only together with state := ReadPacketType' % f, 'inv-clear|' + f, loc=m.loc())
    allowed = {'process_read_packet_type', 'process_read_total_remaining_length', 'process_read_packet_body', 'reset', 'decode_bytes', 'new'}
    nst = 0
    for f, ms in by.items():
        for m in ms:
            nst += 1
            fn_ = m.view.path.split('::')[-1]
            ctx.ob(fn_ in allowed, 'decoder field `%s` written in %s' % (f, fn_), 'decwriter|%s|%s' % (f, fn_), loc=m.loc())
            if f == 'scratch' and m.method in ('extend_from_slice', 'push', 'extend'):
                ctx.ob(fn_ in ('process_read_packet_body', 'process_read_total_remaining_length'), 'scratch buffer grows only in the length/body state functions (%s)' % fn_, 'scratch-grow|' + fn_, loc=m.loc())
    ctx.floor(nst, 10, 'decoder state writes')
    db = ctx.fn('Decoder::decode_bytes')
    for cs in db.calls():
        for nm, st in (('process_read_packet_body', 'ReadPacketBody'), ('process_read_total_remaining_length', 'ReadTotalRemainingLength'), ('process_read_packet_type', 'ReadPacketType')):
            if cs.nfn.endswith(nm):
                prims.requires(ctx, db, cs.bb, [r'^self\.state is %s$' % st], 'state-dispatch|' + nm, 'calling ' + nm, loc=cs.loc())

    # ------------------------------------------------------------ R-C03-8 (added after seed C03-2)
    ctx.rule('R-C03-8', 'T9 value flow', 'the maximum packet size in force for inbound traffic is the one this client announced in its CONNECT (specification maximum when it announced none): that value, and nothing derived from CONNACK or connection state, flows into the decoder\'s size comparison on every call')
    gm = ctx.fn('ProtocolState::get_maximum_incoming_packet_size')
    rvs = [(show(e), guard_strs(gm, b)) for b, e in prims.ret_variants(gm)]
    ok = len(rvs) == 2 and any(x == 'self.config.connect_options.maximum_packet_size_bytes@Some.0' and 'self.config.connect_options.maximum_packet_size_bytes is Some' in g for x, g in rvs) \
        and any(x == 'MAXIMUM_VARIABLE_LENGTH_INTEGER as u32' and 'self.config.connect_options.maximum_packet_size_bytes is None' in g for x, g in rvs)
    ctx.ob(ok, 'the inbound limit is the CONNECT option when set and the specification maximum otherwise, on every path (%s)' % [x for x, g in rvs], 'limit|source', loc=gm.loc())
    flds = prims.self_fields_read(F, gm, 1)
    ctx.ob(flds == {'config'}, 'the inbound limit depends on the configuration only, not on connection state (fields read: %s)' % sorted(flds), 'limit|state-free', loc=gm.loc())
    dflt = [fold(e) for b, e in prims.ret_variants(gm) if show(e) == 'MAXIMUM_VARIABLE_LENGTH_INTEGER as u32']
    ctx.ob(dflt == [268435455], 'the default limit evaluates to 268435455, the largest remaining length the specification can express (1.5.5) (%s)' % dflt, 'limit|const', loc=gm.loc())
    hid = ctx.fn('ProtocolState::handle_network_event_incoming_data')
    dctx = [e for (i, j, s_) in hid.stmts() if s_['k'] == 'assign' for e in [hid.rvalue_expr(s_['rv'], i)] if e[0] == 'agg' and e[1].endswith('DecodingContext')]
    dctx = list({show(e): e for e in dctx}.values())
    ctx.ob(len(dctx) == 1 and show(dict(dctx[0][3]).get('maximum_packet_size')) == 'ProtocolState::get_maximum_incoming_packet_size(self)' and show(dict(dctx[0][3]).get('protocol_version')) == 'self.protocol_version',
           'every decode call receives that limit and the engine\'s protocol version', 'limit|context', loc=hid.loc())
    dbs = hid.calls('Decoder::decode_bytes')
    ctx.ob(len(dbs) == 1 and show(dbs[0].arg(1)) == 'data' and show(dbs[0].arg(2)) == 'decode_context', 'the received bytes and that context are what the decoder is given', 'limit|decode-call', loc=hid.loc())
    plr = ctx.fn('Decoder::process_read_total_remaining_length')
    from ..mir import var_inits as _vi
    from ..mir import sum_terms
    # the comparison that protects the body-state transition, whatever its shape: (TOTAL <= LIMIT)
    body_w = [i_ for (i_, s_, pe, rve) in plr.field_writes() if show(pe) == 'self.state' and show(rve) == 'DecoderState::ReadPacketBody{}']
    cmps = []
    for i_ in body_w:
        for a_ in plr.guards(i_):
            if a_[0] == 'truth' and a_[2] and a_[1][0] == 'cmp' and a_[1][1] == 'Le':
                cmps.append(a_[1])
    ctx.ob(len(body_w) == 1 and len(cmps) == 1, 'the body state is entered under exactly one size comparison', 'limit|compare-site', loc=plr.loc())
    if len(cmps) == 1:
        tot, lim = cmps[0][2], cmps[0][3]
        def values(e):
            if e[0] == 'var' and not e[2]:
                vs = [(show(x), guard_strs(plr, b)) for b, x in _vi(plr, e[1])]
                return vs or [(show(e), [])]
            if e[0] == 'phi':
                return [(show(x), guard_strs(plr, b)) for b, x in plr.phi_defs(e[1])]
            return [(show(e), [])]
        lv = values(lim)
        ok = sorted(x for x, g in lv) == ['MAXIMUM_VARIABLE_LENGTH_INTEGER as u32', 'context.maximum_packet_size'] and \
            any(x == 'MAXIMUM_VARIABLE_LENGTH_INTEGER as u32' and any(re.match(r'^\((maximum_size|context\.maximum_packet_size) == 0\)$', y) for y in g) for x, g in lv)
        ctx.ob(ok, 'the comparison uses the context\'s limit (0 meaning the specification maximum) (%s)' % [x for x, g in lv], 'limit|compare-source', loc=plr.loc())
        tv = values(tot)
        terms = [sum_terms(e_) for b_, e_ in (_vi(plr, tot[1]) if tot[0] == 'var' and not tot[2] else [(0, tot)])]
        want_t = sorted(['(decode::decode_vli(Deref::deref(self.scratch)))@Ok.0@Value.0', '1', 'Vec::len(self.scratch) as u32'])
        ctx.ob(terms == [want_t], 'the size compared is the whole packet: remaining length + first byte + length-field bytes (%s)' % terms, 'limit|total', loc=plr.loc())

    # (added after seed C03-3a) a decoding failure is scoped to its connection: the per-connection reset restores every decoder field, also out of the latched error state
    rcn = ctx.fn('Decoder::reset_for_new_connection')
    eff_ = prims.must_field_effects(F, rcn)
    for f_, w_ in sorted({'state': 'DecoderState::ReadPacketType{}', 'scratch': 'clear()', 'first_byte': 'Option::None{}', 'remaining_length': 'Option::None{}'}.items()):
        ctx.ob(w_ in eff_.get(f_, set()), 'Decoder::reset_for_new_connection performs `%s := %s` on every path, whatever state the decoder is in (found %s)' % (f_, w_, sorted(eff_.get(f_, []))), 'newconn-reset|' + f_, loc=rcn.loc(), rule='R-C03-4')

    # ------------------------------------------------------------ R-C03-6
    ctx.rule('R-C03-6', 'T9 value flow', 'stream consumption arithmetic: each state function consumes exactly what it buffers/decodes and hands the untouched remainder back, so the decoded packets depend only on the concatenated stream (necessary for chunking invariance)')
    N = r'\(\(Option::unwrap\(self\.remaining_length\) SubWithOverflow Vec::len\(self\.scratch\)\)\)\.0'
    pb = ctx.fn('Decoder::process_read_packet_body')
    rv = prims.ret_variants(pb)
    ood = [(b, e) for b, e in rv if 'DecoderDirective::OutOfData' in show(e)]
    cont = [(b, e) for b, e in rv if 'DecoderDirective::Continue' in show(e)]
    ext_all = [c for c in pb.calls('Vec::extend_from_slice') if show(c.arg(0)) == 'self.scratch' and show(c.arg(1)) == 'bytes']
    ok = len(ood) == 1 and len(ext_all) == 1 and guarded_any(pb, ood[0][0], [r'^\(slice::len\(bytes\) < ' + N + r'\)$']) and (pb.dominates(ext_all[0].bb, ood[0][0])) \
        and re.search(r'1: \(array\)\{\} as &\[u8\]\}$', show(ood[0][1])) is not None
    ctx.ob(ok, 'body state, not enough input: the whole chunk is buffered and nothing is left over', 'consume|body|short', loc=pb.loc())
    ok = len(cont) == 1 and re.search(r'1: Index::index\(bytes, RangeFrom\{start: ' + N + r'\}\)\}$', show(cont[0][1])) is not None
    ctx.ob(ok, 'body state, packet complete: the remainder handed back starts exactly after the bytes this packet needed', 'consume|body|rest', loc=pb.loc())
    ps = [(show(e), guard_strs(pb, b)) for b, e in var_inits(pb, 'packet_slice')]
    ok = len(ps) == 2 and any(s_ == 'Deref::deref(self.scratch)' and '!Vec::is_empty(self.scratch)' in g for s_, g in ps) and \
        any(re.match(r'^Index::index\(bytes, RangeTo\{end: ' + N + r'\}\)$', s_) and 'Vec::is_empty(self.scratch)' in g for s_, g in ps)
    ctx.ob(ok, 'the packet body is either the scratch buffer (when something was buffered) or exactly bytes[..needed]', 'consume|body|slice', loc=pb.loc())
    ext_part = [c for c in pb.calls('Vec::extend_from_slice') if show(c.arg(0)) == 'self.scratch' and re.match(r'^Index::index\(bytes, RangeTo\{end: ' + N + r'\}\)$', show(c.arg(1)))]
    ctx.ob(len(ext_part) == 1 and guarded_any(pb, ext_part[0].bb, [r'^!Vec::is_empty\(self\.scratch\)$']), 'a partially buffered packet is completed with exactly the bytes it still needed', 'consume|body|complete', loc=pb.loc())
    dpk = pb.calls('decode::decode_packet')
    ctx.ob(len(dpk) == 1 and show(dpk[0].arg(0)) == 'Option::unwrap(self.first_byte)' and show(dpk[0].arg(1)) == 'packet_slice' and show(dpk[0].arg(2)) == 'context.protocol_version', 'the packet is decoded from the saved first byte and that body slice', 'consume|body|decode-args', loc=pb.loc())
    rs = pb.calls('Decoder::reset_for_new_packet')
    ctx.ob(len(rs) == 1 and cont and pb.dominates(rs[0].bb, cont[0][0]) and guarded_any(pb, rs[0].bb, [r'^decode::decode_packet\(.*\) is Ok$']), 'per-packet state is reset before the next packet is read', 'consume|body|reset', loc=pb.loc())
    pl = ctx.fn('Decoder::process_read_total_remaining_length')
    rvl = prims.ret_variants(pl)
    nonempty = [(b, e) for b, e in rvl if not guarded_any(pl, b, [r'^slice::is_empty\(bytes\)$'])]
    push = [c for c in pl.calls('Vec::push') if show(c.arg(0)) == 'self.scratch' and show(c.arg(1)).startswith('bytes[')]
    ok = bool(nonempty) and len(push) == 1 and all(re.search(r'1: Index::index\(bytes, RangeFrom\{start: 1\}\)\}$', show(e)) for b, e in nonempty) and all(pl.dominates(push[0].bb, b) for b, e in nonempty)
    ctx.ob(ok, 'length state: exactly one byte is buffered and consumed per step', 'consume|length', loc=pl.loc())
    pt = ctx.fn('Decoder::process_read_packet_type')
    rvt = [(b, e) for b, e in prims.ret_variants(pt) if not guarded_any(pt, b, [r'^slice::is_empty\(bytes\)$'])]
    fbw = [m for m in prims.mutations(pt) if m.kind == 'assign' and show(m.path) == 'self.first_byte']
    ok = len(rvt) == 1 and re.search(r'0: DecoderDirective::Continue\{\}, 1: Index::index\(bytes, RangeFrom\{start: 1\}\)\}$', show(rvt[0][1])) is not None and len(fbw) == 1 and re.match(r'^Option::Some\{0: bytes\[', show(fbw[0].rv)) is not None
    ctx.ob(ok, 'type state: the first byte is saved and exactly one byte consumed', 'consume|type', loc=pt.loc())
    # the driver loop threads the returned remainder into the next state function
    for cs in db.calls():
        if cs.nfn.split('::')[-1].startswith('process_read_'):
            ctx.ob(show(cs.arg(1)) == 'current_slice', '%s is fed the remainder returned by the previous step' % cs.nfn.split('::')[-1], 'consume|loop|' + cs.nfn.split('::')[-1], loc=cs.loc())
    cur = [show(e) for _, e in var_inits(db, 'current_slice')]
    ctx.ob('bytes' in cur and sum(1 for c in cur if re.search(r'process_read_\w+\(.*\)\)\.1$', c)) == 3, 'the loop variable is the input chunk, then each step\'s returned remainder (%d assignments)' % len(cur), 'consume|loop|var', loc=db.loc())
    te = [(i, s_) for (i, s_, pe, rve) in db.field_writes() if show(pe) == 'self.state' and show(rve) == 'DecoderState::TerminalError{}']
    ctx.ob(len(te) == 1 and guarded_any(db, te[0][0], [r'^decode_result is TerminalError$']), 'a terminal error latches the decoder', 'consume|loop|latch', loc=db.loc())

    # ---- added after the mutation sweep: the state transitions themselves (each step leaves the decoder in the state the next byte needs)
    def _writes(view):
        return {(show(pe), show(rve)): i_ for (i_, s_, pe, rve) in view.field_writes()}
    wt = _writes(pt)
    contb = [b_ for b_, e_ in prims.ret_variants(pt) if 'DecoderDirective::Continue' in show(e_)]
    k_ = ('self.state', 'DecoderState::ReadTotalRemainingLength{}')
    ctx.ob(k_ in wt and bool(contb) and all(pt.dominates(wt[k_], b_) for b_ in contb), 'type state: a consumed first byte moves the decoder to the length state', 'transition|type', loc=pt.loc(), rule='R-C03-4')
    wl = _writes(pl)
    contl = [b_ for b_, e_ in prims.ret_variants(pl) if 'DecoderDirective::Continue' in show(e_) and guarded_any(pl, b_, [r' is Value$'])]
    kb = ('self.state', 'DecoderState::ReadPacketBody{}')
    krl = [k for k in wl if k[0] == 'self.remaining_length' and re.match(r'^Option::Some\{0: \(decode::decode_vli\(Deref::deref\(self\.scratch\)\)\)@Ok\.0@Value\.0 as usize\}$', k[1])]
    clr = [m_.bb for m_ in prims.mutations(pl) if m_.kind == 'mutcall' and m_.method == 'clear' and show(m_.path) == 'self.scratch']
    ok = len(contl) == 1 and kb in wl and len(krl) == 1 and len(clr) == 1 and all(pl.dominates(x, contl[0]) for x in (wl[kb], wl[krl[0]], clr[0]))
    ctx.ob(ok, 'length state: a complete, admissible length stores the remaining length, empties the scratch buffer and moves to the body state before the step continues', 'transition|length', loc=pl.loc(), rule='R-C03-4')
    pbk = [m_ for m_ in prims.mutations(pb) if show(m_.path) == 'context.decoded_packets']
    ok = len(pbk) == 1 and pbk[0].method == 'push_back' and cont and pb.dominates(pbk[0].bb, cont[0][0]) and guarded_any(pb, pbk[0].bb, [r'^decode::decode_packet\(.*\) is Ok$'])
    ctx.ob(ok, 'body state: every decoded packet is appended at the back of the output queue (wire order) before the step continues', 'transition|emit', loc=pb.loc(), rule='R-C03-4')
    rvd = prims.ret_variants(db)
    errs_d = [(b_, show(e_)) for b_, e_ in rvd if e_[0] == 'agg' and e_[2] == 'Err']
    ok = prims.rets_after(db, [r'^decode_result is TerminalError$']) == {'Err'} and len(errs_d) == 1 and errs_d[0][1] == 'Result::Err{0: decode_result@TerminalError.0}'
    ctx.ob(ok, 'a terminal error of any step is what decode_bytes returns (never Ok)', 'transition|error-out', loc=db.loc(), rule='R-C03-4')
    rst_ = ctx.fn('Decoder::reset')
    eff_r = prims.must_field_effects(F, rst_)
    for f_, w_ in sorted({'state': 'DecoderState::ReadPacketType{}', 'scratch': 'clear()', 'first_byte': 'Option::None{}', 'remaining_length': 'Option::None{}'}.items()):
        ctx.ob(w_ in eff_r.get(f_, set()), 'Decoder::reset performs `%s := %s`' % (f_, w_), 'transition|reset|' + f_, loc=rst_.loc(), rule='R-C03-4')
    rnp = ctx.fn('Decoder::reset_for_new_packet')
    rcl = rnp.calls('Decoder::reset')
    gs_ = prims.guard_strs_plain(rnp, rcl[0].bb) if len(rcl) == 1 else None
    ctx.ob(gs_ is not None and gs_ in ([], ['!(self.state == DecoderState::TerminalError{})']), 'after a packet the per-packet state is reset (unless the decoder is latched) (%s)' % gs_, 'transition|packet-reset', loc=rnp.loc(), rule='R-C03-4')

    # ---- added after the mutation sweep: the primitives accept a field that exactly fills the rest of the packet (bounds are exact)
    npb = 0
    for v_ in F.fns_in('decode.rs'):
        n_ = v_.path.split('::')[-1]
        if not n_.startswith('decode_') or v_.f.get('parent') or n_ in ('decode_bytes', 'decode_vli', 'decode_vli_into_mutable') or 'length_prefixed_optional_string' in n_:
            continue
        for b_, e_ in prims.ret_variants(v_):
            x_ = show(e_)
            m1 = re.match(r'^Result::Ok\{0: Index::index\(bytes, RangeFrom\{start: (\d+)\}\)\}$', x_)
            m2 = re.match(r'^Result::Ok\{0: Index::index\(Index::index\(bytes, RangeFrom\{start: 2\}\), RangeFrom\{start: (.*)\}\)\}$', x_)
            if not (m1 or m2):
                continue
            npb += 1
            lens = [g for g in prims.guard_strs_plain(v_, b_) if re.search(r'slice::(len|is_empty)\(', g)]
            if m1:
                k_ = int(m1.group(1))
                want = [['(%d <= slice::len(bytes))' % k_]] + ([['!slice::is_empty(bytes)']] if k_ == 1 else [])
                ctx.ob(lens in want, '%s consumes %d byte(s) and rejects exactly the inputs shorter than that (%s)' % (n_, k_, lens), 'prim-bound|' + n_, loc=v_.loc(), rule='R-C03-6')
            else:
                ln_ = m2.group(1)
                okp = len(lens) == 2 and lens[0] == '(2 <= slice::len(bytes))' and re.match(r'^\(num::from_be_bytes\(.*Index::index\(bytes, RangeTo\{end: 2\}\).* as usize <= slice::len\(Index::index\(bytes, RangeFrom\{start: 2\}\)\)\)$', lens[1]) is not None
                ctx.ob(okp and ln_.startswith('num::from_be_bytes('), '%s needs the two prefix bytes and exactly the announced number of bytes after them; a field that ends the packet is accepted (%s)' % (n_, [l_[:40] for l_ in lens]), 'prim-bound|' + n_, loc=v_.loc(), rule='R-C03-6')
    ctx.floor(npb, 9, 'fixed-width / length-prefixed decode primitives')
    # byte-encoded booleans (2.2.2.2 properties 0x01, 0x19, 0x25, 0x28-0x2A; the CONNACK flags): 0 -> false, 1 -> true, anything else malformed
    dbl = ctx.fn('decode::decode_optional_u8_as_bool')
    def _norm_idx(g):
        return re.sub(r'bytes\[_\d+\]', 'bytes[0]', g)
    wr_b = {}
    for (i_, j_, s_) in dbl.stmts():
        if s_['k'] == 'assign' and s_['lhs']['p'] and show(dbl.place_expr(s_['lhs'])) == 'value':
            wr_b[show(dbl.rvalue_expr(s_['rv'], i_))] = [_norm_idx(g) for g in prims.guard_strs_plain(dbl, i_) if 'bytes[' in g]
    errs_b = sorted(tuple(_norm_idx(g) for g in prims.guard_strs_plain(dbl, b_) if 'bytes[' in g) for b_, e_ in prims.ret_variants(dbl) if e_[0] == 'agg' and e_[2] == 'Err' and any('bytes[' in g for g in prims.guard_strs_plain(dbl, b_)))
    ctx.ob(wr_b == {'Option::Some{0: False}': ['(bytes[0] == 0)'], 'Option::Some{0: True}': ['!(bytes[0] == 0)', '(bytes[0] == 1)']} and errs_b == [('!(bytes[0] == 0)', '!(bytes[0] == 1)')],
           'a byte-encoded boolean decodes 0 to false, 1 to true and rejects every other value (%s; rejects: %s)' % (wr_b, errs_b), 'prim-bool', loc=dbl.loc(), rule='R-C03-6')

    # ------------------------------------------------------------ R-C03-5
    ctx.rule('R-C03-5', 'T7 panic inventory', 'no panic-capable construct on the decode path (index, range, unwrap, explicit panic) is reachable without a dominating guard that makes it safe')
    TABLE = {
        'Decoder::process_read_packet_body|unwrap|Option::unwrap(self.remaining_length)': 'I-dec-1: state ReadPacketBody implies remaining_length is Some (maintained by R-C03-4)',
        'Decoder::process_read_packet_body|unwrap|Option::unwrap(self.first_byte)': 'I-dec-2: first_byte is Some after the type state (maintained by R-C03-4)',
    }
    R = [v for v in F.reachable_from([db]) if not v.file.endswith('logging.rs')]
    tot = 0
    for v in sorted(R, key=lambda x: x.path):
        ctx.touch(v)
        for s in panics.panic_sites(v):
            tot += 1
            r = panics.discharge(s) or TABLE.get(s.key())
            ctx.ob(r is not None, 'decode path: %s in %s %s' % (s.what[:80], short(v.path), ('— ' + r) if r else 'is not protected by any recognised guard'),
                   'panic|' + s.key(), loc=s.loc(), detail=None if r else 'guards: ' + ' ; '.join(prims.guard_strs(v, s.bb)))
    ctx.floor(tot, 80, 'panic-capable sites on the decode path')
    ctx.floor(len(R), 70, 'bodies reachable from Decoder::decode_bytes')



# ---------------------------------------------------------------------------------------------
# R-C03-7: decoder wire layout (specification sections 3.2, 3.3, 3.4-3.7, 3.9, 3.11, 3.14, 3.15)
def _tree(*items):
    """Expected wire graph from a compact tree: items are (label, parent_labels...)."""
    return {lab: frozenset(par) for lab, *par in items}


RC = 'decode_u8_as_enum -> packet.reason_code'
PID = 'decode_u16 -> packet.packet_id'
PLEN = 'decode_vli_into_mutable -> $len'
TOPIC = 'decode_length_prefixed_string -> packet.topic'


def _ack5(var):
    return _tree((PID, 'START'), (RC, PID), (PLEN, RC), ('decode_%s_properties -> packet' % var.lower(), PLEN))


def _sub5(var):
    return _tree((PID, 'START'), (PLEN, PID), ('to:$len', PLEN), ('from:$len', PLEN),
                 ('decode_%s_properties -> packet' % var.lower(), 'to:$len'), ('iter', 'from:$len'))


LAYOUTS = {
    ('Connack', '5'): _tree(('byte[0] -> $byte', 'START'), ('from:1', 'START'), (RC, 'from:1'), (PLEN, RC), ('decode_connack_properties -> packet', PLEN)),
    ('Connack', '311'): _tree(('byte[0] -> $byte', 'START'), ('from:1', 'START'), (RC, 'from:1')),
    ('Publish', '5'): _tree((TOPIC, 'START'), (PID, TOPIC), (PLEN, TOPIC, PID), ('to:$len', PLEN), ('from:$len', PLEN),
                            ('decode_publish_properties -> packet', 'to:$len'), ('to_vec', 'from:$len')),
    ('Publish', '311'): _tree((TOPIC, 'START'), (PID, TOPIC), ('to_vec', TOPIC, PID)),
    ('Puback', '5'): _ack5('Puback'), ('Pubrec', '5'): _ack5('Pubrec'), ('Pubrel', '5'): _ack5('Pubrel'), ('Pubcomp', '5'): _ack5('Pubcomp'),
    ('Puback', '311'): _tree((PID, 'START')), ('Pubrec', '311'): _tree((PID, 'START')), ('Pubrel', '311'): _tree((PID, 'START')), ('Pubcomp', '311'): _tree((PID, 'START')),
    ('Suback', '5'): _sub5('Suback'), ('Unsuback', '5'): _sub5('Unsuback'),
    ('Suback', '311'): _tree((PID, 'START'), ('iter', PID)),
    ('Unsuback', '311'): _tree((PID, 'START')),
    ('Disconnect', '5'): _tree((RC, 'START'), (PLEN, RC), ('decode_disconnect_properties -> packet', PLEN)),
    ('Auth', '5'): _tree((RC, 'START'), (PLEN, RC), ('decode_auth_properties -> packet', PLEN)),
    ('Pingresp', '5'): {}, ('Pingresp', '311'): {}, ('Disconnect', '311'): {},
}


def run_layout(ctx, F):
    from .. import cursor
    n = 0
    for (var, ver), want in sorted(LAYOUTS.items()):
        name = '%s::decode_%s_packet%s' % (var.lower(), var.lower(), '' if var == 'Pingresp' else ver)
        v = ctx.try_fn(name)
        if v is None:
            continue
        steps, cur = cursor.chain(v)
        got = {}
        # local names are roles, not part of the layout: the VBI-decoded local is `$len`, a byte read lands in `$byte`
        lens = {st.dest for st in steps if st.what == 'decode_vli_into_mutable' and st.dest and re.match(r'^\w+$', st.dest)}
        def role(lab):
            lab = re.sub(r' -> \(AsMut::as_mut\(\w+\)\)@\w+\.0$', ' -> packet', lab)
            for L in lens:
                lab = re.sub(r'(^(?:to|from):|-> )%s$' % re.escape(L), r'\1$len', lab)
            lab = re.sub(r'^(byte\[\d+\]) -> \w+$', r'\1 -> $byte', lab)
            return lab
        for lab, preds in cursor.wire_graph(steps):
            got[role(lab)] = frozenset(role(x) for x in preds)
        n += 1
        for lab in sorted(set(want) | set(got)):
            w, g = want.get(lab), got.get(lab)
            if w is None:
                ctx.ob(False, '%s (MQTT %s): unexpected wire step `%s` after %s (not part of the specification layout)' % (var, ver, lab, sorted(g)), 'layout|%s|%s|extra|%s' % (var, ver, lab), loc=v.loc())
            elif g is None:
                ctx.ob(False, '%s (MQTT %s): wire step `%s` is missing from the cursor chain' % (var, ver, lab), 'layout|%s|%s|missing|%s' % (var, ver, lab), loc=v.loc())
            else:
                ctx.ob(w == g, '%s (MQTT %s): `%s` reads the cursor left by %s%s' % (var, ver, lab, sorted(w), '' if w == g else ' — found %s' % sorted(g)),
                       'layout|%s|%s|%s' % (var, ver, lab), loc=v.loc())
        if PLEN in want:
            # the announced property length must fit what is left of the packet (== for packets that end with their properties)
            r_eq = prims.rets_after(v, [r'^!\(\w+ == slice::len\(\w+\)\)$'])
            r_lt = prims.rets_after(v, [r'^\(slice::len\(\w+\) < \w+\)$'])
            ends_with_props = 'to:$len' not in want
            ctx.ob((r_eq == {'Err'}) if ends_with_props else (r_lt == {'Err'}),
                   '%s (MQTT %s): a property length that %s is a decoding error (%s)' % (var, ver, 'differs from the bytes left' if ends_with_props else 'exceeds the bytes left', sorted((r_eq if ends_with_props else r_lt) or ['test not found'])),
                   'layout|%s|%s|proplen-check' % (var, ver), loc=v.loc())
        # field-level semantics around the chain
        fw = [(i, show(pe), show(rve)) for (i, s_, pe, rve) in v.field_writes()]
        if var == 'Publish':
            calls_pid = [c for c in v.calls('decode::decode_u16') if show(c.arg(1)).endswith('.packet_id')]
            ctx.ob(len(calls_pid) == 1 and guarded_any(v, calls_pid[0].bb, [r'^!\(.*\.qos == QualityOfService::AtMostOnce\{\}\)$']) and
                   not guarded_any(v, calls_pid[0].bb, [r'ExactlyOnce']), 'PUBLISH (MQTT %s): the packet identifier is read exactly when QoS > 0' % ver, 'layout|Publish|%s|pid-guard' % ver, loc=v.loc())
            dup = [(i, p_, r_) for i, p_, r_ in fw if p_.endswith('.duplicate') and r_ == 'True']
            ret = [(i, p_, r_) for i, p_, r_ in fw if p_.endswith('.retain') and r_ == 'True']
            qos = [(i, p_, r_) for i, p_, r_ in fw if p_.endswith('.qos')]
            ctx.ob(len(dup) == 1 and guarded_any(v, dup[0][0], [r'^!\(\(first_byte BitAnd PUBLISH_PACKET_FIXED_HEADER_DUPLICATE_FLAG\) == 0\)$']), 'PUBLISH (MQTT %s): DUP is bit 3 of the first byte' % ver, 'layout|Publish|%s|dup' % ver, loc=v.loc())
            ctx.ob(len(ret) == 1 and guarded_any(v, ret[0][0], [r'^!\(\(first_byte BitAnd PUBLISH_PACKET_FIXED_HEADER_RETAIN_FLAG\) == 0\)$']), 'PUBLISH (MQTT %s): RETAIN is bit 0 of the first byte' % ver, 'layout|Publish|%s|retain' % ver, loc=v.loc())
            ctx.ob(len(qos) == 1 and 'TryFrom::try_from(((first_byte Shr 1) BitAnd QOS_MASK))' in qos[0][2], 'PUBLISH (MQTT %s): QoS is bits 2-1 of the first byte, converted fallibly' % ver, 'layout|Publish|%s|qos' % ver, loc=v.loc())
            pay = [(i, p_, r_) for i, p_, r_ in fw if p_.endswith('.payload')]
            ctx.ob(len(pay) == 1 and re.match(r'^Option::Some\{0: slice::to_vec\(', pay[0][2]) is not None, 'PUBLISH (MQTT %s): the payload is the copied remainder' % ver, 'layout|Publish|%s|payload' % ver, loc=v.loc())
        if var == 'Connack':
            sp = [(i, p_, r_) for i, p_, r_ in fw if p_.endswith('.session_present')]
            ctx.ob(len(sp) == 1 and sp[0][2] == 'True' and guarded_any(v, sp[0][0], [r'^\(\w+\[_?\d+\] == 1\)$']), 'CONNACK (MQTT %s): session present is bit 0 of the acknowledge-flags byte' % ver, 'layout|Connack|%s|session-present' % ver, loc=v.loc())
            ra = prims.rets_after(v, [r'^!\(\w+\[_?\d+\] == 1\)$', r'^!\(\w+\[_?\d+\] == 0\)$'])
            ctx.ob(ra == {'Err'}, 'CONNACK (MQTT %s): any other value of the flags byte (reserved bits) is a decoding error (%s)' % (ver, sorted(ra or [])), 'layout|Connack|%s|reserved' % ver, loc=v.loc())
        if var in ('Suback', 'Unsuback') and ('iter' in want):
            conv = r'(?:\w+::)*convert_311_encoding_to_suback_reason_code' if ver == '311' else r'TryFrom::try_from'
            pu = [c for c in v.calls('Vec::push') if show(c.arg(0)).endswith('.reason_codes')]
            ctx.ob(len(pu) == 1 and re.search(r'^\(Try::branch\(%s\(\(Iterator::next\(iter\)\)@Some\.0\)\)\)@Continue\.0$' % conv, show(pu[0].arg(1))) is not None,
                   '%s (MQTT %s): every remaining byte becomes one reason code, in order, via the fallible conversion' % (var.upper(), ver), 'layout|%s|%s|reason-codes' % (var, ver), loc=v.loc())
    ctx.floor(n, 21, 'decoders with a checked wire layout')

# ---------------------------------------------------------------------------------------------
# R-C03-7 (outcome tables, added after the mutation sweep): which remaining-length conditions lead to acceptance / rejection in every
# inbound packet decoder, and when a payload is stored.  The layout graph above fixes the order of the fields; this table fixes the
# optional tails (MQTT 5 acks may stop after the packet id or after the reason code: 3.4.2.1, 3.4.2.2.1; a zero-length payload is valid).
_E, _NE = '(len($b) == 0)', '!(len($b) == 0)'
_L2, _NL2 = '(len($b) == 2)', '!(len($b) == 2)'
_P, _NP = '(properties_length == len($b))', '!(properties_length == len($b))'
_PF, _NPF = '(properties_length <= len($b))', '(len($b) < properties_length)'
_ACK5 = ({(_E,), (_NE, _E), (_NE, _NE, _P)}, {(_NE, _NE, _NP)}, None)
_ACK3 = ({(_L2,)}, {(_NL2,)}, None)
OUTCOMES = {
    ('Puback', '5'): _ACK5, ('Pubrec', '5'): _ACK5, ('Pubrel', '5'): _ACK5, ('Pubcomp', '5'): _ACK5, ('Disconnect', '5'): _ACK5,
    ('Puback', '311'): _ACK3, ('Pubrec', '311'): _ACK3, ('Pubrel', '311'): _ACK3, ('Pubcomp', '311'): _ACK3, ('Unsuback', '311'): _ACK3,
    ('Connack', '311'): ({(_L2,)}, {(_NL2,), (_L2,)}, None),
    ('Connack', '5'): ({(_NE, _P)}, {(_NE,), (_NE, _NP), (_E,)}, None),
    ('Disconnect', '311'): ({(_E,)}, {(_NE,), (_E,)}, None),
    ('Pingresp', '5'): ({(_E,)}, {(_NE,), (_E,)}, None),
    ('Auth', '5'): ({(_E,), (_NE, _P)}, {(_NE, _NP)}, None),
    ('Publish', '5'): ({(_PF,)}, {(_NPF,)}, {(_PF, '!(slice::len(Index::index(mutable_body, RangeFrom{start: properties_length})) == 0)')}),
    ('Publish', '311'): ({()}, set(), {(_NE,)}),
    ('Suback', '5'): ({(_PF,)}, {(_NPF,)}, None), ('Unsuback', '5'): ({(_PF,)}, {(_NPF,)}, None),
    ('Suback', '311'): ({()}, set(), None),
}


def _len_atoms(view, bb):
    out = []
    for g in prims.guard_strs_plain(view, bb):
        if g.startswith('Try::branch(') or not re.search(r'slice::(len|is_empty)\(|properties_length', g):
            continue
        g = re.sub(r'^(!?)slice::is_empty\((.*)\)$', lambda m: '%s(slice::len(%s) == 0)' % (m.group(1), m.group(2)), g)
        g = re.sub(r'slice::len\((\w+)\)', 'len($b)', g)
        g = re.sub(r'^\(0 == (.*)\)$', r'(\1 == 0)', g)
        out.append(g)
    return tuple(out)


def run_outcomes(ctx, F):
    n = 0
    for (var, ver), (ok_w, err_w, pay_w) in sorted(OUTCOMES.items()):
        name = '%s::decode_%s_packet%s' % (var.lower(), var.lower(), '' if var == 'Pingresp' else ver)
        v = ctx.try_fn(name)
        if v is None:
            continue
        n += 1
        oks, errs = set(), set()
        for b, e in prims.ret_variants(v):
            if e[0] == 'agg' and e[2] == 'Ok':
                oks.add(_len_atoms(v, b))
            elif e[0] == 'agg' and e[2] == 'Err':
                t = _len_atoms(v, b)
                if t:
                    errs.add(t)
        ctx.ob(oks == ok_w, '%s accepts exactly under the remaining-length conditions of the specification (optional tail fields may be absent; a tail that is present must fit) (accepting: %s)' % (short(v.path), sorted(oks)),
               'outcomes|accept|%s|%s' % (var, ver), loc=v.loc(), rule='R-C03-7')
        ctx.ob(errs == err_w, '%s rejects under exactly the complementary length conditions (%s)' % (short(v.path), sorted(errs)), 'outcomes|reject|%s|%s' % (var, ver), loc=v.loc(), rule='R-C03-7')
        if pay_w is not None:
            pw = {_len_atoms(v, i) for (i, s_, pe, rve) in v.field_writes() if show(pe).endswith('.payload')}
            ctx.ob(pw == pay_w, '%s stores a payload exactly when bytes remain after the header (%s)' % (short(v.path), sorted(pw)), 'outcomes|payload|%s|%s' % (var, ver), loc=v.loc(), rule='R-C03-7')
    if ctx.config == 'all':
        ctx.floor(n, 20, 'decoder outcome tables')
