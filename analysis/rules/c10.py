"""C10 — operations go out in submission order; retransmissions first after reconnect."""
import re
from ..mir import show, short, norm, subexprs
from .. import prims, statectx
from ..prims import requires, guard_strs, guarded_any, must_pass

EXPLANATION = ('Structural necessary conditions of ordering: queue priority (high priority, then resubmit, then user) with a blocked head '
               'never bypassed; operation ids are allocated monotonically and only at creation; user submissions append to the back of the '
               'user queue; after every CONNACK both queues are re-sorted by operation id on all exits; no dequeue can execute between '
               'close and CONNACK (typestate).')
ASSUMPTIONS = ['not decided: correctness of the in-place rotate_right/as_mut_slices sort for every ring-buffer layout (std VecDeque), and the order actually observed on the wire']
P = 'src/protocol.rs'
PS = 'protocol::ProtocolState'


def run(ctx):
    F = ctx.F
    dq = ctx.fn('ProtocolState::dequeue_operation')
    ctx.rule('R-C10-1', 'T2 must-dominate', 'resubmitted publishes are dequeued only when the high-priority queue is empty, user operations only when the resubmit queue is empty; a head blocked by flow control is never bypassed')
    pops = {}
    for m in prims.mutations(dq):
        f = prims.self_field(m.path)
        if m.kind == 'mutcall' and m.method in ('pop_front', 'pop_back', 'remove', 'swap_remove_front'):
            pops.setdefault(f, []).append(m)
    for f, need in (('resubmit_operation_queue', ['high_priority_operation_queue']), ('user_operation_queue', ['high_priority_operation_queue', 'resubmit_operation_queue'])):
        ms = pops.get(f, [])
        ctx.ob(len(ms) == 1 and ms[0].method == 'pop_front', '%s is consumed by exactly one pop_front' % f, 'pop-front|' + f, loc=dq.loc())
        for m in ms:
            requires(ctx, dq, m.bb, [r'^VecDeque::is_empty\(self\.%s\)$' % q for q in need], 'priority|' + f, 'dequeuing from ' + f, loc=m.loc())
    hp = pops.get('high_priority_operation_queue', [])
    ctx.ob(len(hp) == 1 and hp[0].method == 'pop_front', 'the high-priority queue is consumed by exactly one pop_front', 'pop-front|high_priority_operation_queue', loc=dq.loc())
    # blocked resubmit head: no path to the user pop
    blocked = prims.edge_nodes_matching(dq, [r'^!ProtocolState::does_operation_pass_receive_maximum_flow_control\(self, Option::unwrap\(VecDeque::front\(self\.resubmit_operation_queue\)\)\)$'])
    up = [m.bb for m in pops.get('user_operation_queue', [])]
    ok = len(blocked) == 1 and up and not (set(up) & dq.reach(blocked))
    ctx.ob(ok, 'when the resubmit head is blocked by flow control no path reaches the user-queue pop', 'no-bypass', loc=dq.loc())
    thr = [b for b, e in prims.ret_variants(dq) if show(e) == 'Option::None{}' and guarded_any(dq, b, [r'^ProtocolState::has_pending_ack\(self\)$'])]
    ctx.ob(bool(thr), 'the slow-start gate returns None before any queue below high priority is examined', 'gate-first', loc=dq.loc())

    ctx.rule('R-C10-2', 'T1 + T4', 'operation ids increase by one per created operation and are assigned nowhere else; the stored operation carries the pre-increment id')
    ws = [(f, m) for f, m in prims.field_mutations(F, PS, P) if f == 'next_operation_id']
    ctx.ob(len(ws) == 1 and show(ws[0][1].rv) == '((self.next_operation_id AddWithOverflow 1)).0', 'next_operation_id is only ever incremented by one (%s)' % [m.desc() for f, m in ws], 'opid-inc', loc=ws[0][1].loc() if ws else None)
    co = ctx.fn('ProtocolState::create_operation')
    ins = [m for m in prims.mutations(co) if prims.self_field(m.path) == 'operations' and m.method == 'insert']
    ok = len(ins) == 1 and show(ins[0].cs.arg(1)) == 'id' and show(dict(ins[0].cs.arg(2)[3]).get('id')) == 'id'
    from ..mir import var_inits
    from ..mir import var_init_sites, happens_before
    idi = var_init_sites(co, 'id')
    ok = ok and [show(e) for _, _, e in idi] == ['self.next_operation_id'] and bool(ws) and happens_before(co, (idi[0][0], idi[0][1]), ws[0][1].pos)
    ctx.ob(ok, 'create_operation snapshots the id before the increment and stores/returns it', 'opid-snapshot', loc=co.loc())
    new = ctx.fn('ProtocolState::new')
    init = None
    for (i, j, s) in new.stmts():
        if s['k'] == 'assign':
            e = new.rvalue_expr(s['rv'], i)
            if e[0] == 'agg' and e[1].endswith('ProtocolState'):
                init = dict(e[3])
    ctx.ob(init is not None and show(init.get('next_operation_id')) == '1', 'ids start at 1', 'opid-init', loc=new.loc())
    # user submissions go to the back of the user queue (table shared with R-C05-4)
    hue = ctx.fn('ProtocolState::handle_user_event')
    from . import shared
    uet = shared.user_event_table(F, hue) or {}
    for k in ('Publish', 'Subscribe', 'Unsubscribe'):
        row = uet.get(k) or {'queue': set(), 'position': set()}
        ctx.ob(row['queue'] == {'User'} and row['position'] == {'Back'}, 'user %s is appended to the back of the user queue (%s/%s)' % (k, sorted(row['queue']), sorted(row['position'])), 'intake|' + k, loc=hue.loc())

    ctx.rule('R-C10-3', 'T3 + T6', 'every exit of CONNACK session handling has re-sorted both the resubmit and the user queue; the sort helper rotates the ring buffer contiguous and sorts it; nothing is dequeued between close and CONNACK')
    sess = ctx.fn('ProtocolState::apply_session_present_to_connection')
    sorts = sess.calls('protocol::sort_operation_deque')
    got = sorted(show(c.arg(0)) for c in sorts)
    ctx.ob(got == ['self.resubmit_operation_queue', 'self.user_operation_queue'], 'both queues are sorted (%s)' % got, 'sort-both', loc=sess.loc())
    for c in sorts:
        ok, w = must_pass(sess, 0, [c.bb], after_start=False)
        ctx.ob(ok, 'every exit of session handling passes sort(%s)' % show(c.arg(0)), 'sort-all-exits|' + show(c.arg(0)), loc=c.loc())
        # sort happens after the last structural change of that queue
        q = prims.self_field(c.arg(0))
        later = [m for m in prims.mutations(sess) if prims.self_field(m.path) == q and m.kind in ('mutcall', 'assign') and sess.dominates(c.bb, m.bb) and m.bb != c.bb]
        ctx.ob(not later, 'no change of %s after it was sorted' % q, 'sort-last|' + q, loc=c.loc())
    sd = ctx.fn('protocol::sort_operation_deque')
    rr = sd.calls('VecDeque::rotate_right')
    so = [c for c in sd.calls() if c.nfn.split('::')[-1] in ('sort', 'sort_unstable')]
    ok = len(rr) == 1 and len(so) == 1 and re.match(r'^slice::len\(\(VecDeque::as_slices\(operations\)\)\.1\)$', show(rr[0].arg(1))) is not None \
        and re.match(r'^\(VecDeque::as_mut_slices\(operations\)\)\.0$', show(so[0].arg(0))) is not None and sd.dominates(rr[0].bb, so[0].bb)
    ctx.ob(ok, 'sort helper: rotate_right(len(as_slices().1)) then sort(as_mut_slices().0)', 'sort-helper', loc=sd.loc())
    S = statectx.StateAnalysis(F, PS, 'state', 'protocol::ProtocolStateType', P)
    S.contexts({PS + '::' + n: S.full for n in ['handle_network_event', 'service', 'handle_user_event', 'get_next_service_timepoint', 'reset']})
    em = set(S.names_of(S.entry_mask[norm(dq.path)]))
    ctx.ob(em <= {'PendingConnack', 'Connected'}, 'typestate: dequeue can only execute in %s (never while Disconnected)' % sorted(em), 'dequeue-states', loc=dq.loc())
    # ---- added after seeds C10-3a / C10-3b: retransmissions keep their place at the head of the resubmit queue, and only genuine
    # retransmissions carry the DUP flag the close handler uses to recognise them (facts shared with C04)
    from . import shared
    n_ = shared.import_obligations(ctx, 'C04', lambda o: o['rule'] in ('R-C04-5', 'R-C04-6') and any(k in o['key'] for k in ('current-requeue|', 'sa-dup-before-move', 'sa-use-after-drain', 'sa-retained')),
                                   'R-C10-3', 'an interrupted retransmission returns to the front of the resubmit queue; restarted publishes lose their DUP mark')
    ctx.floor(n_, 5, 'retransmission-order obligations shared with C04', rule='R-C10-3')
