"""Tables shared by several properties, computed by finite-domain evaluation (T11) so that they do not
depend on how the code is shaped (tuple of results, one call per arm or a hoisted call, match or if-chain)."""
from .. import fdeval
from ..fdeval import V_enum


def user_event_table(F, hue):
    """event variant -> dict(options=…, queue=…, position=…, outcomes=set of event-name tuples).
    Evaluates ProtocolState::handle_user_event for every UserEvent variant; records the arguments of
    create_operation / enqueue_operation on every feasible path."""
    ue = [k for k in F.adts if k.endswith('protocol::UserEvent') or k == 'protocol::UserEvent']
    if not ue:
        return None
    UE = ue[0]
    interest = lambda c, view: c.endswith('ProtocolState::create_operation') or c.endswith('ProtocolState::enqueue_operation') or c.endswith('ProtocolState::complete_operation_as_failure')
    ev = fdeval.Evaluator(F, interest)
    out = {}
    for k in [v['name'] for v in F.adt(UE)['variants']]:
        try:
            paths = ev.run(hue, {'context.event': V_enum(UE, k, None)})
        except fdeval.Budget:
            return None
        row = {'options': set(), 'queue': set(), 'position': set(), 'outcomes': set()}
        for p in paths:
            if p.diverged:
                continue    # panic / assertion paths (inventoried by R-C11-1)
            names = []
            for e in p.events:
                nm = e[0].split('::')[-1]
                names.append(nm)
                if nm == 'create_operation':
                    row['options'].add(e[1][2])
                elif nm == 'enqueue_operation':
                    row['queue'].add(e[1][2])
                    row['position'].add(e[1][3])
            row['outcomes'].add(tuple(names))
        out[k] = row
    return out


_SUBRUNS = {}


def import_obligations(ctx, prop, select, rule, why):
    """Several properties depend on the same structural fact (e.g. C02 "the CONNECT carries what the options say" and C07 "one faithful
    CONNECT").  Rather than copy the extraction, the owning property's rules are evaluated on the same facts and the selected obligations
    are re-stated under this property's rule `rule` (same construct, same verdict).  `select(obligation) -> bool`."""
    import importlib
    from .. import engine
    key = (prop, id(ctx.F))
    if key not in _SUBRUNS:
        sub = engine.Ctx(prop, ctx.F, ctx.config)
        mod = importlib.import_module('analysis.rules.' + prop.lower())
        try:
            (mod.run if ctx.config == 'all' else getattr(mod, 'run_config', mod.run))(sub)
        except Exception as e:      # the owning property reports its own crash; here the imported facts are simply unavailable
            sub.obligations.append({'rule': 'import', 'desc': 'rules of %s could not be evaluated: %s' % (prop, e), 'ok': False, 'key': 'import|%s|crash' % prop, 'loc': None, 'detail': None})
        _SUBRUNS[key] = sub
    sub = _SUBRUNS[key]
    n = 0
    for o in sub.obligations:
        if select(o):
            n += 1
            ctx.ob(o['ok'], '%s [%s; decided by %s]' % (o['desc'], why, o['rule']), 'from-%s|%s' % (prop, o['key']), loc=o['loc'], rule=rule, detail=o.get('detail'))
    return n
