"""Tables shared by several properties, computed by finite-domain evaluation (T11) so that they do not
depend on how the code is shaped (tuple of results, one call per arm or a hoisted call, match or if-chain)."""
from .. import fdeval
from ..fdeval import V_enum


def user_event_table(F, hue):
    """event variant -> dict(options=…, queue=…, position=…, outcomes=set of event-name tuples).
    Evaluates ProtocolState::handle_user_event for every UserEvent variant; records the arguments of
    create_operation / enqueue_operation on every feasible path."""
    ue = [k for k in F.adts if k.endswith('protocol::UserEvent') or k == 'protocol::UserEvent']
    if not ue:
        return None
    UE = ue[0]
    interest = lambda c, view: c.endswith('ProtocolState::create_operation') or c.endswith('ProtocolState::enqueue_operation') or c.endswith('ProtocolState::complete_operation_as_failure')
    ev = fdeval.Evaluator(F, interest)
    out = {}
    for k in [v['name'] for v in F.adt(UE)['variants']]:
        try:
            paths = ev.run(hue, {'context.event': V_enum(UE, k, None)})
        except fdeval.Budget:
            return None
        row = {'options': set(), 'queue': set(), 'position': set(), 'outcomes': set()}
        for p in paths:
            if p.diverged:
                continue    # panic / assertion paths (inventoried by R-C11-1)
            names = []
            for e in p.events:
                nm = e[0].split('::')[-1]
                names.append(nm)
                if nm == 'create_operation':
                    row['options'].add(e[1][2])
                elif nm == 'enqueue_operation':
                    row['queue'].add(e[1][2])
                    row['position'].add(e[1][3])
            row['outcomes'].add(tuple(names))
        out[k] = row
    return out
