"""Tables shared by several properties, computed by finite-domain evaluation (T11) so that they do not
depend on how the code is shaped (tuple of results, one call per arm or a hoisted call, match or if-chain)."""
from .. import fdeval
from ..fdeval import V_enum


def user_event_table(F, hue):
    """event variant -> dict(options=…, queue=…, position=…, outcomes=set of event-name tuples).
    Evaluates ProtocolState::handle_user_event for every UserEvent variant; records the arguments of
    create_operation / enqueue_operation on every feasible path."""
    ue = [k for k in F.adts if k.endswith('protocol::UserEvent') or k == 'protocol::UserEvent']
    if not ue:
        return None
    UE = ue[0]
    interest = lambda c, view: c.endswith('ProtocolState::create_operation') or c.endswith('ProtocolState::enqueue_operation') or c.endswith('ProtocolState::complete_operation_as_failure')
    ev = fdeval.Evaluator(F, interest)
    out = {}
    for k in [v['name'] for v in F.adt(UE)['variants']]:
        try:
            paths = ev.run(hue, {'context.event': V_enum(UE, k, None)})
        except fdeval.Budget:
            return None
        row = {'options': set(), 'queue': set(), 'position': set(), 'outcomes': set()}
        for p in paths:
            if p.diverged:
                continue    # panic / assertion paths (inventoried by R-C11-1)
            names = []
            for e in p.events:
                nm = e[0].split('::')[-1]
                names.append(nm)
                if nm == 'create_operation':
                    row['options'].add(e[1][2])
                elif nm == 'enqueue_operation':
                    row['queue'].add(e[1][2])
                    row['position'].add(e[1][3])
            row['outcomes'].add(tuple(names))
        out[k] = row
    return out


_SUBRUNS = {}


def import_obligations(ctx, prop, select, rule, why):
    """Several properties depend on the same structural fact (e.g. C02 "the CONNECT carries what the options say" and C07 "one faithful
    CONNECT").  Rather than copy the extraction, the owning property's rules are evaluated on the same facts and the selected obligations
    are re-stated under this property's rule `rule` (same construct, same verdict).  `select(obligation) -> bool`."""
    import importlib
    from .. import engine
    key = (prop, id(ctx.F))
    if key not in _SUBRUNS:
        sub = engine.Ctx(prop, ctx.F, ctx.config)
        mod = importlib.import_module('analysis.rules.' + prop.lower())
        try:
            (mod.run if ctx.config == 'all' else getattr(mod, 'run_config', mod.run))(sub)
        except Exception as e:      # the owning property reports its own crash; here the imported facts are simply unavailable
            sub.obligations.append({'rule': 'import', 'desc': 'rules of %s could not be evaluated: %s' % (prop, e), 'ok': False, 'key': 'import|%s|crash' % prop, 'loc': None, 'detail': None})
        _SUBRUNS[key] = sub
    sub = _SUBRUNS[key]
    n = 0
    for o in sub.obligations:
        if select(o):
            n += 1
            ctx.ob(o['ok'], '%s [%s; decided by %s]' % (o['desc'], why, o['rule']), 'from-%s|%s' % (prop, o['key']), loc=o['loc'], rule=rule, detail=o.get('detail'))
    return n


# ---------------------------------------------------------------------------------------------
# builder setters (added after the mutation sweep): a configuration value the application hands to a builder reaches the field of
# that name.  Several properties start from "the configured X": a setter that drops its argument, or stores it in a neighbouring
# field (copy/paste), silently replaces X by the default.  Each property claims the setters whose value it depends on.
SETTER_FIELD = {   # method (without with_) -> field, where the names differ
    'default_tls_implementation': 'tls_impl', 'root_ca_from_memory': 'root_ca_bytes', 'root_ca_from_path': 'root_ca_bytes',
    'user_property': 'user_properties', 'subscription': 'subscriptions', 'subscription_simple': 'subscriptions', 'topic_filter': 'topic_filters',
    'disconnect_packet': 'disconnect',
}


def builder_setters(ctx, select, rule, why):
    """For every `<X>Builder::with_<name>` selected by `select(builder, method)`: on every path the method stores (or pushes) a value
    derived from its argument into the field of that name.  Returns the number of setters checked."""
    import re
    from ..mir import norm, show
    from .. import prims
    n = 0
    for v in ctx.F.all_fns():
        p = norm(v.path)
        m = re.search(r'(\w+Builder)(?:<.*>)?::(with_\w+)$', p)
        if not m or v.f.get('parent') or not select(m.group(1), m.group(2)):
            continue
        n += 1
        bname, meth = m.group(1), m.group(2)
        want = SETTER_FIELD.get(meth[5:], meth[5:])
        params = [x for x in (v.varnames.get(i) for i in range(1, (v.f.get('argc') or 0) + 1)) if x and x != 'self']
        must = prims.view_must_blocks(v)
        effects = []      # (field last component, rendered value, on every path)
        for (i, s_, pe, rve) in v.field_writes():
            ps = show(pe)
            if ps.startswith('self.'):
                effects.append((ps.split('.')[-1].split('@')[0], show(rve), i in must))
        for mu in prims.mutations(v):
            if mu.kind == 'mutcall' and mu.method in ('push', 'push_back', 'insert', 'extend') and show(mu.path).startswith('self.'):
                args = ' '.join(show(mu.cs.arg(k)) for k in range(1, len(mu.cs.args))) if getattr(mu, 'cs', None) is not None else ''
                effects.append((show(mu.path).split('.')[-1].split('@')[0], args, mu.bb in must))
        effects = [x for x in effects if not x[0].isdigit()]
        fields = sorted({f for f, val, mst in effects})
        ok_field = fields == [want]
        uses = [val for f, val, mst in effects if f == want]
        ok_val = (not params) or any(re.search(r'\b%s\b' % re.escape(pn), val) for val in uses for pn in params) or (meth[5:] in ('user_property',) and bool(uses))
        ok_must = any(mst for f, val, mst in effects if f == want) or (meth[5:] == 'user_property' and bool(uses))
        ctx.ob(ok_field and ok_val and ok_must, '%s::%s stores its argument in `%s` on every path and touches no other field (writes: %s) [%s]' % (bname, meth, want, fields, why),
               'setter|%s|%s' % (bname, meth), loc=v.loc(), rule=rule)
    return n


# ---------------------------------------------------------------------------------------------
# validator rejection table (added after the mutation sweep).  For every packet validator the set of conditions under which it
# rejects (the innermost two guard atoms of each `Err(..)` return, canonical polarity) was read against the specification once and is
# frozen in analysis/tables/validator_rejections.json.  A flipped comparison, `||` turned into `&&`, a dropped or an added rejection all
# change that set.  Outbound validators belong to C16 (never transmit a violating operation / never reject a conforming one),
# inbound ones to C11 (a violation is reported, a conforming server is not accused).
def validator_rows(view):
    import re
    from .. import prims
    out = set()
    for b, e in prims.ret_variants(view):
        if e[0] == 'agg' and e[2] == 'Err':
            gs = [g for g in prims.guard_strs_plain(view, b) if not re.search(r'STATIC_MAX_LEVEL|log::max_level', g)]
            out.add(' && '.join(gs[-2:]))
    return sorted(out)


def validator_table(ctx, select, rule, why):
    import json, os, re
    from ..mir import norm
    path = os.path.join(os.path.dirname(os.path.dirname(os.path.abspath(__file__))), 'tables', 'validator_rejections.json')
    want = json.load(open(path))
    n = 0
    seen = set()
    for v in ctx.F.all_fns():
        p = norm(v.path)
        if v.f.get('parent') or not re.search(r'::validate_\w+$', p) or not ('/mqtt/' in v.file or v.file.endswith('validate.rs')) or not select(p):
            continue
        got = validator_rows(v)
        if not got and p not in want:
            continue
        n += 1
        seen.add(p)
        w = want.get(p)
        missing = sorted(set(w or []) - set(got))
        extra = sorted(set(got) - set(w or []))
        ctx.ob(w is not None and not missing and not extra,
               '%s rejects under exactly the reviewed conditions (%d)%s [%s]' % (p.split('::')[-1], len(got), '' if not (missing or extra) else ' — no longer rejects: %s; newly rejects: %s' % ([m[-120:] for m in missing], [x[-120:] for x in extra]), why),
               'validator|' + p.split('::')[-1], loc=v.loc(), rule=rule)
    for p in sorted(want):
        if select(p) and p not in seen and ctx.config == 'all':
            ctx.ob(False, 'validator %s of the reviewed table no longer exists or no longer rejects anything' % p, 'validator|' + p.split('::')[-1], rule=rule)
    return n

