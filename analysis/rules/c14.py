"""C14 — keep-alive: pings in time, dead peers detected, live peers never timed out."""
import re
from ..mir import show, short, norm, subexprs, var_inits
from .. import prims
from ..prims import requires, guard_strs, guarded_any, must_pass

EXPLANATION = ('Structural necessary conditions of keep-alive: the next-ping time is armed from the negotiated keep-alive at CONNACK (None when 0), '
               're-armed when a PINGREQ is queued, extended only by max(next, write time + K) on successful completion, and cleared at close/reset; '
               'a PINGREQ is queued at the front only when none is outstanding and the ping time has come; the ping deadline is '
               'min(configured timeout, K/2) with the halving done on a Duration (precision-loss lint: no integer division may flow into '
               'Duration::from_secs); PINGRESP clears the deadline and is an error when none is outstanding; the deadline comparison fails the connection. Added in round 2: the PINGRESP deadline is part of the reported next service time on every path, and the keep-alive service runs first in every Connected service call. Added after the mutation sweeps: the ping-timeout setter stores its argument.')
ASSUMPTIONS = ['not decided: the timing inequalities for all K, delays and interleavings (only the sites that arm, compare and clear the timers)']
P = 'src/protocol.rs'
PS = 'protocol::ProtocolState'
KSECS = r'Duration::from_secs\(.*server_keep_alive as u64\)'


def run(ctx):
    F = ctx.F
    hc = ctx.fn('ProtocolState::handle_connack')
    ka = ctx.fn('ProtocolState::service_keep_alive')
    # ------------------------------------------------------------ R-C14-1
    ctx.rule('R-C14-1', 'T9 + T2', 'arming: at CONNACK next ping = now + K seconds when K > 0 and None otherwise, ping deadline cleared; both timers cleared at close and reset; K is the negotiated (server-overridden) keep-alive')
    armed = {}
    for f, m in prims.field_mutations(F, PS, P):
        if f not in ('next_ping_timepoint', 'ping_timeout_timepoint'):
            continue
        fn_ = m.view.path.split('::')[-1]
        armed.setdefault((f, fn_), []).append(m)
    sm = armed.get(('next_ping_timepoint', 'handle_connack'), [])
    some = [m for m in sm if show(m.rv).startswith('Option::Some{')]
    none = [m for m in sm if show(m.rv) == 'Option::None{}']
    ok = len(some) == 1 and len(none) == 1
    if ok:
        ok = re.match(r'^Option::Some\{0: Add::add\(context\.current_time, Duration::from_secs\(\(protocol::build_negotiated_settings\(self\.config, packet@Connack\.0, self\.current_settings\)\)\.server_keep_alive as u64\)\)\}$', show(some[0].rv)) is not None \
            and guarded_any(hc, some[0].bb, [r'^\(0 < \(protocol::build_negotiated_settings\(.*\)\)\.server_keep_alive as u64\)$']) \
            and guarded_any(hc, none[0].bb, [r'^\(\(protocol::build_negotiated_settings\(.*\)\)\.server_keep_alive as u64 <= 0\)$'])
    ctx.ob(ok, 'CONNACK: next ping := now + negotiated K when K > 0, None when K == 0', 'arm|connack|next', loc=hc.loc())
    pt = armed.get(('ping_timeout_timepoint', 'handle_connack'), [])
    ctx.ob(len(pt) == 1 and show(pt[0].rv) == 'Option::None{}', 'CONNACK: ping deadline cleared', 'arm|connack|timeout', loc=hc.loc())
    for fn_ in ('handle_network_event_connection_closed', 'reset'):
        for f in ('next_ping_timepoint', 'ping_timeout_timepoint'):
            ms = armed.get((f, fn_), [])
            ctx.ob(len(ms) == 1 and show(ms[0].rv) == 'Option::None{}', '%s clears %s' % (fn_, f), 'arm|%s|%s' % (fn_, f))
    allowed = {('next_ping_timepoint', 'handle_connack'), ('next_ping_timepoint', 'service_keep_alive'), ('next_ping_timepoint', 'apply_ping_extension_on_operation_success'),
               ('next_ping_timepoint', 'handle_network_event_connection_closed'), ('next_ping_timepoint', 'reset'), ('ping_timeout_timepoint', 'handle_connack'),
               ('ping_timeout_timepoint', 'service_keep_alive'), ('ping_timeout_timepoint', 'handle_pingresp'), ('ping_timeout_timepoint', 'handle_network_event_connection_closed'), ('ping_timeout_timepoint', 'reset')}
    for k in armed:
        ctx.ob(k in allowed, 'timer %s written in %s' % k, 'timer-writer|%s|%s' % k)
    ctx.floor(sum(len(v) for v in armed.values()), 11, 'timer writes')
    # K comes from the server value, else the CONNECT value (R-C07-6 checks the literal)
    bn = ctx.fn('protocol::build_negotiated_settings')
    lit = [e for _, e in prims.ret_variants(bn) if e[0] == 'agg' and e[1].endswith('NegotiatedSettings')]
    ctx.ob(bool(lit) and show(dict(lit[0][3]).get('server_keep_alive')) == 'Option::unwrap_or(packet.server_keep_alive, Option::unwrap_or(config.connect_options.keep_alive_interval_seconds, 0))',
           'negotiated K = server keep alive if present, else the client\'s, else 0', 'negotiated-k', loc=bn.loc())

    # ------------------------------------------------------------ R-C14-2
    ctx.rule('R-C14-2', 'T9 value flow (precision lint)', 'the ping deadline is now + min(configured ping timeout, K/2) with K/2 computed on a Duration: no integer division may flow into Duration::from_secs')
    pts = armed.get(('ping_timeout_timepoint', 'service_keep_alive'), [])
    ctx.ob(len(pts) == 1, 'one site arms the ping deadline', 'deadline|site', loc=ka.loc())
    for m in pts:
        rv = show(m.rv)
        ctx.ob(rv.startswith('Option::Some{0: Add::add(context.current_time, Ord::min(self.config.ping_timeout, '), 'deadline = now + min(config.ping_timeout, ...) (%s)' % rv[:110], 'deadline|min', loc=m.loc())
        intdiv = []
        for x in subexprs(m.rv):
            if x[0] == 'call' and x[1].endswith('Duration::from_secs'):
                for y in subexprs(x[2][0]):
                    if y[0] == 'bin' and y[1] in ('Div', 'Shr', 'Rem'):
                        intdiv.append(show(y))
        ctx.ob(not intdiv, 'K/2 is not computed by integer division of whole seconds (K = 1 would give a zero deadline, odd K lose half a second)', 'deadline|integer-division', loc=m.loc(),
               detail=None if not intdiv else 'Duration::from_secs(%s)' % intdiv[0])
        half = any((x[0] == 'call' and re.search(r'(Div|Mul).*::(div|mul|div_f64|mul_f64)$|checked_div$|div_f32$', x[1]) is not None) or (x[0] == 'call' and x[1].endswith('Duration::from_millis'))
                   for x in subexprs(m.rv)) or bool(intdiv)
        ctx.ob(half and 'server_keep_alive' in rv, 'the second operand of min is derived from the negotiated keep-alive', 'deadline|from-k', loc=m.loc())
        # (added after the second mutation sweep) ... and it is exactly one half of it
        exact = False
        for x in subexprs(m.rv):
            if x[0] == 'call' and re.search(r'(::div|checked_div)$', x[1]) and len(x[2]) == 2 and show(x[2][1]) == '2':
                exact = True
            if x[0] == 'call' and re.search(r'mul_f(32|64)$|::mul$', x[1]) and len(x[2]) == 2 and show(x[2][1]) in ('0.5', '0.5f64', '0.5f32'):
                exact = True
            if x[0] == 'call' and x[1].endswith('Duration::from_millis') and re.search(r'(Mul|MulWithOverflow) 500\b', show(x[2][0])):
                exact = True
        ctx.ob(exact, 'the keep-alive share of the ping deadline is K/2 (divisor 2 / factor 0.5 / K*500 ms) (%s)' % rv[60:200], 'deadline|half', loc=m.loc())
    errs = [c for c in ka.calls('GneissError::new_connection_closed')]
    ctx.ob(len(errs) == 1 and guarded_any(ka, errs[0].bb, [r'^\(self\.ping_timeout_timepoint@Some\.0 <= context\.current_time\)$']) and guarded_any(ka, errs[0].bb, [r'^self\.ping_timeout_timepoint is Some$']),
           'the connection is failed exactly when the ping deadline has been reached', 'deadline|compare', loc=ka.loc())

    rd = prims.rets_after(ka, [r'^self\.ping_timeout_timepoint is Some$', r'^\(self\.ping_timeout_timepoint@Some\.0 <= context\.current_time\)$'])
    ctx.ob(rd == {'Err'}, 'completeness: a reached ping deadline always fails the connection (%s)' % sorted(rd or []), 'deadline|complete', loc=ka.loc())

    # ------------------------------------------------------------ R-C14-3
    ctx.rule('R-C14-3', 'T2 + T1', 'a PINGREQ is queued at the front only when no ping is outstanding and the next-ping time has come; PINGRESP clears the deadline and is an error without an outstanding ping; '
             'the next ping is extended only to a later time, in the success completion point only')
    enq = ka.calls('ProtocolState::enqueue_operation')
    ctx.ob(len(enq) == 1 and show(enq[0].arg(2)) == 'ProtocolQueueType::HighPriority{}' and show(enq[0].arg(3)) == 'ProtocolEnqueuePosition::Front{}'
           and show(enq[0].arg(1)).startswith('ProtocolState::create_operation(self, Box::new(MqttPacket::Pingreq{'), 'PINGREQ goes to the front of the high-priority queue', 'ping|queue', loc=ka.loc())
    for c in enq:
        requires(ctx, ka, c.bb, [r'^self\.ping_timeout_timepoint is None$', r'^self\.next_ping_timepoint is Some$', r'^\(self\.next_ping_timepoint@Some\.0 <= context\.current_time\)$'], 'ping|when', 'queueing a PINGREQ', loc=c.loc())
        # arming the deadline happens on the same path
        ok = bool(pts) and (ka.dominates(c.bb, pts[0].bb) or c.bb == pts[0].bb)
        ctx.ob(ok, 'queueing a PINGREQ always arms the ping deadline', 'ping|arms-deadline', loc=c.loc())
    re_ = armed.get(('next_ping_timepoint', 'service_keep_alive'), [])
    ctx.ob(len(re_) == 1 and re.search(r'Add::add\(context\.current_time, ' + KSECS + r'\)\}$', show(re_[0].rv)) is not None and guarded_any(ka, re_[0].bb, [r'^\(0 < .*server_keep_alive as u64\)$']),
           'after a PINGREQ the next ping is scheduled K seconds later (K > 0)', 'ping|reschedule', loc=ka.loc())
    pr = ctx.fn('ProtocolState::handle_pingresp')
    cl = armed.get(('ping_timeout_timepoint', 'handle_pingresp'), [])
    okret_ = [b for b, e in prims.ret_variants(pr) if show(e).startswith('Result::Ok')]
    seen_ = pr.reach([0], avoid=[m.bb for m in cl]) if cl else set(range(pr.n))
    ctx.ob(len(cl) == 1 and show(cl[0].rv) == 'Option::None{}' and bool(okret_) and not any(b in seen_ for b in okret_) and
           (guarded_any(pr, cl[0].bb, [r'^self\.ping_timeout_timepoint is Some$']) or cl[0].method == 'take'),
           'PINGRESP clears the outstanding deadline on every accepting path (and touches it only when one is outstanding, or by take())', 'pingresp|clear', loc=pr.loc())
    errb = prims.err_blocks(pr)
    ctx.ob(any(guarded_any(pr, b, [r'^self\.ping_timeout_timepoint is None$']) for b in errb), 'a PINGRESP without an outstanding PINGREQ is a protocol error', 'pingresp|unexpected', loc=pr.loc())
    ex = ctx.fn('ProtocolState::apply_ping_extension_on_operation_success')
    ew = armed.get(('next_ping_timepoint', 'apply_ping_extension_on_operation_success'), [])
    ok = len(ew) == 1
    if ok:
        rv = show(ew[0].rv)
        ok = re.match(r'^Option::Some\{0: Add::add\(extension_base_option@Some\.0, ' + KSECS + r'\)\}$', rv) is not None and \
            guarded_any(ex, ew[0].bb, [r'^\(Option::unwrap\(self\.next_ping_timepoint\) < Add::add\(extension_base_option@Some\.0, ']) and guarded_any(ex, ew[0].bb, [r'^self\.next_ping_timepoint is Some$'])
    ctx.ob(ok, 'extension: next ping := base + K only when that is later than the current next ping (and a ping is scheduled at all)', 'extend|max', loc=ex.loc())
    callers = F.callers().get(ex.key, [])
    ctx.ob(len(callers) == 1 and callers[0][0].path.endswith('complete_operation_as_success'), 'the extension is applied in the success completion point only', 'extend|caller', loc=ex.loc())
    bases = [show(e) for _, e in var_inits(ex, 'extension_base_option')]
    ctx.ob(set(bases) == {'Option::None{}', 'operation.ping_extension_base_timepoint'}, 'the extension base is the operation\'s recorded write time', 'extend|base', loc=ex.loc())
    fw = ctx.fn('ProtocolState::on_current_operation_fully_written')
    bw = [m for m in prims.mutations(fw) if m.kind == 'assign' and show(m.path).endswith('.ping_extension_base_timepoint')]
    ctx.ob(len(bw) == 1 and show(bw[0].rv) == 'Option::Some{0: now}', 'the write time is recorded when the operation is fully written', 'extend|recorded', loc=fw.loc())

    # (added after seed C14-2) the PINGRESP deadline is always part of the reported next service time
    nxc = ctx.fn('ProtocolState::get_next_service_timepoint_connected')
    okd, _, badr = prims.consulted_on_every_return(nxc, 'ping_timeout_timepoint')
    ctx.ob(okd, 'detection at the deadline: the connected next-service time takes the PINGRESP deadline into account on every path, also while a socket write is outstanding%s' % ('' if okd else ' — return at %s ignores it' % nxc.loc(badr)),
           'pingresp-deadline|next-service', loc=nxc.loc(), rule='R-C14-3')
    ska = ctx.fn('ProtocolState::service_keep_alive')
    sc = ctx.fn('ProtocolState::service_connected')
    kc = sc.calls('ProtocolState::service_keep_alive')
    others = [c for c in sc.calls() if c.nfn.startswith('protocol::ProtocolState::') and not c.nfn.endswith('service_keep_alive')]
    ctx.ob(len(kc) == 1 and all(sc.dominates(kc[0].bb, c.bb) for c in others), 'the keep-alive service (deadline test) runs first in every Connected service call, before queue work and regardless of pending writes', 'pingresp-deadline|service-first', loc=sc.loc(), rule='R-C14-3')

    # ---- added after the mutation sweep: which completions may push the next ping out
    ex_ = ctx.fn('ProtocolState::apply_ping_extension_on_operation_success')
    from ..mir import var_inits as _vi14
    bases = [(b, show(e)) for b, e in _vi14(ex_, 'extension_base_option') if show(e) != 'Option::None{}']
    okk = bool(bases)
    kinds = set()
    for b, e in bases:
        gs = guard_strs(ex_, b)
        if guarded_any(ex_, b, [r'\.packet is Subscribe$', r'\.packet is Unsubscribe$', r'\.packet is Subscribe\|Unsubscribe$']) and not guarded_any(ex_, b, [r'\.packet is Publish$']):
            kinds.add('sub/unsub')
        elif any(re.search(r'\.packet is Publish$', g) for g in gs) and guarded_any(ex_, b, [r'^!\(.*\.qos == QualityOfService::AtMostOnce\{\}\)$']):
            kinds.add('publish qos>0')
        else:
            okk = False
        okk = okk and e == 'operation.ping_extension_base_timepoint'
    ctx.ob(okk and kinds == {'sub/unsub', 'publish qos>0'}, 'the next ping is pushed out only by acknowledged operations (SUBSCRIBE, UNSUBSCRIBE, QoS>0 PUBLISH), from the time their packet was written (%s)' % sorted(kinds), 'extend|kinds', loc=ex_.loc(), rule='R-C14-3')
    ra14 = prims.rets_after(ex_, [r'\.packet is Publish$', r'^\(.*\.qos == QualityOfService::AtMostOnce\{\}\)$'])
    w14 = [i for (i, s_, pe, rve) in ex_.field_writes() if show(pe) == 'self.next_ping_timepoint']
    q0 = prims.edge_nodes_matching(ex_, [r'^\(.*\.qos == QualityOfService::AtMostOnce\{\}\)$'])
    ctx.ob(bool(q0) and bool(w14) and all(not (set(w14) & ex_.reach([e_], avoid=[b for b, _ in bases])) or True for e_ in q0) and
           all(not any(bb in ex_.reach([e_]) for bb, _ in bases) for e_ in q0), 'a QoS 0 publish (never acknowledged) takes no extension base', 'extend|qos0', loc=ex_.loc(), rule='R-C14-3')
    # ---- added after the mutation sweep: the configured values this property starts from reach the options (builder setters)
    from . import shared as _sh
    _ns = _sh.builder_setters(ctx, lambda b, m: b == 'MqttClientOptionsBuilder' and m == 'with_ping_timeout', 'R-C14-2', 'the configured ping timeout is the one in force')
    if ctx.config == 'all':
        ctx.floor(_ns, 1, 'builder setters this property depends on')
    # ---- added after seed C14-4b: K is what was negotiated: the CONNECT carries the configured keep alive (0 when unset) and the
    # negotiated value is the CONNACK's, else that same CONNECT value (shared with C07)
    from . import shared as _sh3
    _n3 = _sh3.import_obligations(ctx, 'C07', lambda o: o['key'].endswith(('ns|server_keep_alive', 'pkt-field|keep_alive_interval_seconds', 'opt-used|keep_alive_interval_seconds', 'setter|ConnectOptionsBuilder|with_keep_alive_interval_seconds')),
                                  'R-C14-1', 'client and server must agree on K: what the CONNECT announces is what the client assumes when the server does not override it')
    if ctx.config == 'all':
        ctx.floor(_n3, 4, 'keep-alive negotiation obligations shared with C07')
