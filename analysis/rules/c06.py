"""C06 — packet ids are non-zero, unique among in-flight operations, and never leak."""
import re
from ..mir import show, short, norm, subexprs, var_inits, fold
from .. import prims
from ..prims import requires, guard_strs, guarded_any, must_pass

EXPLANATION = ('Structural necessary conditions of packet-id management: every value the allocation cursor can take is 1 or cursor+1 below '
               'u16::MAX; ids are reserved only through a vacant map entry and the reserved key is what is returned and bound; both '
               'completion points release the id and both ack tables on every path where an id is bound; operation and packet ids are '
               'written together; restarted operations are unbound; the id map is otherwise only cleared on session loss / reset. Added in round 2: an already transmitted publish never enters the user queue (whose members are unbound at CONNACK), so a retransmission keeps its identifier.')
ASSUMPTIONS = ['not decided: leak-freedom and uniqueness over more than 65535 operations and all reconnect histories (only the per-site conditions)']
P = 'src/protocol.rs'
PS = 'protocol::ProtocolState'


def run(ctx):
    F = ctx.F
    al = ctx.fn('ProtocolState::acquire_free_packet_id')
    # ------------------------------------------------------------ R-C06-1
    ctx.rule('R-C06-1', 'T4 value table', 'the allocation cursor only takes the values 1 and cursor+1 (the latter only below u16::MAX), starts at 1, and the returned id is a cursor value')
    n = 0
    for f, m in prims.field_mutations(F, PS, P):
        if f != 'next_packet_id':
            continue
        n += 1
        rv = show(m.rv)
        if rv == '1':
            ctx.ob(True, 'next_packet_id := 1 in %s' % short(m.view.path), 'cursor|one|' + short(m.view.path), loc=m.loc())
        elif rv == '((self.next_packet_id AddWithOverflow 1)).0':
            requires(ctx, m.view, m.bb, [r'^!\(self\.next_packet_id == MAX\)$'], 'cursor|inc', 'incrementing the cursor', loc=m.loc())
        else:
            ctx.ob(False, 'next_packet_id assigned an unexpected value %s' % rv, 'cursor|other|' + short(m.view.path), loc=m.loc())
    ctx.floor(n, 3, 'writers of next_packet_id')
    new = ctx.fn('ProtocolState::new')
    init = None
    for (i, j, s) in new.stmts():
        if s['k'] == 'assign':
            e = new.rvalue_expr(s['rv'], i)
            if e[0] == 'agg' and e[1].endswith('ProtocolState'):
                init = dict(e[3])
    ctx.ob(init is not None and fold(init.get('next_packet_id', ('x',))) == 1, 'a new engine starts the cursor at 1', 'cursor|init', loc=new.loc())
    oks = [show(e) for b, e in prims.ret_variants(al) if e[0] == 'agg' and e[2] == 'Ok']
    ci = set(show(e) for _, e in var_inits(al, 'check_id'))
    si = set(show(e) for _, e in var_inits(al, 'start_id')) or {'self.next_packet_id'}
    ctx.ob(oks == ['Result::Ok{0: check_id}'] and ci <= {'start_id', 'self.next_packet_id'} and si == {'self.next_packet_id'},
           'the allocated id is a value of the cursor (check_id in %s)' % sorted(ci), 'alloc-returns-cursor', loc=al.loc())

    # ------------------------------------------------------------ R-C06-2
    ctx.rule('R-C06-2', 'T2 + T1', 'an id is reserved only through a vacant entry of the id map for the very id that is returned; the search gives up with an error after one full cycle')
    muts = [m for f, m in prims.field_mutations(F, PS, P) if f == 'allocated_packet_ids' and m.kind != 'access']
    kinds = {}
    for m in muts:
        kinds.setdefault(m.method, []).append(m)
        ctx.ob(m.method in ('entry', 'remove', 'clear'), 'id map writer %s in %s' % (m.method, short(m.view.path)), 'idmap|%s|%s' % (short(m.view.path), m.method), loc=m.loc())
    ctx.floor(len(muts), 6, 'writers of the id map')
    ent = kinds.get('entry', [])
    ctx.ob(len(ent) == 1 and show(ent[0].cs.arg(1)) == 'check_id', 'the id map is probed with the candidate id', 'entry-key', loc=al.loc())
    ins = al.calls('VacantEntry::insert')
    ctx.ob(len(ins) == 1, 'one reservation site', 'reserve-site', loc=al.loc())
    for c in ins:
        requires(ctx, al, c.bb, [r'^HashMap::entry\(self\.allocated_packet_ids, check_id\) is Vacant$'], 'reserve', 'reserving an id', loc=c.loc())
        ctx.ob(show(c.arg(1)) == 'operation_id', 'the reservation records the owning operation', 'reserve-owner', loc=c.loc())
        okb = [b for b, e in prims.ret_variants(al) if e[0] == 'agg' and e[2] == 'Ok']
        ctx.ob(all(al.dominates(c.bb, b) or b == c.bb for b in okb), 'Ok(id) is returned only after the reservation', 'reserve-then-ok', loc=c.loc())
    errs = prims.err_blocks(al)
    ctx.ob(bool(errs) and all(guarded_any(al, b, [r'^\(self\.next_packet_id == start_id\)$']) for b in errs), 'the search fails only after the cursor came back to its start', 'full-cycle', loc=al.loc())

    # ------------------------------------------------------------ R-C06-3
    ctx.rule('R-C06-3', 'T3 must-pass-through', 'both completion points release the packet id and clear both ack tables on every path where the operation has an id')
    cps = [m.view for f, m in prims.field_mutations(F, PS, P) if f == 'operations' and m.method == 'remove']
    for v in cps:
        ctx.touch(v)
        somes = prims.edge_nodes_matching(v, [r'^\(Option::unwrap\(HashMap::remove\(self\.operations, id\)\)\)\.packet_id is Some$'])
        ctx.ob(len(somes) == 1, '%s tests operation.packet_id' % short(v.path), 'cp-test|' + short(v.path), loc=v.loc())
        for tbl in ('allocated_packet_ids', 'pending_publish_operations', 'pending_non_publish_operations'):
            rm = [m for m in prims.mutations(v) if prims.self_field(m.path) == tbl and m.method == 'remove']
            ok = len(rm) == 1 and show(rm[0].cs.arg(1)).endswith('.packet_id@Some.0')
            if ok and somes:
                ok, _ = must_pass(v, somes[0], [rm[0].bb], after_start=False)
            ctx.ob(ok, '%s removes the bound id from %s on every path' % (short(v.path), tbl), 'cp-release|%s|%s' % (short(v.path), tbl), loc=v.loc())
    ctx.floor(len(cps), 2, 'completion points')

    # ------------------------------------------------------------ R-C06-4
    ctx.rule('R-C06-4', 'T1', 'the operation\'s packet id and the id inside its packet are written together, by bind (the given id) and unbind (None / 0) only')
    nb = 0
    for v in F.fns_in(P):
        if not norm(v.path).startswith('protocol::ClientOperation::'):
            continue
        ws = [m for m in prims.mutations(v) if m.kind == 'assign']
        opw = [m for m in ws if show(m.path) == 'self.packet_id']
        if not opw:
            continue
        nb += 1
        val = show(opw[0].rv)
        pk = {g.split(' is ')[1]: show(m.rv) for m in ws if show(m.path).endswith('.packet_id') and show(m.path) != 'self.packet_id' for g in guard_strs(v, m.bb) if g.startswith('self.packet is ')}
        if val.startswith('Option::Some{0: '):
            want = val[len('Option::Some{0: '):-1]
        else:
            want = '0'
        ctx.ob(set(pk) == {'Subscribe', 'Unsubscribe', 'Publish'} and all(x == want for x in pk.values()) and val in ('Option::None{}', 'Option::Some{0: packet_id}'),
               '%s writes operation.packet_id = %s and packet.packet_id = %s for Subscribe/Unsubscribe/Publish' % (short(v.path), val, pk), 'bind|' + short(v.path), loc=v.loc())
    ctx.floor(nb, 2, 'bind/unbind functions')
    others = []
    for v in F.fns_in(P):
        if norm(v.path).startswith('protocol::ClientOperation::'):
            continue
        for m in prims.mutations(v):
            if m.kind == 'assign' and show(m.path).endswith('.packet_id') and 'packet_events' not in show(m.path):
                rty = v.locals[m.stmt['lhs']['l']]['ty']
                if rty.startswith('&mut '):
                    others.append(m)
    ctx.ob(not others, 'no other engine code writes a packet id field %s' % [m.desc() for m in others], 'bind|others')
    aq = ctx.fn('ProtocolState::acquire_packet_id_for_operation')
    b = aq.calls('ClientOperation::bind_packet_id')
    ctx.ob(len(b) == 1 and re.match(r'^\(Try::branch\(ProtocolState::acquire_free_packet_id\(self, operation_id\)\)\)@Continue\.0$', show(b[0].arg(1))) is not None and
           re.match(r'^Option::unwrap\(HashMap::get_mut\(self\.operations, operation_id\)\)$', show(b[0].arg(0))) is not None,
           'the id reserved for operation_id is bound to that same operation', 'bind-same-op', loc=aq.loc())
    for c in aq.calls('ProtocolState::acquire_free_packet_id'):
        requires(ctx, aq, c.bb, [[r'\.packet is (Subscribe|Unsubscribe)$', r'^!\(.*\.qos == QualityOfService::AtMostOnce\{\}\)$']], 'alloc-kinds', 'allocating an id (only SUBSCRIBE/UNSUBSCRIBE/QoS>0 PUBLISH)', loc=c.loc())

    # ------------------------------------------------------------ R-C06-5
    ctx.rule('R-C06-5', 'T3 + T2', 'operations restarted from the user queue at CONNACK are unbound (id released and cleared in the packet); the id map is otherwise only cleared on session loss and reset')
    ub = ctx.fn('ProtocolState::unbind_operation_packet_id')
    rm = [m for m in prims.mutations(ub) if prims.self_field(m.path) == 'allocated_packet_ids' and m.method == 'remove']
    uc = ub.calls('ClientOperation::unbind_packet_id')
    ok = len(rm) == 1 and len(uc) == 1 and guarded_any(ub, rm[0].bb, [r'\.packet_id is Some$']) and guarded_any(ub, uc[0].bb, [r'\.packet_id is Some$']) \
        and show(rm[0].cs.arg(1)).endswith('.packet_id@Some.0') and 'HashMap::get_mut(self.operations, id)' in show(uc[0].arg(0))
    ctx.ob(ok, 'unbind releases the operation\'s id from the map and clears it in the operation and packet', 'unbind', loc=ub.loc())
    some_edges = prims.edge_nodes_matching(ub, [r'\.packet_id is Some$'])
    okc = bool(some_edges) and bool(rm) and bool(uc)
    for en in some_edges:
        o1, _ = must_pass(ub, en, [uc[0].bb] if uc else [], after_start=False)
        o2, _ = must_pass(ub, en, [rm[0].bb] if rm else [], after_start=False)
        okc = okc and o1 and o2
    ctx.ob(okc, 'whenever the operation has a packet id, unbind both releases the map entry and clears the id (no path skips either)', 'unbind-complete', loc=ub.loc())
    sess = ctx.fn('ProtocolState::apply_session_present_to_connection')
    callers = [(cv, bb) for cv, bb in F.callers().get(ub.key, [])]
    okc = False
    for cv, bb in callers:
        if norm(cv.f.get('parent') or '') == norm(sess.path):
            hosts = prims.closure_hosts(sess, cv)
            if hosts and all('user_queue' in show(h.arg(0)) for h in hosts):
                okc = True
    ctx.ob(okc and len(callers) == 1, 'every operation of the user queue is unbound at CONNACK (single caller: the restart loop)', 'unbind-caller', loc=sess.loc())
    for m in [x for x in muts if x.method == 'clear']:
        v = m.view
        in_reset = any(prims.self_field(x.path) == 'operations' and x.method == 'clear' for x in prims.mutations(v))
        ctx.ob(in_reset or guarded_any(v, m.bb, [r'^!session_present$']), 'id map cleared only on session-absent CONNACK or reset (in %s)' % short(v.path), 'idmap-clear|' + ('reset' if in_reset else 'session'), loc=m.loc())

    # ------------------------------------------------------------ R-C06-6 (added after seed C06-2)
    ctx.rule('R-C06-6', 'T2 + T9 residence', 'a publish that was already transmitted (DUP set, id bound) never enters the user queue - the only queue whose members are unbound at CONNACK - except through the session-absent restart, so a retransmission after a resumed reconnect reuses the original identifier')
    cc = ctx.fn('ProtocolState::apply_connection_closed_to_current_operation')
    nu = 0
    for m in prims.mutations(cc):
        if m.kind == 'mutcall' and prims.self_field(m.path) == 'user_operation_queue' and m.method in ('push_front', 'push_back') and guarded_any(cc, m.bb, [r'\.packet is Publish$']):
            nu += 1
            ctx.ob(guarded_any(cc, m.bb, [r'^!.*\.packet@Publish\.0\.duplicate$']) and guarded_any(cc, m.bb, [r'^.*\.qos2_pubrel is None$', r'^!\(.*\.qos == QualityOfService::ExactlyOnce\{\}\)$', r'\.qos2_pubrel is None$']),
                   'an interrupted current publish returns to the user queue (where its id will be released) only when it is neither a retransmission nor in its PUBREL phase', 'keep-id|current|user', loc=m.loc())
    ctx.floor(nu, 1, 'user-queue re-queue sites of the current publish')
    dup_edges = prims.edge_nodes_matching(cc, [r'^[^!].*\.packet@Publish\.0\.duplicate$'])
    okd = bool(dup_edges)
    for en in dup_edges:
        r = cc.reach([en])
        users = [m.bb for m in prims.mutations(cc) if m.kind == 'mutcall' and prims.self_field(m.path) == 'user_operation_queue']
        fails = [c.bb for c in cc.calls('ProtocolState::complete_operation_as_failure')]
        okd = okd and not any(b in r for b in users) and not any(b in r for b in fails)
    ctx.ob(okd, 'once the current publish is known to be a retransmission no path demotes it to the user queue or fails it', 'keep-id|current|dup-complete', loc=cc.loc())
    cl = ctx.fn('ProtocolState::handle_network_event_connection_closed')
    drains = []
    for cv in F.all_fns():
        if norm(cv.f.get('parent') or '') != norm(cl.path):
            continue
        sets = [c for c in cv.calls('ProtocolState::set_publish_duplicate_flag') if show(c.arg(2)) == 'True']
        if sets:
            pushes = [(prims.self_field(m.path), m.method) for m in prims.mutations(cv) if m.kind == 'mutcall' and m.method.startswith('push')]
            drains.append((cv, pushes))
    ctx.ob(len(drains) == 1 and drains[0][1] == [('resubmit_operation_queue', 'push_back')], 'unacknowledged publishes drained at close are marked DUP and queued for resubmission only (%s)' % [d[1] for d in drains], 'keep-id|drain', loc=cl.loc())
    # the user queue receives at close: current op (above), write-completion retained (QoS0 / never acked), unacked sub/unsub, its own retained half
    sess_un = [c for c in F.callers().get(ub.key, [])]
    ctx.ob(len(sess_un) == 1, 'unbind has a single caller (the user-queue restart loop, R-C06-5)', 'keep-id|unbind-single', loc=ub.loc())

    # ---- added after the mutation sweep
    sqa = ctx.fn('ProtocolState::service_queue_aux')
    acq = sqa.calls('ProtocolState::acquire_packet_id_for_operation')
    ers = sqa.calls('Encoder::reset')
    ctx.ob(len(acq) == 1 and len(ers) == 1 and sqa.dominates(acq[0].bb, ers[0].bb) and guarded_any(sqa, ers[0].bb, [r'^Try::branch\(ProtocolState::acquire_packet_id_for_operation\(.*\)\) is Continue$']),
           'every operation is given its packet identifier (acquire_packet_id_for_operation succeeded) before the encoder is set up for it', 'bind-before-encode', loc=sqa.loc(), rule='R-C06-2')
