"""C02 byte accounting: the remaining-length / property-length arithmetic of the length functions
agrees, as a polynomial over the optional-field atoms, with the bytes the writer's steps emit.

Both sides are turned into  sum over guard-sets of  (linear form over symbolic units):
  units: 1 | len(field) | vli(x) | up(collection) | count(collection) | sumlen(collection.field) |
         sumvli(collection) | sec(name)
Negative guard literals are expanded ((1 - a)), so equality of the two maps is equality of the
byte counts for every combination of present/absent optional fields, QoS class and alias
resolution outcome, with field lengths and collection sizes left symbolic."""
import re
from ..mir import show, short, norm, var_inits, fold
from .. import prims
from . import codec


# ----------------------------------------------------------------------------------- canonical paths
def _strip_projs(projs, enumerate_tuple=False):
    out = []
    i = 0
    projs = list(projs)
    while i < len(projs):
        p = projs[i]
        if p == '*':
            i += 1
            continue
        if p.startswith('@'):
            # `@Some .0` / `@Publish .0`: variant payload
            if i + 1 < len(projs) and projs[i + 1] == '.0':
                i += 2
            else:
                i += 1
            continue
        out.append(p)
        i += 1
    return out


ROOT_ALIASES = {'alias_resolution': 'alias', 'context.outbound_alias_resolution': 'alias'}


class Canon:
    def __init__(self, view):
        self.view = view
        self._coll = {}

    def collection_of(self, itname):
        """Canonical path of the collection a `for` iterator walks, and whether it is enumerated."""
        if itname in self._coll:
            return self._coll[itname]
        res = (None, False)
        for _, e in var_inits(self.view, itname):
            enum = 'Iterator::enumerate' in show(e)
            x = e
            while x is not None and x[0] == 'call' and x[2]:
                x = x[2][0]
            p = self.path(x)
            if p:
                res = (p, enum)
        self._coll[itname] = res
        return res

    def path(self, e):
        if e is None:
            return None
        k = e[0]
        if k == 'cast':
            return self.path(e[1])
        if k == 'call':
            sh = short(e[1])
            if sh in ('Deref::deref', 'AsRef::as_ref', 'String::as_str', 'String::as_bytes', 'Vec::as_slice', 'Option::as_ref', 'Clone::clone', 'Borrow::borrow') and e[2]:
                return self.path(e[2][0])
            return None
        if k == 'var':
            pj = _strip_projs(e[2])
            s = e[1] + ''.join(pj)
            for a, b in ROOT_ALIASES.items():
                if s == a or s.startswith(a + '.'):
                    s = b + s[len(a):]
            return s
        if k == 'proj' and e[1][0] == 'call' and short(e[1][1]) == 'Iterator::next':
            a0 = e[1][2][0] if e[1][2] else None
            itn = a0[1] if a0 is not None and a0[0] == 'var' else None
            coll, enum = self.collection_of(itn) if itn else (None, False)
            pj = _strip_projs(e[2])
            if enum and pj and pj[0] == '.1':
                pj = pj[1:]
            elif enum and pj and pj[0] == '.0':
                return '<index:%s>' % coll
            return '<elem:%s>' % coll + ''.join(pj)
        return None


# ----------------------------------------------------------------------------------- linear forms
def ladd(a, b, k=1):
    out = dict(a)
    for u, c in b.items():
        out[u] = out.get(u, 0) + k * c
        if out[u] == 0:
            del out[u]
    return out


def lscale(a, k):
    return {u: c * k for u, c in a.items() if c * k != 0}


LEN_FNS = ('String::len', 'Vec::len', 'str::len', 'slice::len')


class Lin:
    def __init__(self, view, accs):
        self.view = view
        self.canon = Canon(view)
        self.accs = accs            # accumulator names

    def lin(self, e):
        k = e[0]
        if k == 'const':
            v = e[1]
            if isinstance(v, bool):
                v = int(v)
            if isinstance(v, int):
                return {1: v} if v else {}
            return {('?', show(e)): 1}
        if k == 'cast':
            return self.lin(e[1])
        if k == 'proj':
            # (a OpWithOverflow b).0
            if e[1][0] == 'bin' and tuple(e[2]) == ('.0',):
                return self.lin(e[1])
            # Try::branch(vli(x))@Continue.0
            if e[1][0] == 'call' and short(e[1][1]) == 'Try::branch' and tuple(e[2]) == ('@Continue', '.0'):
                return self.lin(e[1][2][0])
            p = self.canon.path(e)
            return {('val', p or show(e)): 1}
        if k == 'bin':
            op = e[1].replace('WithOverflow', '')
            if op == 'Add':
                return ladd(self.lin(e[2]), self.lin(e[3]))
            if op == 'Mul':
                ka, kb = fold(e[2]), fold(e[3])
                if isinstance(kb, int):
                    return self._times(self.lin(e[2]), kb)
                if isinstance(ka, int):
                    return self._times(self.lin(e[3]), ka)
            return {('?', show(e)): 1}
        if k == 'call':
            sh = short(e[1])
            if sh in LEN_FNS and e[2]:
                p = self.canon.path(e[2][0])
                return {('len', p or show(e[2][0])): 1}
            if e[1].endswith('compute_variable_length_integer_encode_size') and e[2]:
                return {('vli', self._vli_arg(e[2][0])): 1}
            if e[1].endswith('compute_user_properties_length') and e[2]:
                return {('up', self.canon.path(e[2][0]) or show(e[2][0])): 1}
            return {('?', show(e)): 1}
        if k == 'var' and not e[2]:
            if e[1] in self.accs:
                return {('acc', e[1]): 1}
            return {('val', e[1]): 1}
        if k == 'var':
            return {('val', self.canon.path(e)): 1}
        return {('?', show(e)): 1}

    def _times(self, lf, k):
        out = {}
        for u, c in lf.items():
            if isinstance(u, tuple) and u[0] == 'len':
                out[('count*', u[1], k)] = c      # k bytes per element of the collection
            else:
                out[u] = c * k
        return out

    def _vli_arg(self, a):
        while a[0] == 'cast':
            a = a[1]
        if a[0] == 'var' and not a[2] and a[1] in self.accs:
            return 'acc:' + a[1]
        if a[0] == 'call' and a[1].endswith('compute_user_properties_length'):
            return 'up:' + (self.canon.path(a[2][0]) or '?')
        return self.canon.path(a) or show(a)


# ----------------------------------------------------------------------------------- guards
def canon_guards(view, bb, canon):
    """-> (pos atoms, neg atoms, loop collection or None, unknown guard strings)."""
    pos, neg, loop, unk = set(), set(), None, []
    for a in view.guards(bb):
        s = prims.show_atom(a) if hasattr(prims, 'show_atom') else None
        from ..mir import show_atom
        s = show_atom(a)
        if 'Try::branch' in s or 'compute_variable_length_integer_encode_size' in s:
            continue
        if re.search(r'length_properties', s):
            # writer guards on the value returned by the length function (ack short forms)
            unk.append(s)
            continue
        if a[0] == 'variant':
            e = a[1]
            names = set(a[2])
            if e[0] == 'call' and short(e[1]) == 'Iterator::next':
                itn = e[2][0][1] if e[2] and e[2][0][0] == 'var' else None
                if names == {'Some'}:
                    loop = canon.collection_of(itn)[0]
                else:
                    unk.append(s)
                continue
            p = canon.path(e)
            if p and names == {'Some'}:
                pos.add('some(%s)' % p)
                continue
            if p and names == {'None'}:
                neg.add('some(%s)' % p)
                continue
            unk.append(s)
            continue
        if a[0] == 'truth':
            e, val = a[1], a[2]
            if e[0] == 'call' and short(e[1]) in ('Option::is_some', 'Option::is_none') and e[2]:
                p = canon.path(e[2][0])
                is_some = (short(e[1]) == 'Option::is_some') == bool(val)
                (pos if is_some else neg).add('some(%s)' % p)
                continue
            if e[0] == 'eq':
                t = show(e)
                m = re.match(r'^\((\S+) == QualityOfService::AtMostOnce\{\}\)$', t)
                if m:
                    (pos if val else neg).add('qos0(%s)' % (canon.path(e[1]) or m.group(1)))
                    continue
            p = canon.path(e)
            if p:
                (pos if val else neg).add('flag(%s)' % p)
                continue
            unk.append(s)
            continue
        unk.append(s)
    return pos, neg, loop, unk


def poly_add(poly, pos, neg, lf):
    """poly[frozenset(atoms)] += lf expanded over the negative literals."""
    neg = sorted(neg - pos) if not (neg & pos) else None
    if neg is None:
        return      # contradictory guard set: unreachable
    n = len(neg)
    for mask in range(1 << n):
        S = frozenset(pos | {neg[i] for i in range(n) if mask >> i & 1})
        sign = -1 if bin(mask).count('1') % 2 else 1
        cur = poly.get(S, {})
        cur = ladd(cur, lf, sign)
        if cur:
            poly[S] = cur
        elif S in poly:
            del poly[S]


def loopify(lf, coll):
    """Per-iteration contribution -> whole-loop units."""
    out = {}
    for u, c in lf.items():
        if u == 1:
            out[('count*', coll, c)] = out.get(('count*', coll, c), 0) + 1
        elif isinstance(u, tuple) and u[0] == 'len' and str(u[1]).startswith('<elem:%s>' % coll):
            out[('sumlen', coll, str(u[1])[len('<elem:%s>' % coll):])] = c
        elif isinstance(u, tuple) and u[0] == 'vli' and str(u[1]).startswith('<elem:%s>' % coll):
            out[('sumvli', coll)] = c
        else:
            out[('loop?', coll, u)] = c
    return out


def norm_count(poly):
    """Merge ('count*', coll, k) units: n elements of k bytes + n of j bytes = n of (k+j)."""
    out = {}
    for S, lf in poly.items():
        per = {}
        rest = {}
        for u, c in lf.items():
            if isinstance(u, tuple) and u[0] == 'count*':
                per[u[1]] = per.get(u[1], 0) + u[2] * c
            else:
                rest[u] = c
        for coll, k in per.items():
            if k:
                rest[('count', coll)] = k
        if rest:
            out[S] = rest
    return out


def fmt_poly(poly):
    parts = []
    for S in sorted(poly, key=lambda s: (len(s), sorted(s))):
        lf = poly[S]
        t = ' + '.join('%s%s' % ('' if c == 1 else '%d*' % c, 'B' if u == 1 else ':'.join(str(x) for x in u)) for u, c in sorted(lf.items(), key=lambda x: str(x[0])))
        parts.append('[%s] %s' % (' & '.join(sorted(S)) or 'always', t))
    return ' ; '.join(parts)


def poly_diff(a, b):
    out = {}
    for S in set(a) | set(b):
        d = ladd(a.get(S, {}), b.get(S, {}), -1)
        if d:
            out[S] = d
    return out


# ----------------------------------------------------------------------------------- length side
def length_polys(lf_view):
    """accumulator name -> polynomial of everything added to it (other accumulators stay units),
    plus the returned tuple components as linear forms."""
    accs = set(prims.accumulators(lf_view).values())
    L = Lin(lf_view, accs)
    polys = {}
    unknown = []
    for nm in accs:
        poly = {}
        for b, e in var_inits(lf_view, nm):
            # increment `((nm + X)).0`  or plain (re)initialisation
            inc = None
            if e[0] == 'proj' and e[1][0] == 'bin' and e[1][1].startswith('Add') and tuple(e[2]) == ('.0',):
                a, bb_ = e[1][2], e[1][3]
                if a[0] == 'var' and a[1] == nm and not a[2]:
                    inc = bb_
                elif bb_[0] == 'var' and bb_[1] == nm and not bb_[2]:
                    inc = a
            lf = L.lin(inc if inc is not None else e)
            pos, neg, loop, unk = canon_guards(lf_view, b, L.canon)
            unknown += unk
            if loop:
                lf = loopify(lf, loop)
            poly_add(poly, pos, neg, lf)
        polys[nm] = poly
    rets = []
    for b, e in prims.ret_variants(lf_view):
        if e[0] == 'agg' and e[2] == 'Ok':
            val = dict(e[3]).get('0')
            pos, neg, loop, unk = canon_guards(lf_view, b, L.canon)
            if val is not None and val[0] == 'agg' and val[1] == '(tuple)':
                comps = [L.lin(x) for _, x in val[3]]
            else:
                comps = [L.lin(val)]
            rets.append((b, pos, neg, comps))
    return accs, polys, rets, unknown, L


def expand(lf, polys, sections, seen=()):
    """Substitute non-section accumulators by their polynomials: linear form -> polynomial."""
    poly = {}
    base = {}
    for u, c in lf.items():
        if isinstance(u, tuple) and u[0] == 'acc' and u[1] not in sections and u[1] in polys and u[1] not in seen:
            for S, sub in polys[u[1]].items():
                subp = expand(sub, polys, sections, seen + (u[1],))
                for S2, l2 in subp.items():
                    k = frozenset(S | S2)
                    poly[k] = ladd(poly.get(k, {}), l2, c)
        else:
            base[u] = c
    if base:
        poly[frozenset()] = ladd(poly.get(frozenset(), {}), base)
    return {S: l for S, l in poly.items() if l}


# ----------------------------------------------------------------------------------- writer side
def writer_polys(w, lf_view, section_names):
    """-> (total polynomial (sections as units), {section name: polynomial}, unknown guards, problems)."""
    ps = codec.pushes(w)
    canon = Canon(w)
    L = Lin(w, set())
    problems = []
    unknown = []
    if not ps:
        return {}, {}, [], ['no pushes']
    order = sorted(ps, key=lambda p: p.bb)
    first = order[0]
    lname = short(lf_view.path).split('::')[-1]

    def length_component(val):
        """index of the length-function result component a Vli step writes, or None."""
        s = show(val) if val is not None else ''
        if lname not in s:
            return None
        m = re.search(r'@Continue\.0(?:\.(\d))?$', s)
        return int(m.group(1) or 0) if m else None
    # slice steps take their byte count from the 16-bit prefix pushed just before (R-C02-4 ties
    # the accessor to that field)
    prefix_of = {}
    for p in ps:
        if p.variant == 'Uint16' and p.val is not None:
            x = p.val
            while x[0] == 'cast':
                x = x[1]
            if x[0] == 'call' and short(x[1]) in LEN_FNS:
                nx = codec.next_pushes(w, p, ps, n=1)
                if nx:
                    prefix_of[id(nx[0])] = canon.path(x[2][0]) or show(x[2][0])
    total = {}
    secs = {n: {} for n in section_names if n}
    # property groups: key push + its shape steps belong to a section
    in_section = {}
    for p in ps:
        if p.key_const():
            grp = [p] + codec.next_pushes(w, p, ps, n=4)
            kval = p.key_const()[1]
            from ..spec import mqtt5
            spec = mqtt5.PROPERTIES.get(kval)
            n = max(len(s) for s in codec.STEP_SHAPES[spec[1]]) if spec else 1
            for q in grp[:1 + n]:
                in_section[id(q)] = kval
    for p in ps:
        if p is first:
            continue
        comp = length_component(p.val) if p.variant == 'Vli' else None
        if comp == 0:
            continue           # the remaining-length field itself
        pos, neg, loop, unk = canon_guards(w, p.bb, canon)
        unknown += unk
        if p.variant == 'Uint8':
            lf = {1: 1}
        elif p.variant == 'Uint16':
            lf = {1: 2}
        elif p.variant == 'Uint32':
            lf = {1: 4}
        elif p.variant == 'Vli':
            if comp is not None:
                nm = section_names[comp] if comp < len(section_names) else None
                lf = {('vli', ('acc:' + nm) if nm and not nm.startswith('up:') else (nm or '?')): 1}
                # the section's content follows its length field
                if nm:
                    lf[('up', nm[3:]) if nm.startswith('up:') else ('acc', nm)] = 1
            else:
                x = p.val
                while x is not None and x[0] == 'cast':
                    x = x[1]
                lf = {('vli', canon.path(x) or show(x)): 1}
        elif p.variant in ('StringSlice', 'BytesSlice', 'IndexedString', 'UserPropertyName', 'UserPropertyValue'):
            src = prefix_of.get(id(p))
            if src is None:
                # un-prefixed slice: resolve the accessor's returned field / constant
                g = dict(p.cs.arg(1)[3]).get('0')
                gname = None
                from ..mir import subexprs
                for x in subexprs(g):
                    if x[0] == 'fnref':
                        gname = x[1]
                lf = None
                if gname:
                    for gv in w.facts.find_fns(norm(gname)):
                        for _, re_ in prims.ret_variants(gv):
                            x = re_
                            while x[0] == 'cast':
                                x = x[1]
                            if x[0] == 'const' and len(x) > 3 and isinstance(x[3], str):
                                m = re.match(r'^&\[u8; (\d+)\]$', x[3])
                                if m:
                                    lf = {1: int(m.group(1))}
                            else:
                                cp = Canon(gv).path(re_)
                                if cp:
                                    lf = {('len', re.sub(r'^packet', 'packet', cp)): 1}
                if lf is None:
                    problems.append('un-prefixed slice step with unresolved accessor at %s' % p.cs.loc())
                    lf = {('?', 'slice'): 1}
            else:
                lf = {('len', src): 1}
        else:
            problems.append('unknown step kind %s' % p.variant)
            lf = {('?', p.variant): 1}
        if loop:
            lf = loopify(lf, loop)
        if id(p) in in_section:
            # which section: the will section when guarded by the will, else the packet's own
            target = None
            names = [n for n in section_names[1:] if n]
            if len(names) == 1:
                target = names[0]
            elif len(names) == 2:
                target = names[1] if any(a.startswith('some(packet.will)') for a in pos) else names[0]
            if target is None or target not in secs:
                problems.append('property step outside any announced section at %s' % p.cs.loc())
            else:
                poly_add(secs[target], pos, neg, lf)
        else:
            poly_add(total, pos, neg, lf)
    return total, secs, unknown, problems


UP_UNITS = re.compile(r'^user_properties$')


def fold_user_properties(poly):
    """Writer loops over user properties: 5 bytes + name + value per element -> up(collection)."""
    out = {}
    for S, lf in poly.items():
        lf = dict(lf)
        colls = set(u[1] for u in lf if isinstance(u, tuple) and u[0] in ('count', 'sumlen') and str(u[1]).endswith('user_properties'))
        for c in colls:
            if lf.get(('count', c)) == 5 and lf.get(('sumlen', c, '.name')) == 1 and lf.get(('sumlen', c, '.value')) == 1:
                del lf[('count', c)], lf[('sumlen', c, '.name')], lf[('sumlen', c, '.value')]
                lf[('up', c)] = lf.get(('up', c), 0) + 1
        S2 = frozenset(a for a in S if not (a.startswith('some(') and a[5:-1].endswith('user_properties')))
        out[S2] = ladd(out.get(S2, {}), lf)
    return out


def section_names_of(rets):
    """Names of the accumulators returned as tuple components 1.. of the main (non-constant) return."""
    main = [r for r in rets if any(any(isinstance(u, tuple) for u in c) for c in r[3])]
    if not main:
        return None, None
    comps = main[-1][3]
    names = [None]
    for c in comps[1:]:
        u = list(c.keys())
        if len(u) == 1 and u[0][0] == 'acc':
            names.append(u[0][1])
        elif len(u) == 1 and u[0][0] == 'up':
            names.append('up:' + u[0][1])
        else:
            names.append(None)
    return comps, names


def run(ctx, writers5, writers3):
    F = ctx.F
    # ------------------------------------------------------------ R-C02-8 accumulator freeze
    ctx.rule('R-C02-8', 'T9 value flow (def-use order)', 'in every length function a running total is complete before anything is derived from it: no increment or re-assignment of an accumulator is reachable after its value was used (VLI size of the property section, addition into the remaining length, the returned tuple)')
    lfs = [v for v in F.all_fns() if re.search(r'::compute_\w*length\w*$', norm(v.path)) and v.file.endswith('.rs') and '/mqtt/' in v.file or norm(v.path).endswith('encode::compute_user_properties_length')]
    nacc = 0
    for v in sorted(lfs, key=lambda x: x.path):
        ctx.touch(v)
        for loc_, nm in sorted(prims.accumulators(v).items(), key=lambda x: x[1]):
            incs, reads, late = prims.accumulator_freeze(v, loc_)
            nacc += 1
            ctx.ob(not late, '%s: `%s` (%d increments, %d uses) is not modified after its value has been used%s' % (
                short(v.path), nm, len(incs), len(reads), '' if not late else ' — used at line %d, modified afterwards at line %d' % (late[0][0][2], late[0][1][2])),
                'freeze|%s|%s' % (short(v.path), nm), loc=v.loc(ln=late[0][1][2]) if late else v.loc())
    ctx.floor(len(lfs), 14, 'length functions')
    ctx.floor(nacc, 20, 'accumulators in length functions')

    # ------------------------------------------------------------ R-C02-9 byte accounting
    ctx.rule('R-C02-9', 'T10 sibling agreement (polynomial identity)', 'for every writer with a length function: remaining length == bytes of all steps after the length field, and each property-section length == bytes of that section\'s property steps, as polynomials over the optional-field / QoS / alias atoms with symbolic field lengths')
    ncmp = 0
    for ver, ws in (('5', writers5), ('311', writers3)):
        for var, w in sorted(ws.items()):
            lfc = [c for c in w.calls() if c.term.get('local') and re.search(r'compute_\w*length\w*$', c.nfn)]
            if not lfc:
                continue
            lfv = ctx.fn(norm(lfc[0].fn))
            accs, polys, rets, unk_l, LL = length_polys(lfv)
            comps, secnames = section_names_of(rets)
            if comps is None:
                ctx.ob(False, '%s (MQTT %s): length function has a symbolic return' % (var, ver), 'bytes|%s|%s|shape' % (ver, var), loc=lfv.loc())
                continue
            sections = set(n for n in secnames if n)
            lt = norm_count(expand(comps[0], polys, sections))
            wt, wsec, unk_w, probs = writer_polys(w, lfv, secnames)
            wt = fold_user_properties(norm_count(wt))
            bad_unk = [g for g in set(unk_l) if not re.match(r'^!?\(\w*section_length == 0\)$|^!?\(?packet\.reason_code|^!?Option::is_(some|none)\(packet\.(user_properties|reason_string)\)$', g)] + \
                      [g for g in set(unk_w) if 'length_properties' not in g]
            ctx.ob(not bad_unk and not probs, '%s (MQTT %s): every guard and step of the writer / length function is understood by the accounting%s' % (var, ver, '' if not (bad_unk or probs) else ' — ' + '; '.join((bad_unk + probs)[:3])),
                   'bytes|%s|%s|understood' % (ver, var), loc=w.loc())
            d = poly_diff(lt, wt)
            ncmp += 1
            ctx.ob(not d, '%s (MQTT %s): remaining length = %s%s' % (var, ver, fmt_poly(lt)[:300], '' if not d else ' — DIFFERS from the writer\'s steps by ' + fmt_poly(d)[:300]),
                   'bytes|%s|%s|total' % (ver, var), loc=lfv.loc())
            for n in sorted(sections):
                lp = norm_count(polys[n]) if n in polys else {frozenset(): {('up', n[3:]): 1}}
                wp = fold_user_properties(norm_count(wsec.get(n, {})))
                d = poly_diff(lp, wp)
                ncmp += 1
                ctx.ob(not d, '%s (MQTT %s): property section `%s` = %s%s' % (var, ver, n, fmt_poly(lp)[:300], '' if not d else ' — DIFFERS from the property steps by ' + fmt_poly(d)[:300]),
                       'bytes|%s|%s|section|%s' % (ver, var, n), loc=lfv.loc())
    ctx.floor(ncmp, 20, 'byte-accounting comparisons')

# ---------------------------------------------------------------------------------------------
# short forms (added after the mutation sweep): MQTT 5 acknowledgements, DISCONNECT and AUTH may omit the reason code / property
# length.  The length function and the writer decide this separately; a tiny path-sensitive walk over the two boolean atoms
# (default reason code? empty property section?) evaluates both on all four assignments and compares bytes.
_STEP_BYTES = {'Uint8': 1, 'Uint16': 2, 'Uint32': 4}


def _walk(view, truth, on_block=None, limit=400):
    """Follow the CFG from the entry choosing, at every switch, the edge whose atom `truth(atom_string)` says is true
    (None = undecided -> stop).  Returns ('ret', bb) | ('undecided', atom) | ('loop', bb)."""
    from ..mir import show_atom
    succ, _, edge = view.graph()
    node, seen = 0, set()
    for _ in range(limit):
        if node in seen:
            return ('loop', node)
        seen.add(node)
        if node < view.n:
            if on_block:
                on_block(node)
            if node in view.exits():
                return ('ret', node)
        nx = succ.get(node, [])
        if not nx:
            return ('ret', node)
        if len(nx) == 1:
            node = nx[0]
            continue
        pick, und = None, None
        for en in nx:
            if en not in edge:
                continue
            a = show_atom(view.edge_atom(en))
            t = truth(a)
            if t is True:
                pick = en
                break
            if t is None:
                und = a
        if pick is None:
            return ('undecided', und)
        node = pick
    return ('loop', node)


def _mk_truth(vals):
    """vals: list of (regex over the positive atom, bool).  Handles a leading `!`; library/log atoms get a fixed answer."""
    def truth(a):
        neg = a.startswith('!')
        body = a[1:] if neg else a
        for rx, val in vals:
            if re.search(rx, body):
                return (not val) if neg else val
        if re.search(r'STATIC_MAX_LEVEL|log::max_level', body):
            return (body.startswith('(Level::')) != neg      # logging enabled: no effect on steps
        if body.endswith(' is Continue'):
            return not neg
        if body.endswith(' is Break'):
            return neg
        return None
    return truth


def run_short_forms(ctx, writers5):
    ctx.rule('R-C02-13', 'T10 sibling agreement (path-sensitive walk over two atoms)', 'short forms of MQTT 5 PUBACK/PUBREC/PUBREL/PUBCOMP, DISCONNECT and AUTH: for each of the four combinations of "default reason code" and "empty property section" the length function returns the specification\'s remaining length and the writer pushes exactly that many bytes after the length field (3.4.2.1: the reason code may be omitted only when it is Success *and* there are no properties)')
    SPEC = {'ack': {(True, True): 2, (False, True): 3}, 'Disconnect': {(True, True): 0, (False, True): 1}, 'Auth': {(True, True): 0}}
    n = 0
    for var, w in sorted(writers5.items()):
        kind = 'ack' if var in ('Puback', 'Pubrec', 'Pubrel', 'Pubcomp') else var if var in ('Disconnect', 'Auth') else None
        if kind is None:
            continue
        lfc = [c for c in w.calls() if c.term.get('local') and re.search(r'compute_\w*length\w*$', c.nfn)]
        if not ctx.ob(len(lfc) == 1, '%s writer calls its length function once' % var, 'shortform|%s|lf' % var, loc=w.loc()):
            continue
        lf = ctx.fn(norm(lfc[0].fn))
        rets = {b: e for b, e in prims.ret_variants(lf)}
        for rc in (True, False):
            for s0 in (True, False):
                n += 1
                tl = _mk_truth([(r'^\(packet\.reason_code == \w+::\w+\{\}\)$', rc), (r'^\(\w*property_section_length == 0\)$', s0)])
                lval = None
                rows = []
                for b, e in rets.items():
                    if not (e[0] == 'agg' and e[2] == 'Ok'):
                        continue
                    ts = [tl(g) for g in prims.guard_strs_plain(lf, b)]
                    if any(t is False for t in ts):
                        continue
                    rows.append((sum(1 for t in ts if t is True), e))
                # the most specific compatible return (an `if a && b { return .. }` leaves the fall-through return unguarded)
                best = max((k for k, e in rows), default=0)
                rows = [e for k, e in rows if k == best]
                if len(rows) == 1:
                    tup = dict(rows[0][3]).get('0')
                    first = dict(tup[3]).get('0') if tup and tup[0] == 'agg' else None
                    lval = int(show(first)) if first is not None and re.match(r'^\d+$', show(first)) else 'general'
                want = SPEC[kind].get((rc, s0), 'general')
                ctx.ob(lval == want, '%s length function, default reason code=%s, no properties=%s: remaining length %s (specification: %s)' % (var, rc, s0, lval, want),
                       'shortform|%s|length|rc=%s|empty=%s' % (var, rc, s0), loc=lf.loc())
                # the writer under the same assignment; its view of the two lengths is what the length function returned
                pushed = []

                def onb(b_, w=w, pushed=pushed):
                    for c in w.calls('VecDeque::push_back', 'push_back'):
                        if c.bb == b_:
                            e = c.arg(1)
                            pushed.append(e[2] if e[0] == 'agg' else '?')
                tw = _mk_truth([(r'^\(packet\.reason_code == \w+::\w+\{\}\)$', rc), (r'@Continue\.0\.1 == 0\)$', s0), (r'@Continue\.0\.0 == 0\)$', lval == 0),
                                (r'^\(\d+ == .*@Continue\.0\.0\)$', True)])
                rw = _walk(w, tw, on_block=onb)
                if rw[0] == 'ret' and all(p_ in _STEP_BYTES or p_ == 'Vli' for p_ in pushed) and pushed[:2] == ['Uint8', 'Vli'] and 'Vli' not in pushed[2:]:
                    wval = sum(_STEP_BYTES[p_] for p_ in pushed[2:])
                else:
                    wval = 'general'
                ctx.ob(wval == lval, '%s writer, default reason code=%s, no properties=%s: %s byte(s) after the length field (steps %s); the length function says %s' % (var, rc, s0, wval, pushed[2:6], lval),
                       'shortform|%s|writer|rc=%s|empty=%s' % (var, rc, s0), loc=w.loc())
    if ctx.config == 'all':
        ctx.floor(n, 24, 'short-form assignments evaluated')
