"""C08 — service-time contract never strands work."""
import re
from ..mir import show, short, norm, subexprs
from .. import prims
from ..prims import requires, guard_strs, guarded_any, must_pass

EXPLANATION = ('Sibling agreement between the function that dequeues work and the function that predicts when work is available '
               '(same engine fields consulted; same outcome for the pending-write, high-priority, slow-start, receive-maximum and '
               'non-empty-queue atoms), and timer coverage: every timer field a state\'s service function compares with the clock is '
               'folded into that state\'s next-service-time function. Added in round 2: deadline timers (CONNACK deadline, PINGRESP deadline, ack-timeout heap) are consulted on every return path of the state\'s next-service-time function, in particular while a write completion is pending.')
ASSUMPTIONS = ['not decided: bounded progress against a responsive broker and absence of "service me now" spinning (liveness); '
               'only the mirror and timer-coverage necessary conditions']
P = 'src/protocol.rs'
PS = 'protocol::ProtocolState'


def ret_blocks(v, pat):
    return [b for b, e in prims.ret_variants(v) if re.match(pat, show(e))]


def run(ctx):
    F = ctx.F
    dq = ctx.fn('ProtocolState::dequeue_operation')
    tp = ctx.fn('ProtocolState::get_next_service_timepoint_protocol_queue')
    ctx.rule('R-C08-1', 'T10 sibling agreement', 'dequeue_operation and the protocol-queue next-service-time function consult the same engine state and agree atom by atom (Some(id) <-> Some(now), None <-> None)')
    fa = prims.self_fields_read(F, dq, 2, PS)
    fb = prims.self_fields_read(F, tp, 2, PS)
    ign = {'current_time', 'elapsed_time_ms', 'current_operation'}   # current_operation: read by the service loop instead of dequeue (see mirror|current-operation)
    ctx.ob(fa - ign == fb - ign, 'both functions consult the same engine fields (only dequeue: %s; only next-time: %s)' % (sorted(fa - fb - ign), sorted(fb - fa - ign)), 'mirror|fields', loc=tp.loc())
    ctx.floor(len(fa), 9, 'engine fields consulted by dequeue_operation')
    # atom by atom
    for v, nm in ((dq, 'dequeue'), (tp, 'next-time')):
        nones = ret_blocks(v, r'^Option::None\{\}$')
        somes = [b for b, e in prims.ret_variants(v) if show(e).startswith('Option::Some{')]
        ctx.ob(any(guarded_any(v, b, [r'^self\.pending_write_completion$']) for b in nones), '%s: None while a write completion is pending' % nm, 'mirror|pending-write|' + nm, loc=v.loc())
        ctx.ob(any(guarded_any(v, b, [r'^!VecDeque::is_empty\(self\.high_priority_operation_queue\)$']) and guarded_any(v, b, [r'^!self\.pending_write_completion$']) for b in somes),
               '%s: Some when the high-priority queue is non-empty and no write is pending' % nm, 'mirror|high-priority|' + nm, loc=v.loc())
        thr = [b for b in nones if guarded_any(v, b, [r'^ProtocolState::should_external_operations_be_slow_start_throttled\(self\)$']) and guarded_any(v, b, [r'^ProtocolState::has_pending_ack\(self\)$'])]
        ctx.ob(bool(thr) and all(guarded_any(v, b, [r'^!\(mode == ProtocolQueueServiceMode::HighPriorityOnly\{\}\)$', r'^\(mode == ProtocolQueueServiceMode::All\{\}\)$']) for b in thr),
               '%s: None when slow-start throttled with an ack pending (non-high-priority mode only)' % nm, 'mirror|slow-start|' + nm, loc=v.loc())
    # receive maximum: dequeue via helper on the head of each queue; next-time inline on resubmit-then-user head
    fc = ctx.fn('ProtocolState::does_operation_pass_receive_maximum_flow_control')
    falses = [b for b, e in prims.ret_variants(fc) if show(e) == 'False']
    RM = r'^\(settings\.receive_maximum_from_server as usize <= HashMap::len\(self\.pending_publish_operations\)\)$|^\(self\.current_settings@Some\.0\.receive_maximum_from_server as usize <= HashMap::len\(self\.pending_publish_operations\)\)$'
    okf = bool(falses) and all(guarded_any(fc, b, [RM]) and guarded_any(fc, b, [r'\.packet is Publish$']) and guarded_any(fc, b, [r'^!\(.*\.qos == QualityOfService::AtMostOnce\{\}\)$']) for b in falses)
    ctx.ob(okf, 'flow-control helper blocks exactly: pending publishes >= receive maximum, head is a Publish, QoS != 0', 'mirror|recvmax|helper', loc=fc.loc())
    nones_tp = ret_blocks(tp, r'^Option::None\{\}$')
    rmb = [b for b in nones_tp if guarded_any(tp, b, [RM])]
    okt = bool(rmb) and all(guarded_any(tp, b, [r'\.packet is Publish$']) and guarded_any(tp, b, [r'^!\(.*\.qos == QualityOfService::AtMostOnce\{\}\)$']) for b in rmb)
    ctx.ob(okt, 'next-time: None under the same receive-maximum predicate', 'mirror|recvmax|next-time', loc=tp.loc())
    from ..mir import var_inits
    rtp = prims.rets_after(tp, [RM, r'\.packet is Publish$', r'^!\(.*\.qos == QualityOfService::AtMostOnce\{\}\)$'])
    ctx.ob(rtp == {'None'}, 'next-time completeness: at the receive maximum with a QoS>0 publish at the head the answer is always None (%s)' % sorted(rtp or []), 'mirror|recvmax|next-time-complete', loc=tp.loc())
    hi = var_inits(tp, 'head')
    first = [show(e) for b, e in hi if not guarded_any(tp, b, [r'^head is None$'])]
    second = [show(e) for b, e in hi if guarded_any(tp, b, [r'^head is None$'])]
    ctx.ob(first == ['VecDeque::front(self.resubmit_operation_queue)'] and second == ['VecDeque::front(self.user_operation_queue)'],
           'next-time examines the head of the resubmit queue, falling back to the user queue only when it is empty (same order as dequeue)', 'mirror|recvmax|head-order', loc=tp.loc())
    for q in ('resubmit_operation_queue', 'user_operation_queue'):
        nb = [b for b in ret_blocks(dq, r'^Option::None\{\}$') if guarded_any(dq, b, [r'^!ProtocolState::does_operation_pass_receive_maximum_flow_control\(self, Option::unwrap\(VecDeque::front\(self\.%s\)\)\)$' % q])]
        ctx.ob(bool(nb), 'dequeue: None when the head of %s fails flow control' % q, 'mirror|recvmax|dequeue|' + q, loc=dq.loc())
    somes_tp = [b for b, e in prims.ret_variants(tp) if show(e).startswith('Option::Some{')]
    ctx.ob(any(guarded_any(tp, b, [r'^!VecDeque::is_empty\(self\.resubmit_operation_queue\)$', r'^!VecDeque::is_empty\(self\.user_operation_queue\)$']) for b in somes_tp),
           'next-time: Some(now) when the resubmit or user queue is non-empty', 'mirror|queues|next-time', loc=tp.loc())
    ctx.ob(all(show(e) == 'Option::Some{0: self.current_time}' for b, e in prims.ret_variants(tp) if show(e).startswith('Option::Some{')), 'next-time answers "now" (the engine clock) when work is available', 'mirror|now', loc=tp.loc())

    # ------------------------------------------------------------ R-C08-2
    ctx.rule('R-C08-2', 'T5/T10 timer coverage', 'per state, every timer the service function compares with the clock is consulted by the next-service-time function; Halted/Disconnected report no service time')
    timers = set()
    for f in F.adt(PS)['variants'][0]['fields']:
        if f['ty'] == 'std::option::Option<std::time::Instant>' or 'BinaryHeap' in f['ty']:
            timers.add(f['name'])
    ctx.floor(len(timers), 4, 'timer fields of ProtocolState')
    pairs = (('service_pending_connack', 'get_next_service_timepoint_pending_connack'), ('service_connected', 'get_next_service_timepoint_connected'),
             ('service_pending_disconnect', 'get_next_service_timepoint_pending_disconnect'))
    for sv, nx in pairs:
        a = prims.self_fields_read(F, ctx.fn('ProtocolState::' + sv), 2, PS) & timers
        svq_excl = prims.self_fields_read(F, ctx.fn('ProtocolState::service_queue'), 3, PS) & timers
        b = prims.self_fields_read(F, ctx.fn('ProtocolState::' + nx), 2, PS) & timers
        for t in sorted(a):
            ctx.ob(t in b, '%s consults timer `%s`, so must %s' % (sv, t, nx), 'timer|%s|%s' % (sv, t), loc=ctx.fn('ProtocolState::' + nx).loc())
        ctx.ob(bool(a), '%s consults at least one timer' % sv, 'timer-any|' + sv)
    gn = ctx.fn('ProtocolState::get_next_service_timepoint')
    for cs in gn.calls():
        for nm, st in (('get_next_service_timepoint_pending_connack', 'PendingConnack'), ('get_next_service_timepoint_connected', 'Connected'),
                       ('get_next_service_timepoint_pending_disconnect', 'PendingDisconnect'), ('get_next_service_timepoint_disconnected', 'Disconnected')):
            if cs.nfn.endswith('::' + nm):
                requires(ctx, gn, cs.bb, [r'^self\.state is %s$' % st], 'nexttime-dispatch|' + nm, 'calling ' + nm, loc=cs.loc())
    # next-service functions take the minimum: connected folds ping timeout, ack heap, next ping, queue
    nc = ctx.fn('ProtocolState::get_next_service_timepoint_connected')
    folds = [c for c in nc.calls() if c.nfn.endswith('fold_optional_timepoint_min') or c.nfn.endswith('fold_timepoint')]
    srcs = prims.self_fields_read(F, nc, 1, PS)
    qcall = [c for c in nc.calls() if c.nfn.endswith('get_next_service_timepoint_protocol_queue')]
    ctx.ob(len(folds) >= 2 and {'ping_timeout_timepoint', 'operation_ack_timeouts', 'next_ping_timepoint'} <= srcs and len(qcall) == 1,
           'connected next-service time is a fold (min) over its four sources: PINGRESP deadline, ack-timeout heap, next ping, queue readiness (reads %s)' % sorted(srcs & {'ping_timeout_timepoint', 'operation_ack_timeouts', 'next_ping_timepoint'}), 'fold-count', loc=nc.loc())
    for nm in ('fold_timepoint', 'fold_optional_timepoint_min'):
        fv = ctx.fn('protocol::' + nm)
        keeps = [b for b, e in prims.ret_variants(fv) if show(e) in ('base', '*base')] or [b for b, e in prims.ret_variants(fv)]
        lt = [g for i in fv.live_blocks() for g in guard_strs(fv, i) if re.search(r'PartialOrd::lt|<', g)]
        ctx.ob(bool(lt), '%s compares the two time points and keeps the earlier' % nm, 'fold-min|' + nm, loc=fv.loc())

    for nm_, ok_, arg_, v_ in prims.clock_updates(F, ('get_next_service_timepoint', 'service')):
        ctx.ob(ok_, 'ProtocolState::%s adopts the caller\'s time first, so "service me now" answers and due tests refer to the present call' % nm_, 'clock|' + nm_, loc=v_.loc() if v_ else None, rule='R-C08-2')
    # ------------------------------------------------------------ R-C08-3 (added after seed C07-2)
    ctx.rule('R-C08-3', 'T3 must-pass-through', 'deadline timers - whose expiry needs no socket write (CONNACK deadline, PINGRESP deadline, ack-timeout heap) - are consulted on every path of the state\'s next-service-time function, in particular while a write completion is pending; only send-type work (next ping, queues) may be skipped then')
    DEADLINES = (('get_next_service_timepoint_pending_connack', 'connack_timeout_timepoint'), ('get_next_service_timepoint_connected', 'ping_timeout_timepoint'),
                 ('get_next_service_timepoint_connected', 'operation_ack_timeouts'), ('get_next_service_timepoint_pending_disconnect', 'operation_ack_timeouts'))
    for nx, t in DEADLINES:
        v = ctx.fn('ProtocolState::' + nx)
        ok, rb, bad = prims.consulted_on_every_return(v, t)
        ctx.ob(ok, '%s: every return has consulted `%s`%s' % (nx, t, '' if ok else ' — a return at %s is reachable without it' % v.loc(bad)), 'deadline|%s|%s' % (nx, t), loc=v.loc())
    # the service functions test those deadlines before (or regardless of) the write-pending gate
    for sv, t, callee in (('service_pending_connack', 'connack_timeout_timepoint', 'ProtocolState::service_queue'),):
        v = ctx.fn('ProtocolState::' + sv)
        rb = prims.field_read_blocks(v, t)
        qs = v.calls(callee)
        ctx.ob(bool(rb) and bool(qs) and all(any(v.dominates(b, c.bb) for b in rb) for c in qs), '%s compares `%s` with the clock before servicing the queue' % (sv, t), 'deadline-first|%s|%s' % (sv, t), loc=v.loc())

    # ---- added after the mutation sweep: sufficiency of the mirror atoms and the write-pending flag
    HPNE = r'^!VecDeque::is_empty\(self\.high_priority_operation_queue\)$'
    NPW = r'^!self\.pending_write_completion$'
    for v, nm in ((dq, 'dequeue'), (tp, 'next-time')):
        ra = prims.rets_after(v, [NPW, HPNE])
        ctx.ob(ra == {'Some'}, '%s: with no write pending a non-empty high-priority queue always yields Some (%s)' % (nm, sorted(ra or [])), 'mirror|high-priority-complete|' + nm, loc=v.loc(), rule='R-C08-1')
        rn = prims.rets_after(v, [r'^self\.pending_write_completion$'])
        ctx.ob(rn == {'None'}, '%s: a pending write completion always yields None (%s)' % (nm, sorted(rn or [])), 'mirror|pending-write-complete|' + nm, loc=v.loc(), rule='R-C08-1')
    RNE, UNE = r'^!VecDeque::is_empty\(self\.resubmit_operation_queue\)$', r'^!VecDeque::is_empty\(self\.user_operation_queue\)$'
    s1 = prims.reaches_ret(tp, [RNE], 'Some', avoid_patterns=[r'^!?VecDeque::is_empty\(self\.user_operation_queue\)$'])
    s2 = prims.reaches_ret(tp, [r'^VecDeque::is_empty\(self\.resubmit_operation_queue\)$', UNE], 'Some')
    ctx.ob(s1 is True and s2 is True, 'next-time: a non-empty resubmit queue alone, and a non-empty user queue alone, each suffice for "service me now" (%s, %s)' % (s1, s2), 'mirror|queues|either-suffices', loc=tp.loc(), rule='R-C08-1')
    sq_ = ctx.fn('ProtocolState::service_queue')
    fw = [(i, show(rve)) for (i, s_, pe, rve) in sq_.field_writes() if show(pe) == 'self.pending_write_completion']
    GREW = r'^!\(Vec::len\(context\.to_socket\) == (to_socket_length|Vec::len\(context\.to_socket\))\)$'
    ctx.ob(len(fw) == 1 and fw[0][1] == 'True' and guarded_any(sq_, fw[0][0], [GREW]), 'service_queue raises the write-pending flag when (and only when) the output buffer grew', 'flag|set', loc=sq_.loc(), rule='R-C08-2')
    ge = prims.edge_nodes_matching(sq_, [GREW])
    ctx.ob(bool(ge) and bool(fw) and all(not any(x in sq_.reach([e], avoid=[fw[0][0]]) for x in sq_.exits()) for e in ge), 'completeness: whenever the output grew the flag is raised before returning', 'flag|set-complete', loc=sq_.loc(), rule='R-C08-2')
    wc = ctx.fn('ProtocolState::handle_network_event_write_completion')
    eff = prims.must_field_effects(F, wc, targets=prims.ok_blocks(wc) + [b for b, e in prims.ret_variants(wc) if show(e) == 'result'] )
    okb = [b for b, e in prims.ret_variants(wc) if not (e[0] == 'agg' and e[2] == 'Err')]
    cl = [i for (i, s_, pe, rve) in wc.field_writes() if show(pe) == 'self.pending_write_completion' and show(rve) == 'False']
    seen_ = wc.reach([0], avoid=cl) if cl else set(range(wc.n))
    ctx.ob(len(cl) == 1 and bool(okb) and not any(b in seen_ for b in okb) and guarded_any(wc, cl[0], [r'^self\.pending_write_completion$']), 'a write completion lowers the write-pending flag on every non-error path, and is accepted only while the flag is up', 'flag|clear', loc=wc.loc(), rule='R-C08-2')
    rnp = prims.rets_after(wc, [r'^!self\.pending_write_completion$'])
    ctx.ob(rnp == {'Err'}, 'a write completion with no write pending is an error (%s)' % sorted(rnp or []), 'flag|unexpected', loc=wc.loc(), rule='R-C08-2')
    # ---- added after seed C08-3b: the earliest deadline is the one reported - the ack-timeout heap is ordered by deadline
    from .c18 import heap_order
    heap_order(ctx, 'deadline|heap-order|', rule='R-C08-3')
    pk_ = [c for v_ in (ctx.fn('ProtocolState::get_next_service_timepoint_connected'), ctx.fn('ProtocolState::get_next_service_timepoint_pending_disconnect')) for c in v_.calls('BinaryHeap::peek')]
    ctx.ob(len(pk_) == 2 and all(show(c.arg(0)) == 'self.operation_ack_timeouts' for c in pk_), 'the next-service functions look at the top of that heap (the earliest deadline)', 'deadline|heap-peek', rule='R-C08-3')
    # ---- defect 13 (found in round 3): a partially encoded current operation is work that is due as soon as no write is pending
    rco = prims.rets_after(tp, [NPW, r'^self\.current_operation is Some$'])
    ctx.ob(rco == {'Some'}, 'next-time: with no write pending, an operation that is only partially encoded always yields "service me now" (the service loop continues it without consulting the queues) (%s)' % sorted(rco or ['test not found']),
           'mirror|current-operation', loc=tp.loc(), rule='R-C08-1')
    sqa_ = ctx.fn('ProtocolState::service_queue_aux')
    enc_ = sqa_.calls('Encoder::encode')
    dq_ = sqa_.calls('ProtocolState::dequeue_operation')
    ctx.ob(len(enc_) == 1 and len(dq_) == 1 and guarded_any(sqa_, dq_[0].bb, [r'^self\.current_operation is None$']) and not guarded_any(sqa_, enc_[0].bb, [r'^self\.current_operation is None$']),
           'service loop: a current operation is continued without dequeuing (so the queues alone do not describe the pending work)', 'mirror|current-operation|continued', loc=sqa_.loc(), rule='R-C08-1')
