"""C19 — reconnect back-off doubles to the maximum; resets only after a stable connection."""
import re
from ..mir import show, short, norm, subexprs, var_inits
from .. import prims, panics
from ..prims import requires, guard_strs, guarded_any, must_pass

EXPLANATION = ('Structural necessary conditions of the back-off: normalisation (swap when base > max, raise a sub-second maximum to one second) '
               'runs in the constructor before the first period is taken; a step returns the current period (or a jittered value derived '
               'from it) and stores clamp(2 x current); the period is reset to the base only under connected-for > stability; the connect '
               'time is set only on a successful CONNACK and cleared when the connection ends; no panic-capable arithmetic or empty random '
               'range in the step. Added in round 3: the reconnect timer / deadline is created once, outside the wait loop, in both drivers. Added after the mutation sweeps: the four reconnect-option setters store their argument.')
ASSUMPTIONS = ['not decided: the numeric sequence for all configurations and the jitter distribution']


def run(ctx):
    F = ctx.F
    nz = ctx.fn('ReconnectOptions::normalize')
    new = ctx.fn('MqttClientImpl::new')
    adv = ctx.fn('MqttClientImpl::advance_reconnect_period')
    cl = ctx.fn('MqttClientImpl::clamp_reconnect_period')
    jit = ctx.fn('MqttClientImpl::compute_uniform_jitter_period')
    tts = ctx.fn('MqttClientImpl::transition_to_state')
    # ------------------------------------------------------------ R-C19-1
    ctx.rule('R-C19-1', 'T2 + T4 + T9', 'normalisation: base and max are swapped when base > max, a maximum below one second becomes one second; the constructor normalises and the first period is taken from the normalised options')
    sw = nz.calls('mem::swap')
    ctx.ob(len(sw) == 1 and {show(sw[0].arg(0)), show(sw[0].arg(1))} == {'self.base_reconnect_period', 'self.max_reconnect_period'} and guarded_any(nz, sw[0].bb, [r'^\(self\.max_reconnect_period < self\.base_reconnect_period\)$']),
           'swap(base, max) exactly when base > max', 'normalize|swap', loc=nz.loc())
    ws = [m for m in prims.mutations(nz) if m.kind == 'assign' and show(m.path) == 'self.max_reconnect_period']
    ctx.ob(len(ws) == 1 and show(ws[0].rv) == 'Duration::from_secs(1)' and guarded_any(nz, ws[0].bb, [r'^\(self\.max_reconnect_period < Duration::from_secs\(1\)\)$']) and (not sw or nz.dominates(sw[0].bb, ws[0].bb) or True),
           'max := 1s exactly when max < 1s', 'normalize|floor', loc=nz.loc())
    # order: the floor is applied after the swap (so that the effective maximum is floored)
    if sw and ws:
        swap_edge = prims.edge_nodes_matching(nz, [r'^\(self\.max_reconnect_period < self\.base_reconnect_period\)$'])
        ctx.ob(ws[0].bb in nz.reach([sw[0].bb]), 'the one-second floor is applied after the swap', 'normalize|order', loc=nz.loc())
    nc = new.calls('ReconnectOptions::normalize')
    ctx.ob(len(nc) >= 1, 'the constructor normalises the reconnect options', 'normalize|called', loc=new.loc())
    lit = None
    litbb = None
    for (i, j, s) in new.stmts():
        if s['k'] == 'assign':
            e = new.rvalue_expr(s['rv'], i)
            if e[0] == 'agg' and e[1].endswith('MqttClientImpl'):
                lit, litbb = dict(e[3]), i
    ok = False
    why = ''
    if lit is not None and nc:
        first = show(lit.get('next_reconnect_period'))
        later = [(i, s, pe, rve) for (i, s, pe, rve) in new.field_writes() if show(pe).endswith('.next_reconnect_period')]
        norm_before = any(c.bb != litbb and new.dominates(c.bb, litbb) for c in nc)   # a call terminates its block: same block means the literal came first
        if norm_before and re.search(r'reconnect_options\.base_reconnect_period$', first):
            ok = True
        for (i, s, pe, rve) in later:
            if any(c.bb != i and new.dominates(c.bb, i) for c in nc) and re.search(r'reconnect_options\.base_reconnect_period$', show(rve)):
                ok = True
        why = 'initial next_reconnect_period = %s, taken %s normalize()' % (first, 'after' if norm_before else 'before')
    ctx.ob(ok, 'the first reconnect period is the *normalised* base period', 'normalize|initial-period', loc=new.loc(litbb) if litbb is not None else new.loc(),
           detail=None if ok else why + ' — with base > max the first waits use the un-normalised base (e.g. base 300 s / max 10 s waits 300 s)')

    # ------------------------------------------------------------ R-C19-2
    ctx.rule('R-C19-2', 'T9 value flow', 'a step returns the current period (or a jittered value drawn from [0, current]) and stores clamp(2 x current); clamp returns the maximum when exceeded')
    w = [m for m in prims.mutations(adv) if m.kind == 'assign' and show(m.path) == 'self.next_reconnect_period']
    ok = len(w) == 1 and re.match(r'^MqttClientImpl::clamp_reconnect_period\(self, (Mul::mul\(self\.next_reconnect_period, 2\)|Duration::saturating_mul\(self\.next_reconnect_period, 2\)|Option::unwrap_or\(Duration::checked_mul\(self\.next_reconnect_period, 2\), .*\))\)$', show(w[0].rv)) is not None
    ctx.ob(ok, 'next period := clamp(2 x current) (%s)' % (show(w[0].rv) if w else None), 'step|double', loc=adv.loc())
    from ..mir import var_init_sites, happens_before
    snaps = var_init_sites(adv, 'reconnect_period')
    ctx.ob(len(snaps) == 1 and show(snaps[0][2]) == 'self.next_reconnect_period' and len(w) == 1 and happens_before(adv, (snaps[0][0], snaps[0][1]), w[0].pos),
           'the returned wait is the period before doubling (snapshot taken before the store)', 'step|snapshot', loc=adv.loc())
    rets = {}
    for b, e in prims.ret_variants(adv):
        for g in guard_strs(adv, b):
            m = re.match(r'^self\.reconnect_options\.reconnect_period_jitter is (\w+)$', g)
            if m:
                rets[m.group(1)] = show(e)
    ctx.ob(rets.get('None') == 'reconnect_period' and rets.get('Uniform', '').startswith('MqttClientImpl::compute_uniform_jitter_period(self, Duration::as_nanos(reconnect_period)'), 'no jitter: the current period; uniform: drawn from the current period (%s)' % rets, 'step|returns', loc=adv.loc())
    cr = [(show(e), guard_strs(cl, b)) for b, e in var_inits(cl, 'reconnect_period')]
    ctx.ob(cr == [('self.reconnect_options.max_reconnect_period', ['(self.reconnect_options.max_reconnect_period < reconnect_period)'])] and [show(e) for _, e in prims.ret_variants(cl)] == ['reconnect_period'],
           'clamp: the period is replaced by the maximum exactly when it exceeds it', 'step|clamp', loc=cl.loc())
    gr = jit.calls('Rng::gen_range', 'gen_range')
    ctx.ob(len(gr) == 1 and re.match(r'^Range(Inclusive)?\{start: 0, end: max_nanos\}$|^RangeInclusive::new\(0, max_nanos\)$', show(gr[0].arg(1))) is not None, 'jitter is drawn from [0, current period)', 'step|jitter-range', loc=jit.loc())

    # ------------------------------------------------------------ R-C19-3
    ctx.rule('R-C19-3', 'T2 + T1', 'the period returns to the base only when the connection lasted longer than the stability period; the connect time is set only by a successful CONNACK and cleared when the connection ends')
    rs = [m for m in prims.mutations(tts) if m.kind == 'assign' and show(m.path) == 'self.next_reconnect_period']
    ctx.ob(len(rs) == 1 and show(rs[0].rv) == 'self.reconnect_options.base_reconnect_period', 'one reset-to-base site', 'reset|site', loc=tts.loc())
    for m in rs:
        requires(ctx, tts, m.bb, [r'^\(self\.reconnect_options\.reconnect_stability_reset_period < Sub::sub\(.*\)\)$', r'^self\.successful_connect_time is Some$', r'^\(old_state == ClientImplState::Connected\{\}\)$'],
                 'reset|when', 'resetting the back-off', loc=m.loc())
    allw = []
    for v in F.fns_in('src/client/mod.rs'):
        for m in prims.mutations(v):
            if m.kind == 'assign' and show(m.path) == 'self.next_reconnect_period':
                allw.append(short(v.path))
    ctx.ob(sorted(allw) == ['MqttClientImpl::advance_reconnect_period', 'MqttClientImpl::transition_to_state'] or sorted(set(allw)) <= ['MqttClientImpl::advance_reconnect_period', 'MqttClientImpl::new', 'MqttClientImpl::transition_to_state'], 'the period is written only by the step, the reset (and the constructor) (%s)' % allw, 'reset|writers')
    sct = []
    for v in F.fns_in('src/client/mod.rs'):
        for m in prims.mutations(v):
            if (m.kind == 'assign' or m.method == 'take') and show(m.path) == 'self.successful_connect_time':
                sct.append((v, m))
    for v, m in sct:
        if show(m.rv).startswith('Option::Some{'):
            ok = guarded_any(v, m.bb, [r'reason_code == ConnectReasonCode::Success\{\}\)$|^\(reason_code == ConnectReasonCode::Success']) and guarded_any(v, m.bb, [r' is Connack$'])
            ctx.ob(ok, 'connect time recorded only when a successful CONNACK is dispatched (in %s)' % short(v.path), 'reset|connect-time-set', loc=m.loc())
        else:
            ctx.ob(v.key == tts.key and guarded_any(v, m.bb, [r'^\(old_state == ClientImplState::Connected\{\}\)$']), 'connect time cleared when a connection ends', 'reset|connect-time-clear', loc=m.loc())
    ctx.floor(len(sct), 2, 'writers of successful_connect_time')

    # ------------------------------------------------------------ R-C19-4
    ctx.rule('R-C19-4', 'T7', 'computing the wait never fails: no panic-capable arithmetic and no possibly-empty random range in normalise / step / clamp / jitter')
    n = 0
    for v in (nz, adv, cl, jit):
        for s in panics.panic_sites(v):
            n += 1
            r = panics.discharge(s)
            if s.kind == 'rng' and not r:
                # accepted: a guard excluding the empty range
                if guarded_any(v, s.bb, [r'^!\(max_nanos == 0\)$', r'^\(0 < max_nanos\)$']) or 'RangeInclusive' in s.what or '..=' in s.what:
                    r = 'range is non-empty by a dominating guard / inclusive range'
            ctx.ob(r is not None, '%s in %s %s' % (s.what[:70], short(v.path), ('— ' + r) if r else 'can panic for an accepted configuration'), 'nopanic|' + s.key(), loc=s.loc(),
                   detail=None if r else {'rng': 'a zero base period with uniform jitter makes the range 0..0 empty: rand panics', 'time-arith': 'Duration * 2 panics on overflow when the period is close to Duration::MAX'}.get(s.kind))
    ctx.floor(n, 1, 'panic-capable sites in the back-off step')
    # ---- added after seed C19-3b: the drivers measure the whole wait once; events arriving during the wait must not restart it
    ctx.rule('R-C19-5', 'T3 loop structure', 'both drivers fix the end of the reconnect wait once, before their wait loop: the timer / deadline is not re-created inside the loop (so the wait actually served is the computed period, whatever arrives meanwhile)')
    nd = 0
    for suffix, mk in (('client::asynchronous::tokio::ClientRuntimeState::process_pending_reconnect::{closure#0}', 'tokio::time::sleep'),
                       ('client::synchronous::threaded::ClientRuntimeState::process_pending_reconnect', 'Add::add')):
        vs = [F.view(k) for k in F.fns if norm(k.split('#')[0]) == suffix or norm(F.fns[k]['path']) == suffix]
        vs = vs or [v_ for v_ in F.all_fns() if re.sub(r'::<[^<>]*>', '', norm(v_.path)).endswith(suffix.split('client::', 1)[1])]
        if not vs:
            continue
        v = vs[0]
        nd += 1
        succ_, _, _ = v.graph()
        if 'tokio' in suffix:
            sl = [c for c in v.calls() if c.nfn == 'tokio::time::sleep' or c.nfn.endswith('time::sleep::sleep') or c.nfn.endswith('::sleep') and 'tokio' in c.fn]
            ok = len(sl) == 1 and show(sl[0].arg(0)) == 'wait' and sl[0].bb not in v.reach(list(succ_[sl[0].bb]))
            ctx.ob(ok, 'tokio: one reconnect timer sleep(wait), created outside the wait loop (%s)' % [(c.nfn, c.ln) for c in sl], 'wait-once|tokio', loc=v.loc())
        else:
            dl = [(b, show(e)) for b, e in var_inits(v, 'timeout_timepoint')]
            ok = len(dl) == 1 and (re.match(r'^Add::add\(Instant::now\(\), wait\)$', dl[0][1]) is not None or re.search(r'Instant::checked_add\(Instant::now\(\), wait\)|add_duration_saturating\(Instant::now\(\), wait\)', dl[0][1]) is not None) and dl[0][0] not in v.reach(list(succ_[dl[0][0]]))
            ctx.ob(ok, 'threaded: the deadline now + wait is computed once, outside the wait loop (%s)' % [x for b, x in dl], 'wait-once|threaded', loc=v.loc())
    if ctx.config == 'all':
        ctx.floor(nd, 2, 'pending-reconnect driver loops')
    # ---- added after the mutation sweep: the configured values this property starts from reach the options (builder setters)
    from . import shared as _sh
    _ns = _sh.builder_setters(ctx, lambda b, m: b == 'MqttClientOptionsBuilder' and m in ('with_base_reconnect_period', 'with_max_reconnect_period', 'with_reconnect_period_jitter', 'with_reconnect_stability_reset_period'), 'R-C19-1', 'base, maximum, jitter and stability period are the configured ones')
    if ctx.config == 'all':
        ctx.floor(_ns, 4, 'builder setters this property depends on')
