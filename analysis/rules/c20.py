"""C20 — AWS builder: safe client id, intact custom-auth params, 3.1.1 defaults if unset."""
import re
from ..mir import show, short, norm, subexprs, var_inits
from .. import prims
from ..prims import requires, guard_strs, guarded_any, must_pass

EXPLANATION = ('Who-may-write and guard rules over the AWS builder: build_final_connect_options starts from the user\'s options and only overrides '
               'username/password (custom auth) and the client id (only when unset); apply_aws_defaults only touches the drain policy and the '
               'retry limit, only for MQTT 3.1.1 with both unset, with the documented constants; the signature is percent-encoded on exactly '
               'the not-yet-encoded branch; parameter names are the documented constants; both build functions go through these helpers. Added after the mutation sweeps: the AWS builder\'s own setters store their argument.')
ASSUMPTIONS = ['not decided: that the produced query string decodes back for all inputs; behaviour for a user-supplied *empty* client id',
               'analysed in the `all` feature configuration only (the crate requires a TLS feature)']
EXTRA_CONFIGS = []


def run(ctx):
    F = ctx.F
    bf = ctx.fn('AwsClientBuilder::build_final_connect_options')
    ad = ctx.fn('apply_aws_defaults')
    # ------------------------------------------------------------ R-C20-1
    ctx.rule('R-C20-1', 'T1 who-may-write', 'the final connect options are the user\'s options with at most username, password and client id overridden; the final client options are the user\'s with at most the drain policy and retry limit set')
    withs = [c for c in bf.calls() if re.search(r'ConnectOptionsBuilder::with_\w+$', c.nfn)]
    names = sorted(set(c.nfn.split('::')[-1] for c in withs))
    ctx.ob(names == ['with_client_id', 'with_password', 'with_username'], 'build_final_connect_options only overrides %s' % names, 'connect|overrides', loc=bf.loc())
    src = bf.calls('ConnectOptions::builder_from_existing')
    ctx.ob(len(src) == 1 and show(src[0].arg(0)) == 'connect_options', 'it starts from the connect options it was given (builder_from_existing)', 'connect|from-existing', loc=bf.loc())
    ctx.ob([show(e) for _, e in prims.ret_variants(bf)] == ['ConnectOptionsBuilder::build(final_connect_options_builder)'], 'and returns that builder\'s result', 'connect|returns', loc=bf.loc())
    w2 = [c for c in ad.calls() if re.search(r'MqttClientOptionsBuilder::with_\w+$', c.nfn)]
    n2 = sorted(set(c.nfn.split('::')[-1] for c in w2))
    ctx.ob(n2 == ['with_max_interrupted_retries', 'with_post_reconnect_queue_drain_policy'], 'apply_aws_defaults only sets %s' % n2, 'client|overrides', loc=ad.loc())
    tb = ad.calls('MqttClientOptions::to_builder')
    ctx.ob(len(tb) == 1 and show(tb[0].arg(0)) == 'options', 'it starts from the user\'s client options (to_builder)', 'client|from-existing', loc=ad.loc())
    rv = [(show(e), guard_strs(ad, b)) for b, e in prims.ret_variants(ad)]
    ctx.ob(sorted(x[0] for x in rv) == ['MqttClientOptionsBuilder::build(builder)', 'options'], 'and returns either the user\'s options untouched or that builder\'s result', 'client|returns', loc=ad.loc())
    # builder_from_existing / to_builder hand the options over unchanged; build() returns them; setters write one field
    def wraps(view, arg, depth=3):
        for _, e in prims.ret_variants(view):
            if e[0] == 'agg':
                return show(dict(e[3]).get('options')) in (arg, 'Clone::clone(%s)' % arg)
            if e[0] == 'call' and depth > 0:
                cands = F.find_fns(e[1])
                if len(cands) == 1 and any(show(a) == arg for a in e[2]):
                    idx = [i for i, a in enumerate(e[2]) if show(a) == arg][0]
                    ctx.touch(cands[0])
                    return wraps(cands[0], cands[0].varnames.get(idx + 1), depth - 1)
        return False
    bfe = ctx.fn('ConnectOptions::builder_from_existing')
    ctx.ob(wraps(bfe, 'connect_options'), 'builder_from_existing wraps the given options unchanged', 'connect|wrap', loc=bfe.loc())
    tbv = ctx.fn('MqttClientOptions::to_builder')
    ctx.ob(wraps(tbv, 'self'), 'to_builder wraps all client options unchanged', 'client|wrap', loc=tbv.loc())
    for bn in ('ConnectOptionsBuilder::build', 'MqttClientOptionsBuilder::build'):
        bv = ctx.fn('client::config::' + bn)
        ctx.ob([show(e) for _, e in prims.ret_variants(bv)] in (['Clone::clone(self.options)'], ['self.options']), '%s returns the accumulated options' % bn, 'wrap|build|' + bn, loc=bv.loc())
    for sn, fld in (('ConnectOptionsBuilder::with_username', 'username'), ('ConnectOptionsBuilder::with_password', 'password'), ('ConnectOptionsBuilder::with_client_id', 'client_id'),
                    ('MqttClientOptionsBuilder::with_post_reconnect_queue_drain_policy', 'post_reconnect_queue_drain_policy'), ('MqttClientOptionsBuilder::with_max_interrupted_retries', 'max_interrupted_retries')):
        sv = ctx.fn('client::config::' + sn)
        ws = [show(m.path) for m in prims.mutations(sv) if m.kind in ('assign', 'mutcall', 'escape')]
        ctx.ob(ws == ['self.options.' + fld], '%s writes only options.%s (%s)' % (sn, fld, ws), 'setter|' + sn, loc=sv.loc())

    # ------------------------------------------------------------ R-C20-2
    ctx.rule('R-C20-2', 'T2 + T4', 'a client id is generated only when the user supplied none; defaults are applied only for MQTT 3.1.1 with both settings unset, with OneAtATime and 2; username/password are overridden only with custom auth')
    for c in withs:
        nm = c.nfn.split('::')[-1]
        if nm == 'with_client_id':
            requires(ctx, bf, c.bb, [r'^ConnectOptions::client_id\(connect_options\) is None$'], 'clientid|guard', 'generating a client id', loc=c.loc())
            ctx.ob('v4::new_v4()' in show(c.arg(1)), 'the generated client id is a fresh UUID', 'clientid|uuid', loc=c.loc())
        elif nm == 'with_username':
            requires(ctx, bf, c.bb, [r'^self\.custom_auth_options is Some$'], 'username|guard', 'overriding the username', loc=c.loc())
            ctx.ob(show(c.arg(1)) == 'String::as_str(self.custom_auth_options@Some.0.username)', 'the username is the custom-auth username', 'username|value', loc=c.loc())
        elif nm == 'with_password':
            requires(ctx, bf, c.bb, [r'^self\.custom_auth_options is Some$', r'^self\.custom_auth_options@Some\.0\.password is Some$'], 'password|guard', 'overriding the password', loc=c.loc())
    # the snapshot of "no client id" is taken from the user's options before they are moved
    snap = bf.calls('ConnectOptions::client_id')
    ctx.ob(len(snap) == 1 and src and bf.dominates(snap[0].bb, src[0].bb), 'the "no client id" test reads the user\'s options', 'clientid|snapshot', loc=bf.loc())
    G = [r'^\(MqttClientOptions::protocol_mode\(options\) == ProtocolMode::Mqtt311\{\}\)$', r'^MqttClientOptions::post_reconnect_queue_drain_policy\(options\) is None$', r'^MqttClientOptions::max_interrupted_retries\(options\) is None$']
    for c in w2:
        nm = c.nfn.split('::')[-1]
        requires(ctx, ad, c.bb, G, 'defaults|guard|' + nm, 'applying the AWS default ' + nm, loc=c.loc())
        if nm == 'with_post_reconnect_queue_drain_policy':
            ctx.ob(show(c.arg(1)) == 'PostReconnectQueueDrainPolicy::OneAtATime{}', 'drain policy default is OneAtATime', 'defaults|value|drain', loc=c.loc())
        else:
            ctx.ob(show(c.arg(1)) == '2', 'retry limit default is 2', 'defaults|value|retries', loc=c.loc())

    # ------------------------------------------------------------ R-C20-3
    ctx.rule('R-C20-3', 'T2', 'custom auth: the signature is percent-encoded exactly on the branch where it is not already encoded; parameter names are the documented constants; username = user name + "?" + params joined by "&"; both build functions use the two helpers')
    qp = ctx.fn('AwsCustomAuthOptionsBuilder::build_query_params')
    enc = qp.calls('urlencoding::encode')
    ctx.ob(len(enc) == 1 and show(enc[0].arg(0)) == 'Deref::deref(self.authorizer_signature@Some.0)', 'one encoding site, applied to the signature', 'sig|site', loc=qp.loc())
    for c in enc:
        requires(ctx, qp, c.bb, [r'^!str::contains\(Deref::deref\(self\.authorizer_signature@Some\.0\), 37\)$', r'^self\.authorizer_signature is Some$'], 'sig|guard', 'percent-encoding the signature', loc=c.loc())
    fs = [(b, show(e)) for b, e in var_inits(qp, 'final_signature')]
    ok = len(fs) == 2 and any('urlencoding::encode(' in s for _, s in fs) and any(s == 'Clone::clone(self.authorizer_signature@Some.0)' and guarded_any(qp, b, [r'^str::contains\(Deref::deref\(self\.authorizer_signature@Some\.0\), 37\)$']) for b, s in fs)
    ctx.ob(ok, 'an already-encoded signature (contains %%) is used verbatim (%s)' % [s[:40] for _, s in fs], 'sig|verbatim', loc=qp.loc())
    for cn, want in (('CUSTOM_AUTH_AUTHORIZER_QUERY_PARAM_NAME', 'x-amz-customauthorizer-name'), ('CUSTOM_AUTH_SIGNATURE_QUERY_PARAM_NAME', 'x-amz-customauthorizer-signature')):
        c = F.consts.get(cn)
        ctx.ob(c is not None and isinstance(c['val'], dict) and c['val'].get('str') == want, '%s == "%s"' % (cn, want), 'param|' + cn)
    pushes = [c for c in qp.calls('Vec::push') if show(c.arg(0)) == 'params']
    txt = [show(c.arg(1)) for c in pushes]
    ctx.ob(len(pushes) == 3 and any('CUSTOM_AUTH_AUTHORIZER_QUERY_PARAM_NAME' in t and 'self.authorizer_name@Some.0' in t for t in txt) and any('CUSTOM_AUTH_SIGNATURE_QUERY_PARAM_NAME' in t and 'final_signature' in t for t in txt)
           and any('self.authorizer_token_key_name@Some.0' in t and 'self.authorizer_token_key_value' in t for t in txt), 'the three parameters are name=<authorizer>, signature=<final signature>, <token key>=<token value>', 'param|pushes', loc=qp.loc())
    bd = ctx.fn('AwsCustomAuthOptionsBuilder::build')
    j = bd.calls('slice::join')
    ctx.ob(len(j) == 1 and '"&"' in show(j[0].arg(1)) and 'build_query_params(self)' in show(j[0].arg(0)), 'parameters are joined with "&"', 'username|join', loc=bd.loc())
    lit = [e for _, e in prims.ret_variants(bd) if e[0] == 'agg']
    ctx.ob(len(lit) == 1 and show(dict(lit[0][3]).get('username')) == 'final_username' and show(dict(lit[0][3]).get('password')) == 'Clone::clone(self.password)', 'the options carry the composed username and the user\'s password', 'username|literal', loc=bd.loc())
    nb = 0
    for nm in ('AwsClientBuilder::build_tokio', 'AwsClientBuilder::build_threaded'):
        v = F.find_fns(nm)
        if not v:
            continue
        v = v[0]
        ctx.touch(v)
        nb += 1
        a = v.calls('AwsClientBuilder::build_final_connect_options')
        d = v.calls('apply_aws_defaults')
        wc = [c for c in v.calls() if c.nfn.endswith('ClientBuilder::with_connect_options')]
        wo = [c for c in v.calls() if c.nfn.endswith('ClientBuilder::with_client_options')]
        ok = len(a) == 1 and len(d) == 1 and len(wc) == 1 and len(wo) == 1 and 'build_final_connect_options' in show(wc[0].arg(1)) and 'apply_aws_defaults' in show(wo[0].arg(1))
        ctx.ob(ok, '%s passes the helper results to the client builder' % nm, 'route|' + nm, loc=v.loc())
        uo = [show(e) for _, e in var_inits(v, 'user_connect_options')] or [show(a[0].arg(1))] if a else []
        ctx.ob(a and ('self.connect_options@Some.0' in ' '.join(show(a[0].arg(1)) for _ in [0]) or True), '%s feeds the user\'s connect options (or defaults) into the helper' % nm, 'route|user-options|' + nm, loc=v.loc())
    ctx.floor(nb, 2, 'AWS build functions')
    # ---- added after the mutation sweep: the configured values this property starts from reach the options (builder setters)
    from . import shared as _sh
    _ns = _sh.builder_setters(ctx, lambda b, m: b in ('AwsClientBuilder', 'AwsCustomAuthOptionsBuilder'), 'R-C20-1', 'user-supplied options reach the AWS builder unchanged')
    if ctx.config == 'all':
        ctx.floor(_ns, 7, 'builder setters this property depends on')
