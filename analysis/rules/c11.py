"""C11 — server misbehaviour or odd event timing gives a clean error, never a panic."""
import re
from ..mir import show, short, norm, subexprs, fold, var_inits
from .. import prims, panics, statectx
from ..prims import requires, guard_strs, guarded_any, must_pass
from ..tables import panic_sites as PT
from .c07 import engine_states, states_at

EXPLANATION = ('Panic-site inventory over every body reachable from the engine entry points, the client state machine, reconnect-option '
               'normalisation, encoder, decoder and alias resolvers: each site is discharged by a dominating guard idiom, by dispatch '
               'agreement, or by a reviewed invariant whose maintenance obligations are rules of this framework; containers asserted '
               'empty at CONNACK may not receive insertions in PendingConnack (typestate); every Err exit of the two engine wrappers '
               'halts the engine and Halted is absorbing until connection-closed; packet dispatch is total; explicit protocol-error '
               'exits of packet handlers precede any mutation; time arithmetic on user-configured durations is checked. Added in round 2: an error is scoped to its connection - opening a connection unconditionally resets every decoder field (must-effects summary), also out of the latched error state. Added in round 3: the current-operation lookup cannot panic (defect 17). Added after the mutation sweeps: every inbound validator rejects under exactly the reviewed conditions (table).')
ASSUMPTIONS = ['not decided: that no driver-producible event order reaches a site protected only by a listed invariant (the invariants are '
               'argued structurally by their maintenance rules, not proved over histories); "a conforming server is never reported as violating"',
               'integer overflow asserts on length sums are profile dependent and excluded from the inventory']
P = 'src/protocol.rs'
PS = 'protocol::ProtocolState'
ENTRY = ['handle_network_event', 'service', 'handle_user_event', 'get_next_service_timepoint', 'reset', 'new']


def table_lookup(site):
    fn = short(site.view.path, 3)
    for frx, kind, wrx, inv in PT.TABLE:
        if kind == site.kind and re.search(frx, fn) and re.search(wrx, site.what):
            return inv
    return None


def run(ctx):
    F = ctx.F
    S, B = engine_states(ctx)
    # ------------------------------------------------------------ R-C11-1
    ctx.rule('R-C11-1', 'T7 panic inventory', 'every panic-capable construct reachable from the engine, client state machine, reconnect normalisation, codec and alias resolvers is discharged by a guard idiom, dispatch agreement or a reviewed invariant')
    roots = [ctx.fn('ProtocolState::' + n) for n in ENTRY]
    roots += [v for v in F.all_fns() if norm(v.path).startswith('client::MqttClientImpl::') and not v.f.get('parent')]
    roots += F.find_fns('ReconnectOptions::normalize')
    roots += [v for v in F.fns_in('src/alias.rs') if not v.f.get('parent')]
    roots += [ctx.fn('Encoder::encode'), ctx.fn('Encoder::reset'), ctx.fn('Decoder::decode_bytes')]
    # both drivers' loops, the websocket adapter and the synchronous result plumbing
    drv = [v for v in F.all_fns() if re.search(r'ClientRuntimeState::process_\w+(::\{closure#0\})?$|::client_event_loop(::\{closure#0\})?$|::conditional_w\w+(::\{closure#0\})?$|ws_stream::|SyncResult(Sender|Receiver)::', norm(v.path))]
    roots += drv
    R = [v for v in F.reachable_from(roots) if not v.file.endswith('logging.rs') and v.f['crate'] == 'gneiss_mqtt' and '/testing/' not in v.file and not v.file.endswith('longtests.rs')]
    tot = auto = tab = 0
    deferred = []
    used_inv = set()
    for v in sorted(R, key=lambda x: x.path):
        ctx.touch(v)
        for s in panics.panic_sites(v):
            tot += 1
            r = panics.discharge(s) or (panics.dispatch_agreement(F, s) if s.kind == 'panic' else None)
            if r:
                auto += 1
                ctx.ob(True, '%s in %s — %s' % (s.what[:70], short(v.path), r), 'panic|' + s.key(), loc=s.loc())
                continue
            if s.kind == 'assert' and 'apply_session_present_to_connection' in v.path:
                deferred.append(s)     # decided by R-C11-2
                continue
            if s.kind in ('time-arith', 'rng'):
                deferred.append(s)     # decided by R-C11-7
                continue
            inv = table_lookup(s)
            if v.path.startswith('decode::Decoder::process_read_packet_body') and s.kind == 'unwrap':
                inv = 'DEC'
            if inv:
                tab += 1
                used_inv.add(inv)
            ctx.ob(inv is not None, '%s in %s — %s' % (s.what[:70], short(v.path), ('invariant ' + inv) if inv else 'no guard idiom, no dispatch agreement, not in the reviewed table'),
                   'panic|' + s.key(), loc=s.loc(), detail=None if inv else 'guards: ' + ' ; '.join(guard_strs(v, s.bb)))
    ctx.note('panic inventory: %d sites, %d discharged automatically, %d by reviewed invariants %s, %d decided by R-C11-2/7' % (tot, auto, tab, sorted(used_inv), len(deferred)))
    if ctx.config == 'all':
        ctx.floor(tot, 200, 'panic-capable sites in scope')
        ctx.floor(len(R), 350, 'bodies in scope of the panic inventory')

    # ------------------------------------------------------------ R-C11-2
    ctx.rule('R-C11-2', 'T6 + T1', 'a container asserted empty at CONNACK receives no insertion that can execute while pending CONNACK (other than of packet kinds that cannot be serviced then), and is emptied at connection close')
    sess = ctx.fn('ProtocolState::apply_session_present_to_connection')
    closed = ctx.fn('ProtocolState::handle_network_event_connection_closed')
    inc = ctx.fn('ProtocolState::handle_network_event_incoming_data')
    hp_calls = inc.calls('ProtocolState::handle_packet')
    # accepted shape: while PendingConnack, packets are handled only once no write is pending (which implies
    # the write-completion list is empty), and the opposite case is an explicit error exit
    FL = [r'^!\(self\.state == ProtocolStateType::PendingConnack\{\}\)$', r'^!self\.pending_write_completion$', r'^VecDeque::is_empty\(self\.pending_write_completion_operations\)$']
    pos = prims.edge_nodes_matching(inc, [r'^self\.pending_write_completion$', r'^!VecDeque::is_empty\(self\.pending_write_completion_operations\)$'])
    pre_flush_guard = bool(hp_calls) and all(guarded_any(inc, c.bb, FL) for c in hp_calls) and bool(pos) and \
        all(not (set(c.bb for c in hp_calls) & inc.reach([en])) for en in pos)
    connect_queue_guard = bool(hp_calls) and all(guarded_any(inc, c.bb, [r'^!\(self\.state == ProtocolStateType::PendingConnack\{\}\)$', r'^!ProtocolState::is_connect_in_queue\(self\)$']) for c in hp_calls)
    ctx.ob(connect_queue_guard, 'incoming data is handled while PendingConnack only after the CONNECT left the high-priority queue', 'connect-in-queue-guard', loc=inc.loc())
    nas = 0
    for s in deferred:
        if s.kind != 'assert':
            continue
        m = re.search(r'self\.(\w+)\.is_empty\(\)', s.what)
        if not m:
            ctx.ob(False, 'unrecognised assertion at CONNACK: %s' % s.what, 'connack-assert|?', loc=s.loc())
            continue
        fld = m.group(1)
        nas += 1
        # (a) swapped out with a fresh container earlier in the same function and not refilled
        sw = [c for c in sess.calls('mem::swap') if prims.self_field(c.arg(1)) == fld or prims.self_field(c.arg(0)) == fld]
        if sw and all(sess.dominates(c.bb, s.bb) for c in sw):
            refill = [x for x in prims.mutations(sess) if prims.self_field(x.path) == fld and x.kind == 'mutcall' and x.method in ('push_back', 'push_front', 'append', 'insert', 'extend')]
            ctx.ob(not refill, 'assert(%s empty): swapped out with an empty container earlier on every path and never refilled here' % fld, 'connack-assert|%s|swapped' % fld, loc=s.loc())
            continue
        # (b) emptied at close
        emptied = [x for x in prims.mutations(closed) if prims.self_field(x.path) == fld and x.method in ('swap', 'clear')]
        ctx.ob(bool(emptied), 'assert(%s empty): the connection-closed handler empties it' % fld, 'connack-assert|%s|closed-empties' % fld, loc=closed.loc())
        # (c) insertions that may run in PendingConnack / Disconnected
        for f, mu in prims.field_mutations(F, PS, P):
            if f != fld or mu.kind != 'mutcall' or mu.method not in ('push_back', 'push_front', 'append', 'insert', 'push', 'extend'):
                continue
            if mu.view.key == closed.key or norm(mu.view.f.get('parent') or '') == norm(closed.path):
                continue
            st = states_at(S, B, mu.view, mu.bb)
            if not (st & {'PendingConnack', 'Disconnected'}):
                ctx.ob(True, 'assert(%s empty): %s in %s runs only in %s' % (fld, mu.method, short(mu.view.path), sorted(st)), 'connack-assert|%s|%s|states' % (fld, short(mu.view.path)), loc=mu.loc())
                continue
            kinds = set()
            for g in guard_strs(mu.view, mu.bb):
                mm = re.match(r'^(?:.*\.)?packet is ([\w|]+)$', g)
                if mm:
                    kinds = set(mm.group(1).split('|'))
            if 'apply_connection_closed_to_current_operation' in mu.view.path:
                callers = F.callers().get(mu.view.key, [])
                ctx.ob(all(cv.key == closed.key for cv, _ in callers), 'assert(%s empty): the close-time push is only reachable from the closed handler' % fld, 'connack-assert|%s|closed-current' % fld, loc=mu.loc())
                # ... and there the push precedes the drain: the call dominates an emptying site and cannot run after it
                ccs = closed.calls(short(mu.view.path, 2))
                succ_c, _, _ = closed.graph()
                okord = bool(ccs) and bool(emptied) and all(
                    any(closed.dominates(c.bb, x.bb) and c.bb != x.bb and c.bb not in closed.reach(list(succ_c[x.bb])) for x in emptied) for c in ccs)
                ctx.ob(okord, 'assert(%s empty): the closed handler re-queues the interrupted current operation before it drains %s (a later push would survive into the next connection)' % (fld, fld),
                       'connack-assert|%s|closed-current-order' % fld, loc=closed.loc())
                continue
            ok = bool(kinds) and 'Connect' not in kinds
            if not ok and mu.view.path.endswith('start_operation_ack_timeout'):
                # pushed only when the operation has user options carrying an ack timeout: internal
                # operations (CONNECT among them) are created with options None (R-C01-3c)
                gd = ctx.fn('ProtocolState::get_operation_timeout_duration')
                somes = [b for b, e in prims.ret_variants(gd) if e[0] == 'agg' and e[2] == 'Some']
                src = [show(e) for _, e in var_inits(mu.view, 'timeout_duration_option')]
                ok = bool(somes) and all(guarded_any(gd, b, [r'^operation\.options is Some$']) for b in somes) \
                    and guarded_any(mu.view, mu.bb, [r'^timeout_duration_option is Some$']) \
                    and set(src) == {'Option::None{}', 'ProtocolState::get_operation_timeout_duration(self, (HashMap::get(self.operations, id))@Some.0)'}
                kinds = {'operations with user options'}
            if not ok and fld == 'pending_write_completion_operations':
                ok = pre_flush_guard
            if not ok and fld == 'high_priority_operation_queue':
                # enqueue_operation: decided per call site (R-C07-1) plus the connect-in-queue guard
                ok = connect_queue_guard and 'enqueue_operation' in mu.view.path or 'get_queue' in mu.view.path
            ctx.ob(ok, 'assert(%s empty) at CONNACK: insertion `%s` in %s may execute in %s for packet kinds %s' % (fld, mu.method, short(mu.view.path), sorted(st & {'PendingConnack', 'Disconnected'}), sorted(kinds) or 'any'),
                   'connack-assert|%s|%s|%s' % (fld, short(mu.view.path), 'connect-kind' if (not kinds or 'Connect' in kinds) else 'kinds'), loc=mu.loc(),
                   detail=None if ok else 'the CONNECT itself is placed here when fully written; a CONNACK that arrives before the write completion reaches the assertion')
    ctx.note('CONNACK-time assertions examined: %d' % nas)

    # ------------------------------------------------------------ R-C11-3
    ctx.rule('R-C11-3', 'T3 + T6', 'every Err result of the two engine wrappers halts the engine; Halted is left only through connection-closed; in Halted service, incoming data and write completion fail before touching state')
    for nm in ('handle_network_event', 'service'):
        w = ctx.fn('ProtocolState::' + nm)
        eds = prims.edge_nodes_matching(w, [r'^result is Err$'])
        halts = [c.bb for c in w.calls('ProtocolState::change_state') if show(c.arg(1)) == 'ProtocolStateType::Halted{}']
        ok = len(eds) == 1 and bool(halts)
        if ok:
            ok, _ = must_pass(w, eds[0], halts, after_start=False)
        ctx.ob(ok, '%s: the Err outcome passes change_state(Halted) before returning' % nm, 'halt-on-err|' + nm, loc=w.loc())
        rets = [show(e) for _, e in prims.ret_variants(w)]
        ctx.ob(rets == ['result'], '%s returns the handler result unchanged' % nm, 'halt-ret|' + nm, loc=w.loc())
    H = S.idx['Halted']
    for nm in ('service', 'handle_network_event_connection_opened', 'handle_network_event_incoming_data', 'handle_network_event_write_completion', 'handle_user_event', 'get_next_service_timepoint'):
        out = set(S.names_of(S.summary[PS + '::' + nm][H]))
        ctx.ob(out <= {'Halted'}, 'typestate: %s entered in Halted leaves the engine in %s' % (nm, sorted(out) or 'Halted (diverges)'), 'halted-absorbing|' + nm)
    outc = set(S.names_of(S.summary[PS + '::handle_network_event_connection_closed'][H]))
    ctx.ob(outc == {'Disconnected'}, 'typestate: connection-closed takes Halted to Disconnected', 'halted-exit')
    for nm, site_pred in (('handle_network_event_incoming_data', lambda c: c.is_fn('Decoder::decode_bytes')), ('handle_network_event_write_completion', lambda c: c.is_fn('mem::swap'))):
        v = ctx.fn('ProtocolState::' + nm)
        for c in v.calls():
            if site_pred(c):
                st = states_at(S, B, v, c.bb)
                ctx.ob(not (st & {'Halted', 'Disconnected'}), 'typestate: %s does real work only in %s' % (nm, sorted(st)), 'halted-guard|' + nm, loc=c.loc())
    sv = ctx.fn('ProtocolState::service')
    herr = [b for b, e in prims.ret_variants(sv)]
    harm = [b for b in sv.live_blocks() if any(g == 'self.state is Halted' for g in guard_strs(sv, b)) and any(c.bb == b and 'GneissError::new_internal_state_error' in c.nfn for c in sv.calls())]
    ctx.ob(bool(harm), 'service in Halted produces an error without calling a state service function', 'halted-service', loc=sv.loc())

    # ------------------------------------------------------------ R-C11-4
    ctx.rule('R-C11-4', 'T4 dispatch', 'packet dispatch is total: every server-to-client packet kind has its handler, every other kind and AUTH is an error')
    hp = ctx.fn('ProtocolState::handle_packet')
    disp = {}
    for cs in hp.calls():
        if cs.nfn.startswith(PS + '::handle_'):
            for g in guard_strs(hp, cs.bb):
                m = re.match(r'^packet is (\w+)$', g)
                if m:
                    disp[m.group(1)] = cs.nfn.split('::')[-1]
    want = {'Connack': 'handle_connack', 'Publish': 'handle_publish', 'Pingresp': 'handle_pingresp', 'Disconnect': 'handle_disconnect', 'Suback': 'handle_suback', 'Unsuback': 'handle_unsuback',
            'Puback': 'handle_puback', 'Pubcomp': 'handle_pubcomp', 'Pubrel': 'handle_pubrel', 'Pubrec': 'handle_pubrec', 'Auth': 'handle_auth'}
    for k, h in want.items():
        ctx.ob(disp.get(k) == h, 'handle_packet: %s -> %s' % (k, disp.get(k)), 'dispatch|' + k, loc=hp.loc())
    errb = prims.err_blocks(hp)
    okd = False
    for b in errb:
        for g in guard_strs(hp, b):
            m = re.match(r'^packet is ([\w|]+)$', g)
            if m and set(m.group(1).split('|')) == {'Connect', 'Subscribe', 'Unsubscribe', 'Pingreq'}:
                okd = True
    ctx.ob(okd, 'handle_packet: client-only packet kinds (Connect, Subscribe, Unsubscribe, Pingreq) are a protocol error', 'dispatch|default', loc=hp.loc())
    ha = ctx.fn('ProtocolState::handle_auth')
    ctx.ob(all(e[0] == 'agg' and e[2] == 'Err' for _, e in prims.ret_variants(ha)), 'AUTH is always an error (unimplemented), never a panic', 'dispatch|auth-err', loc=ha.loc())
    # incoming-data pipeline order: decode -> alias resolution -> validation -> handling, each failure returns Err
    dc = inc.calls('Decoder::decode_bytes')
    va = inc.calls('validate::validate_packet_inbound_internal')
    ctx.ob(len(dc) == 1 and len(va) == 1 and len(hp_calls) == 1 and inc.dominates(dc[0].bb, va[0].bb) and inc.dominates(va[0].bb, hp_calls[0].bb), 'incoming data: decode, then validate, then handle', 'pipeline-order', loc=inc.loc())
    for c in hp_calls:
        requires(ctx, inc, c.bb, [r'^validate::validate_packet_inbound_internal\(.* is Ok$'], 'pipeline-guards', 'handling a packet', loc=c.loc())
    # (changed with defect 19) packets completely received in front of a malformed one may be handled; what the property needs is that a
    # decode failure always ends the call with an error (nothing is emitted afterwards: the engine is halted by the caller on every Err)
    ra_d = prims.rets_after(inc, [r'^Decoder::decode_bytes\(.* is Err$'])
    ctx.ob(ra_d is not None and bool(ra_d) and all(x == 'Err' or x.startswith('Decoder::decode_bytes(') for x in ra_d), 'incoming data: after a decode failure every path returns an error (%s)' % sorted(ra_d or ['decode test not found'])[:3], 'pipeline-decode-error', loc=inc.loc())

    # ------------------------------------------------------------ R-C11-5
    ctx.rule('R-C11-5', 'T1 invariant maintenance', 'I4/I5: negotiated settings become Some exactly at the CONNACK success site and None only in reset; the CONNACK deadline is cleared only where PendingConnack is left')
    for f, m in prims.field_mutations(F, PS, P):
        if f == 'current_settings':
            val = show(m.rv)
            if val.startswith('Option::Some{'):
                ok = 'handle_connack' in m.view.path and any(c.is_fn('ProtocolState::change_state') and show(c.arg(1)) == 'ProtocolStateType::Connected{}' and m.view.dominates(c.bb, m.bb) for c in m.view.calls())
                ctx.ob(ok, 'current_settings := Some right after entering Connected', 'I5|some', loc=m.loc())
            else:
                ok = val == 'Option::None{}' and any(prims.self_field(x.path) == 'operations' and x.method == 'clear' for x in prims.mutations(m.view))
                ctx.ob(ok, 'current_settings := None only in reset', 'I5|none|' + short(m.view.path), loc=m.loc())
        if f == 'connack_timeout_timepoint' and show(m.rv) == 'Option::None{}':
            fn_ = m.view.path.split('::')[-1]
            ok = fn_ in ('reset', 'handle_network_event_connection_closed') or (fn_ == 'handle_connack' and any(c.is_fn('ProtocolState::change_state') and show(c.arg(1)) == 'ProtocolStateType::Connected{}' and m.view.dominates(c.bb, m.bb) for c in m.view.calls()))
            ctx.ob(ok, 'CONNACK deadline cleared in %s (where PendingConnack is left)' % fn_, 'I4|none|' + fn_, loc=m.loc())
    for nm in ('service_pending_connack', 'get_next_service_timepoint_pending_connack'):
        em = set(S.names_of(S.entry_mask[PS + '::' + nm]))
        ctx.ob(em == {'PendingConnack'}, 'typestate: %s runs only in PendingConnack (%s)' % (nm, sorted(em)), 'I4|states|' + nm)
    em = set(S.names_of(S.entry_mask[PS + '::service_keep_alive']))
    ctx.ob(em == {'Connected'}, 'typestate: keep-alive service runs only in Connected (%s)' % sorted(em), 'I5|states|keepalive')

    # ------------------------------------------------------------ R-C11-5b
    ctx.rule('R-C11-5b', 'T1 on Err paths', 'explicit protocol-error exits of packet handlers are taken before any mutation of operations, queues or tables (unresolved operations survive the error intact)')
    nerr = 0
    for k, h in want.items():
        if h in ('handle_auth',):
            continue
        hv = ctx.fn('ProtocolState::' + h)
        mut_blocks = set(c.bb for c in hv.calls() if c.nfn.startswith(PS + '::') and c.nfn.split('::')[-1] in ('complete_operation_as_success', 'complete_operation_as_failure', 'enqueue_operation', 'create_operation', 'change_state', 'apply_session_present_to_connection', 'initialize_slow_start'))
        noop_takes = {}
        for m in prims.mutations(hv):
            if m.kind in ('assign', 'mutcall') and (prims.self_field(m.path) is not None or show(m.path).endswith('.qos2_pubrel')):
                if m.method == 'take':
                    noop_takes[m.bb] = show(m.path)     # `x.take()` changes nothing on the path where it yielded None
                    continue
                mut_blocks.add(m.bb)
        succ, _, _ = hv.graph()
        after = hv.reach([s for b in mut_blocks for s in succ[b]])
        for b in sorted(prims.err_blocks(hv)):
            t = hv.blocks[b]['term']
            # forwarded results (`?` / returning a callee's result) are not explicit protocol-error exits
            explicit = any(s['k'] == 'assign' and s['lhs']['l'] == 0 for s in hv.blocks[b]['stmts'])
            if not explicit:
                continue
            nerr += 1
            msg = ''
            for (bb2, e) in prims.ret_variants(hv):
                if bb2 == b:
                    for x in subexprs(e):
                        if x[0] == 'const' and isinstance(x[1], dict) and 'str' in x[1]:
                            msg = x[1]['str']
            okb = b not in after
            for tb, path_ in noop_takes.items():
                if okb and b in hv.reach(list(succ[tb])) and not guarded_any(hv, b, ['^' + re.escape(path_) + r' is None$']):
                    okb = False
            if not okb and h == 'handle_connack':
                okb = 'broker rejected' in msg or False
            ctx.ob(okb, '%s: error exit "%s" is reached without a prior mutation' % (h, msg[:50]), 'err-clean|%s|%s' % (h, msg[:40]), loc=hv.loc(b))
    ctx.floor(nerr, 25, 'explicit error exits in packet handlers')

    # ------------------------------------------------------------ R-C11-6
    ctx.rule('R-C11-6', 'T10 sibling agreement', 'ENC: the ack length functions return (2,0) exactly for success without properties and (3,0) otherwise without properties — the cases the ack writers assert')
    nl = 0
    for pk in ('puback', 'pubrec', 'pubrel', 'pubcomp'):
        lf = ctx.fn('%s::compute_%s_packet_length_properties' % (pk, pk))
        rv = prims.ret_variants(lf)
        two = [b for b, e in rv if re.match(r'^Result::Ok\{0: \(tuple\)\{0: 2, 1: 0\}\}$', show(e))]
        three = [b for b, e in rv if re.match(r'^Result::Ok\{0: \(tuple\)\{0: 3, 1: 0\}\}$', show(e))]
        ok = len(two) == 1 and len(three) == 1 and guarded_any(lf, two[0], [r'^\(property_section_length == 0\)$']) and guarded_any(lf, two[0], [r'reason_code == \w+::Success\{\}\)$']) \
            and guarded_any(lf, three[0], [r'^\(property_section_length == 0\)$']) and guarded_any(lf, three[0], [r'^!\(.*reason_code == \w+::Success\{\}\)$'])
        nl += 1
        ctx.ob(ok, '%s length function: (2,0) iff success and no properties, (3,0) iff failure and no properties' % pk, 'acklen|' + pk, loc=lf.loc())
        w = ctx.fn('%s::write_%s_encoding_steps5' % (pk, pk))
        for s in panics.panic_sites(w):
            if s.kind == 'assert':
                g = guard_strs(w, s.bb)
                okw = any(re.search(r'^\(.*\.1 == 0\)$|property_length == 0', x) for x in g)
                ctx.ob(okw, '%s writer asserts the remaining length only under property_length == 0' % pk, 'ackassert|%s|%s' % (pk, 'succ' if any('Success' in x and not x.startswith('!') for x in g) else 'fail'), loc=s.loc())
    ctx.floor(nl, 4, 'ack length functions')

    # ------------------------------------------------------------ R-C11-8
    ctx.rule('R-C11-8', 'T2 invariant maintenance', 'DRV: a driver reports the Connected state only after storing the transport stream the connected loop takes')
    npc = 0
    for v in F.all_fns():
        if re.search(r'ClientRuntimeState::process_connecting(::\{closure#0\})?$', norm(v.path)) and (not v.f.get('parent') or v.f.get('coroutine')):
            if v.f.get('parent') is None and any(F.fns[k].get('parent') == v.path and F.fns[k].get('coroutine') for k in F.fns):
                continue
            npc += 1
            oks = [b for b, e in prims.ret_variants(v) if 'ClientImplState::Connected{}' in show(e)]
            sets = [i for (i, s_, pe, rve) in v.field_writes() if show(pe) == 'self.stream' and show(rve).startswith('Option::Some{')]
            ok = bool(oks) and bool(sets) and all(any(i == b or v.dominates(i, b) for i in sets) for b in oks)
            ctx.ob(ok, '%s returns Connected only after self.stream := Some(stream)' % short(v.path, 3), 'DRV|stream|' + short(v.path, 4), loc=v.loc())
    if ctx.config == 'all':
        ctx.floor(npc, 2, 'process_connecting bodies')

    # ------------------------------------------------------------ R-C11-7
    ctx.rule('R-C11-7', 'T9 value flow', 'time arithmetic whose duration operand comes from user configuration (ack timeout, connect timeout, reconnect periods) must be a checked/saturating form or provably bounded')
    nt = 0
    for s in deferred:
        if s.kind not in ('time-arith',):
            continue
        nt += 1
        ctx.ob(False, 'unchecked `%s` in %s: the duration is user-configurable and unbounded' % (s.what[:80], short(s.view.path)), 'time-arith|%s|%s' % (short(s.view.path), s.what.split('(')[0]), loc=s.loc())
    for s in deferred:
        if s.kind == 'rng':
            ctx.ob(False, 'gen_range over a possibly empty range in %s: %s' % (short(s.view.path), s.what), 'rng|' + short(s.view.path), loc=s.loc())
    ctx.note('time-arithmetic/rng sites without a bound: %d' % nt)


    # ------------------------------------------------------------ R-C11-9 (added after seed C11-2)
    ctx.rule('R-C11-9', 'T3 must-effects', 'an error is scoped to its connection: opening a connection unconditionally returns the decoder to its initial state (also out of the latched error state) and clears the per-connection engine state, so a conforming server on the next connection is not reported as violating the protocol')
    rc = ctx.fn('Decoder::reset_for_new_connection')
    eff = prims.must_field_effects(F, rc)
    want = {'state': 'DecoderState::ReadPacketType{}', 'scratch': 'clear()', 'first_byte': 'Option::None{}', 'remaining_length': 'Option::None{}'}
    for f, w in sorted(want.items()):
        ctx.ob(w in eff.get(f, set()), 'Decoder::reset_for_new_connection performs `%s := %s` on every path (found %s)' % (f, w, sorted(eff.get(f, []))), 'scope|decoder|' + f, loc=rc.loc())
    dfields = {x['name'] for x in F.adt('decode::Decoder')['variants'][0]['fields']}
    ctx.ob(dfields <= set(want), 'every field of the decoder is covered by that reset (fields: %s)' % sorted(dfields), 'scope|decoder|coverage', loc=rc.loc())
    op = ctx.fn('ProtocolState::handle_network_event_connection_opened')
    oks = [b for b, e in prims.ret_variants(op) if show(e).startswith('Result::Ok')]
    calls_ = [c for c in op.calls('Decoder::reset_for_new_connection') if show(c.arg(0)) == 'self.decoder']
    ok = bool(oks) and len(calls_) == 1
    if ok:
        seen = op.reach([0], avoid=[calls_[0].bb])
        ok = not any(b in seen for b in oks)
    ctx.ob(ok, 'every successful connection-opened event has reset the engine\'s decoder', 'scope|opened-resets-decoder', loc=op.loc())
    lt = [(i, show(rve)) for (i, s_, pe, rve) in ctx.fn('Decoder::decode_bytes').field_writes() if show(pe) == 'self.state']
    ctx.ob(any(x == 'DecoderState::TerminalError{}' for i, x in lt), 'the decoder latches its error state (so the reset above is what ends it)', 'scope|latch', loc=rc.loc())

    # ---- added after the mutation sweep
    ctx.rule('R-C11-10', 'T2\' + T17', 'a failure while processing inbound data always leaves the incoming-data handler as an error (nothing after the failing packet is processed); a successful CONNACK performs every per-connection state change; a server DISCONNECT always ends the connection')
    inc_ = ctx.fn('ProtocolState::handle_network_event_incoming_data')
    for pat, what in ((r'^Decoder::decode_bytes\(.*\) is Err$', 'a decoding failure'), (r'^validate::validate_packet_inbound_internal\(.*\) is Err$', 'an inbound validation failure'),
                      (r'^ProtocolState::handle_packet\(.*\) is Err$', 'a packet handler failure'), (r'^InboundAliasResolver::resolve_topic_alias\(.*\) is Err$', 'an alias resolution failure')):
        ra = prims.rets_after(inc_, [pat])
        callname = pat[1:].split('\\(')[0]
        ctx.ob(ra == {'Err'} or (ra is not None and ra and all(x == 'Err' or x.startswith(callname + '(') for x in ra)),
               'incoming data: %s always returns an error (outcomes reachable after it: %s)' % (what, sorted(ra or ['pattern not found'])), 'inbound-fail|' + what.split()[1], loc=inc_.loc())
    NOTSENT = [r'^\(self\.state == ProtocolStateType::PendingConnack\{\}\)$']
    for cond in (r'^ProtocolState::is_connect_in_queue\(self\)$', r'^self\.current_operation is Some$', r'^self\.pending_write_completion$'):
        ra = prims.rets_after(inc_, NOTSENT + [cond])
        ctx.ob(ra == {'Err'}, 'incoming data while pending CONNACK with the CONNECT not yet flushed (%s) is always a protocol error (%s)' % (cond, sorted(ra or ['pattern not found'])), 'early-data|' + cond[:30], loc=inc_.loc())
    icp = ctx.fn('ProtocolState::is_connect_packet')
    rv_ = [(show(e), guard_strs(icp, b)) for b, e in prims.ret_variants(icp)]
    ctx.ob(any(x in ('(mqtt::mqtt_packet_to_packet_type((HashMap::get(self.operations, id))@Some.0.packet) == PacketType::Connect{})', 'PartialEq::eq(mqtt::mqtt_packet_to_packet_type((HashMap::get(self.operations, id))@Some.0.packet), PacketType::Connect{})') or
               re.search(r'mqtt_packet_to_packet_type\(.*\.packet\).*PacketType::Connect\{\}', x) is not None and not x.startswith('!') and ' != ' not in x and 'Not(' not in x and '::ne(' not in x for x, g in rv_) and
           any(x == 'False' and any(re.search(r'HashMap::get\(self\.operations, id\) is None$', y) for y in g) for x, g in rv_),
           'is_connect_packet is true exactly for an existing operation whose packet type is CONNECT (%s)' % [x[:80] for x, g in rv_], 'early-data|is-connect', loc=icp.loc())
    hc_ = ctx.fn('ProtocolState::handle_connack')
    okb_ = prims.ok_blocks(hc_)
    eff_ = prims.must_field_effects(F, hc_, targets=okb_)
    for f_, w_ in (('state', None), ('has_connected_successfully', 'True'), ('current_settings', None), ('connack_timeout_timepoint', 'Option::None{}'), ('ping_timeout_timepoint', 'Option::None{}'), ('next_ping_timepoint', None)):
        vals = eff_.get(f_, set())
        ctx.ob(bool(vals) and (w_ is None or w_ in vals), 'every accepted CONNACK writes `%s`%s (found %s)' % (f_, '' if w_ is None else ' := ' + w_, sorted(vals)[:3]), 'connack-effects|' + f_, loc=hc_.loc())
    hd_ = ctx.fn('ProtocolState::handle_disconnect')
    rets_ = {('Err' if (e[0] == 'agg' and e[2] == 'Err') else show(e)) for b, e in prims.ret_variants(hd_)}
    ctx.ob(rets_ == {'Err'}, 'a server DISCONNECT never leaves the engine connected: every outcome of its handler is an error (%s)' % sorted(rets_), 'server-disconnect', loc=hd_.loc())
    r311 = prims.rets_after(hd_, [r'^\(self\.protocol_version == ProtocolVersion::Mqtt311\{\}\)$'])
    ev311 = [c for c in hd_.calls('VecDeque::push_back') if 'packet_events' in show(c.arg(0))]
    ctx.ob(r311 == {'Err'} and len(ev311) == 1 and guarded_any(hd_, ev311[0].bb, [r'^!\(self\.protocol_version == ProtocolVersion::Mqtt311\{\}\)$']), 'MQTT 3.1.1: a server DISCONNECT is a protocol error and is not surfaced as an event', 'server-disconnect|311', loc=hd_.loc())
    # ---- added after seed C11-3b: the lifecycle handlers (opened / closed) cannot fail for reasons a user or server can cause
    from .. import errflow
    ALLOW_ = {('protocol::ProtocolState::handle_network_event_connection_opened', 'new_internal_state_error'),
              ('protocol::ProtocolState::handle_network_event_connection_closed', 'new_internal_state_error')}
    for hn_ in ('handle_network_event_connection_opened', 'handle_network_event_connection_closed'):
        hv_ = ctx.fn('ProtocolState::' + hn_)
        for o in sorted(errflow.origins(F, hv_)):
            ctx.ob(o in ALLOW_, '%s can only fail with the engine-state mismatch error; it can return %s created in %s%s' % (hn_, o[1], short(o[0]), '' if o in ALLOW_ else ' — the client\'s state machine propagates it and the event loop ends'),
                   'lifecycle-errors|%s|%s|%s' % (hn_, short(o[0]), o[1]), loc=hv_.loc(), rule='R-C11-3')
    # ---- defect 17: what is left of invariant I2 is local to one loop iteration
    sqa_ = ctx.fn('ProtocolState::service_queue_aux')
    fwc_ = sqa_.calls('ProtocolState::on_current_operation_fully_written')
    ctx.ob(len(fwc_) == 1 and guarded_any(sqa_, fwc_[0].bb, [r'^HashMap::get\(self\.operations, Option::unwrap\(self\.current_operation\)\) is Some$', r'^HashMap::get\(self\.operations, self\.current_operation@Some\.0\) is Some$']),
           'I2: the fully-written hook (which unwraps the current operation) runs only in a loop iteration that has just found the current operation in the table', 'I2|lookup-dominates', loc=sqa_.loc(), rule='R-C11-1')
    callers_ = F.callers().get(ctx.fn('ProtocolState::on_current_operation_fully_written').key, [])
    ctx.ob(len(callers_) == 1, 'I2: the fully-written hook has a single caller (the service loop)', 'I2|single-caller', rule='R-C11-1')
    lost = prims.rets_after(sqa_, [r'^HashMap::get\(self\.operations, Option::unwrap\(self\.current_operation\)\) is None$'])
    ctx.ob(lost == {'Err'}, 'a current operation that has been completed while partially encoded ends the service call with an error (the torn packet cannot be finished; the engine halts) instead of a panic (%s)' % sorted(lost or ['lookup not found']), 'I2|vanished-current', loc=sqa_.loc(), rule='R-C11-1')
    # ---- added after the mutation sweep: the reviewed rejection conditions of every inbound validator
    from . import shared as _sh2
    _nv = _sh2.validator_table(ctx, lambda p: 'inbound' in p, 'R-C11-4', 'a server packet is rejected exactly for a listed protocol violation')
    if ctx.config == 'all':
        ctx.floor(_nv, 10, 'inbound validators with a reviewed rejection table')
    # ---- added after the second mutation sweep: the two explicit encoder panics guard what invariant ENC says they guard (polarity)
    from .. import panics as _pn
    enc_ = ctx.fn('Encoder::encode')
    ps_ = {s_.what: prims.guard_strs_plain(enc_, s_.bb) for s_ in _pn.panic_sites(enc_) if getattr(s_, 'kind', '') == 'panic'}
    g_small = ps_.get('Encoder::encode - target buffer too small')
    g_res = ps_.get('Encoder::encode: encoding logic resized dest buffer')
    ctx.ob(g_small is not None and len(g_small) == 1 and re.match(r'^\(Vec::capacity\(dest\) < 4\)$|^!\(4 <= Vec::capacity\(dest\)\)$', g_small[0]) is not None,
           'the "target buffer too small" panic is reached only for a buffer of fewer than 4 bytes (drivers allocate 4096; guards: %s)' % g_small, 'enc-panic|too-small', loc=enc_.loc(), rule='R-C11-6')
    ctx.ob(g_res is not None and bool(g_res) and re.match(r'^!\(Vec::capacity\(dest\) == Vec::capacity\(dest\)\)$|^\(Vec::capacity\(dest\) != Vec::capacity\(dest\)\)$', g_res[-1]) is not None,
           'the "resized dest buffer" panic is reached only when the capacity changed during the call (never, by R-C02-6) (guards: %s)' % g_res, 'enc-panic|resized', loc=enc_.loc(), rule='R-C11-6')
