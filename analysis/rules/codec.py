"""Shared extraction for the encoder/decoder rules (C02, C03, C16, C17)."""
import re
from ..mir import show, short, norm, subexprs, const_val
from .. import prims
from ..spec import mqtt5

MQTT_VARIANT_TO_SPEC = {
    'Connect': 'CONNECT', 'Connack': 'CONNACK', 'Publish': 'PUBLISH', 'Puback': 'PUBACK', 'Pubrec': 'PUBREC',
    'Pubrel': 'PUBREL', 'Pubcomp': 'PUBCOMP', 'Subscribe': 'SUBSCRIBE', 'Suback': 'SUBACK',
    'Unsubscribe': 'UNSUBSCRIBE', 'Unsuback': 'UNSUBACK', 'Pingreq': 'PINGREQ', 'Pingresp': 'PINGRESP',
    'Disconnect': 'DISCONNECT', 'Auth': 'AUTH',
}
CLIENT_OUTBOUND = ['Connect', 'Publish', 'Puback', 'Pubrec', 'Pubrel', 'Pubcomp', 'Subscribe', 'Unsubscribe',
                   'Pingreq', 'Disconnect', 'Auth']
SERVER_OUTBOUND = ['Connack', 'Publish', 'Puback', 'Pubrec', 'Pubrel', 'Pubcomp', 'Suback', 'Unsuback',
                   'Pingresp', 'Disconnect', 'Auth']


def dispatch_by_variant(view, scrut_re=r'^\w+ is (\w+)$'):
    """variant -> list of local callee paths called under `X is Variant`."""
    out = {}
    for cs in view.calls():
        if not cs.term.get('local'):
            continue
        for g in prims.guard_strs(view, cs.bb):
            m = re.match(scrut_re, g)
            if m and '|' not in m.group(1):
                out.setdefault(m.group(1), []).append(cs)
    return out


class Push:
    __slots__ = ('cs', 'variant', 'val', 'guards', 'bb')

    def __init__(self, view, cs):
        e = cs.arg(1)
        self.cs = cs
        self.bb = cs.bb
        self.variant = e[2] if e[0] == 'agg' else '?'
        self.val = dict(e[3]).get('0') if e[0] == 'agg' else None
        self.guards = prims.guard_strs(view, cs.bb)

    def key_const(self):
        """Named PROPERTY_KEY_* constant pushed, if any -> (name, value)."""
        if self.variant == 'Uint8' and self.val is not None and self.val[0] == 'const' and self.val[2] and 'PROPERTY_KEY_' in self.val[2]:
            return (self.val[2].split('::')[-1], self.val[1])
        return None


def pushes(view):
    out = []
    for cs in view.calls('VecDeque::push_back'):
        a0 = cs.arg(0)
        e = cs.arg(1)
        if e[0] == 'agg' and e[1].endswith('EncodingStep'):
            out.append(Push(view, cs))
    return out


def next_pushes(view, push, allp, n=4):
    """Up to n pushes that follow `push`: from the push block explore forward; if every path
    reaches the same next push first (small diamonds such as `if val {1} else {0}` are
    crossed), that push is the successor."""
    bybb = {p.bb: p for p in allp}
    succ, _, _ = view.graph()
    out = []
    cur = push.bb
    while len(out) < n:
        firsts = set()
        seen = {cur}
        work = list(succ[cur])
        steps = 0
        dead_end = False
        while work and steps < 200:
            steps += 1
            b = work.pop()
            if b in seen:
                continue
            seen.add(b)
            if b in bybb:
                firsts.add(b)
                continue
            ss = succ[b]
            if not ss:
                if b < view.n and view.blocks[b]['term']['k'] == 'return':
                    dead_end = True
                continue
            work.extend(ss)
        if len(firsts) != 1 or dead_end:
            break
        nb = firsts.pop()
        out.append(bybb[nb])
        cur = nb
    return out


STEP_SHAPES = {
    mqtt5.BYTE: [['Uint8']],
    mqtt5.TWO: [['Uint16']],
    mqtt5.FOUR: [['Uint32']],
    mqtt5.VBI: [['Vli']],
    mqtt5.UTF8: [['Uint16', 'StringSlice'], ['Uint16', 'IndexedString']],
    mqtt5.BIN: [['Uint16', 'BytesSlice']],
    mqtt5.PAIR: [['Uint16', 'UserPropertyName', 'Uint16', 'UserPropertyValue']],
}
# length-function contribution (bytes, including the 1-byte key) per step shape
SHAPE_LEN = {('Uint8',): '2', ('Uint16',): '3', ('Uint32',): '5', ('Vli',): '1+vli',
             ('Uint16', 'StringSlice'): '3+len', ('Uint16', 'BytesSlice'): '3+len'}


def field_path(txt):
    """`packet.will@Some.0.payload_format` -> `will.payload_format`."""
    parts = [x for x in re.split(r'[.@]', txt)[1:] if x not in ('Some', '0')]
    return '.'.join(parts)


def length_contribs(view):
    """field -> normalised contribution of the guarded increments in a length function:
    '2' | '3' | '5' | '3+len' | '1+vli' | other string."""
    out = {}
    for (i, j, s) in view.stmts():
        if s['k'] != 'assign' or s['lhs']['p']:
            continue
        e = view.rvalue_expr(s['rv'], i)
        txt = show(e)
        m = re.match(r'^\(\((\w+) AddWithOverflow (.*)\)\)\.0$', txt)
        if not m:
            continue
        inc = m.group(2)
        gs = prims.guard_strs(view, i)
        fld = None
        best = -1
        for g in gs:
            mm = re.match(r'^(\w+(?:[.@]\w+)*) is Some$', g) or re.match(r'^(\w+(?:[.@]\w+)*) is Some$', g)
            if mm and len(mm.group(1)) > best and '.' in mm.group(1):
                best = len(mm.group(1))
                fld = field_path(mm.group(1))
        if fld is None:
            continue
        if re.match(r'^\d+$', inc):
            c = inc
        elif re.match(r'^\(\(3 AddWithOverflow (String|Vec|str|slice)::len\(.*\)\)\)\.0$', inc):
            c = '3+len'
        elif re.match(r'^\(\(1 AddWithOverflow .*compute_variable_length_integer_encode_size.*\)\)\.0$', inc):
            c = '1+vli'
        else:
            c = inc
        out.setdefault(fld, []).append(c)
    return out


def switch_table(view, operand_re):
    """For `match <u8 operand> { v => ... }`: value -> target block; plus otherwise block."""
    tabs = []
    for i in view.live_blocks():
        t = view.blocks[i]['term']
        if t['k'] == 'switch' and t['ty'] in ('u8', 'u16', 'u32', 'usize'):
            e = show(view.operand_expr(t['op'], i))
            if re.search(operand_re, e):
                tabs.append((i, {v: tg for v, tg in t['targets']}, t['otherwise'], e))
    return tabs


def first_call_from(view, bb, limit=12):
    """First non-log call reached going straight from block bb."""
    succ, _, _ = view.graph()
    cur = bb
    for _ in range(limit):
        t = view.blocks[cur]['term'] if cur < view.n else None
        if t is None:
            ss = succ[cur]
            if len(ss) != 1:
                return None
            cur = ss[0]
            continue
        if t['k'] == 'call' and not prims.is_log_mac(t.get('mac', '')):
            for cs in view.calls():
                if cs.bb == cur:
                    return cs
        ss = succ[cur]
        if len(ss) != 1:
            return None
        cur = ss[0]
    return None



def _stem(w):
    w = w.lower()
    if w.endswith('ies'):
        return w[:-3] + 'y'
    if w.endswith('s') and not w.endswith('ss') and len(w) > 3:
        return w[:-1]
    return w


UNIT_WORDS = {'seconds', 'second', 'bytes', 'byte', 'type'}


def name_agrees(field, spec_name):
    """The struct field (`message_expiry_interval_seconds`, `payload_format`, `subscription_id`)
    names the specification property (`Message Expiry Interval`, `Payload Format Indicator`,
    `Subscription Identifier`): every word of the field is (a prefix of) a word of the property name,
    the first words agree; unit suffixes are ignored."""
    fw = [_stem(x) for x in re.split(r'[_.]', field.split('.')[-1]) if x]
    sw = [_stem(x) for x in re.split(r'[\s_-]+', spec_name) if x]
    while len(fw) > 1 and fw[-1] in UNIT_WORDS and fw[-1] not in sw:
        fw = fw[:-1]
    if not fw or not sw:
        return False
    def m(a, b):
        return a == b or (len(a) >= 2 and b.startswith(a))
    if not m(fw[0], sw[0]):
        return False
    return all(any(m(a, b) for b in sw) for a in fw)
