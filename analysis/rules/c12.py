"""C12 — lifecycle: well-formed event stream; stop always stops; the loop never dies."""
import re
from itertools import product
from ..mir import show, short, norm, subexprs, var_inits
from .. import prims, fdeval, errflow
from ..fdeval import V_enum, V_some, V_NONE
from ..prims import requires, guard_strs, guarded_any, must_pass

EXPLANATION = ('Exhaustive finite-domain evaluation (abstract interpretation of the MIR over enum-valued inputs, no execution) of the two '
               'functions that decide the lifecycle: the event-emission table of transition_to_state over (current, requested, desired, '
               'last CONNACK) and the pursuit table of compute_optional_state_transition over (current, desired, stop options); the one '
               'documented waiting cell must have a producer; error-origin flow shows which errors can end the event loops; writers of the '
               'lifecycle fields. Added in round 3 / after the mutation sweeps: Shutdown drops the stop options with the engine reset; a completed DISCONNECT always comes back as the user-initiated-disconnect pseudo-error; the per-state loops of both drivers leave their state when a transition is offered and after a reported failure.')
ASSUMPTIONS = ['not decided: bounded-time stop "once the transport reacts", and event well-formedness over all transport behaviours and request timings; '
               'the tables are complete for the two deciding functions, the drivers\' use of them is checked structurally only']
ST = 'client::ClientImplState'
RC = 'mqtt::ConnectReasonCode'


def run(ctx):
    F = ctx.F
    names = [x['name'] for x in F.adt(ST)['variants']]
    ctx.floor(len(names), 5, 'client lifecycle states', rule=None) if False else None
    # ------------------------------------------------------------ R-C12-1
    ctx.rule('R-C12-1', 'T11 exhaustive decision table', 'transition_to_state: attempt iff entering Connecting; exactly one failure iff leaving Connecting for anything but Connected, or leaving Connected without a successful CONNACK; '
             'exactly one disconnection iff leaving Connected with one; Stopped iff entering Stopped; engine told opened iff entering Connected, closed iff leaving it; nothing else')
    tts = ctx.fn('MqttClientImpl::transition_to_state')
    interest = lambda c, view: c.startswith('client::MqttClientImpl::emit_') or c.endswith('ProtocolState::handle_network_event')
    inline = lambda c, view: c.endswith('reset_state_for_new_connection')
    ev = fdeval.Evaluator(F, interest, inline)
    cells = 0
    samples = []
    for old, new, des, lc in product(names, names, ['Stopped', 'Connected', 'Shutdown'], ['none', 'succ', 'fail']):
        a = {'self.current_state': V_enum(ST, old), 'new_state': V_enum(ST, new), 'self.desired_state': V_enum(ST, des)}
        a['self.last_connack'] = V_NONE if lc == 'none' else V_some(('struct', 'mqtt::ConnackPacket', {'reason_code': V_enum(RC, 'Success' if lc == 'succ' else 'NotAuthorized')}))
        try:
            paths = ev.run(tts, a)
        except fdeval.Budget as e:
            ctx.ob(False, 'decision table evaluation exceeded its budget: %s' % e, 'tts-budget')
            return
        cells += 1
        okpaths = [p for p in paths if not p.diverged and p.ret is not None and p.ret[0] == 'enum' and p.ret[2] == 'Ok']
        outs = set()
        for p in okpaths:
            evs = []
            for e in p.events:
                nm = e[0].split('::')[-1]
                if nm == 'handle_network_event':
                    m = re.search(r'event=(\w+)', ' '.join(e[1]))
                    nm = 'engine:' + (m.group(1) if m else '?')
                evs.append(nm)
            outs.add((tuple(evs), ev.vstr(p.store.get('self.current_state'))))
        key = '%s->%s|desired=%s|connack=%s' % (old, new, des, lc)
        if old == new:
            ctx.ob(outs == {((), old)}, 'cell %s: no-op' % key, 'tts|' + key, loc=tts.loc())
            continue
        if len(outs) != 1:
            ctx.ob(False, 'cell %s: Ok outcome is not unique over the undetermined inputs: %s' % (key, sorted(outs)), 'tts|' + key, loc=tts.loc())
            continue
        evs, eff = next(iter(outs))
        evs = list(evs)
        want_eff = new
        if new == 'PendingReconnect' and des != 'Connected':
            want_eff = 'Stopped'
        if want_eff == 'Stopped' and des == 'Shutdown':
            want_eff = 'Shutdown'
        exp = []
        if want_eff == 'Connected':
            exp.append('engine:ConnectionOpened')
        elif old == 'Connected':
            exp.append('engine:ConnectionClosed')
        if want_eff == 'Connecting':
            exp.append('emit_connection_attempt_event')
        if old == 'Connecting' and want_eff != 'Connected':
            exp.append('emit_connection_failure_event')
        if old == 'Connected':
            # reset_state_for_new_connection clears last_connack when entering Connecting
            lc_eff = 'none' if want_eff == 'Connecting' else lc
            exp.append('emit_disconnection_event' if lc_eff == 'succ' else 'emit_connection_failure_event')
        if want_eff == 'Stopped':
            exp.append('emit_stopped_event')
        ok = eff == want_eff and evs == exp
        if len(samples) < 6 and ok:
            samples.append((key, evs, eff))
        ctx.ob(ok, 'cell %s: effective state %s, events %s (expected %s, %s)' % (key, eff, evs, want_eff, exp), 'tts|' + key, loc=tts.loc())
    ctx.table('transition_to_state samples', samples)
    ctx.floor(cells, 225, 'cells of the transition table')
    # Err paths: nothing emitted, state unchanged
    a = {'self.current_state': V_enum(ST, 'Connected'), 'new_state': V_enum(ST, 'PendingReconnect'), 'self.desired_state': V_enum(ST, 'Connected'), 'self.last_connack': V_NONE}
    errp = [p for p in ev.run(tts, a) if not (p.ret is not None and p.ret[0] == 'enum' and p.ret[2] == 'Ok')]
    ctx.ob(all(ev.vstr(p.store.get('self.current_state')) == 'Connected' and not [e for e in p.events if 'emit_' in e[0]] for p in errp) and errp,
           'when the engine rejects the open/close event the transition is abandoned without events and without changing state', 'tts|err-path', loc=tts.loc())
    w = [(i, s, pe, rve) for (i, s, pe, rve) in tts.field_writes() if show(pe) == 'self.current_state']
    ctx.ob(len(w) == 1 and show(w[0][3]) == 'new_state', 'current_state is written once, at the end of transition_to_state', 'tts|single-write', loc=tts.loc())
    others = [v for v in ctx.F.fns_in('src/client/mod.rs') if v.key != tts.key and any(show(pe) == 'self.current_state' for (_, _, pe, _) in v.field_writes()) and 'new' != v.path.split('::')[-1]]
    ctx.ob(not others, 'no other function writes current_state (%s)' % [short(v.path) for v in others], 'tts|only-writer')

    # ------------------------------------------------------------ R-C12-2
    ctx.rule('R-C12-2', 'T11 exhaustive decision table', 'compute_optional_state_transition offers the step towards the desired state in every cell except the documented wait (Connected, stop requested, DISCONNECT pending)')
    cot = ctx.fn('MqttClientImpl::compute_optional_state_transition')
    ev2 = fdeval.Evaluator(F)
    n2 = 0
    for cur, des, so in product(names, ['Stopped', 'Connected', 'Shutdown'], ['none', 'some-nodisc', 'some-disc']):
        a = {'self.current_state': V_enum(ST, cur), 'self.desired_state': V_enum(ST, des)}
        a['self.desired_stop_options'] = V_NONE if so == 'none' else V_some(('struct', 'client::StopOptionsInternal', {'disconnect': V_NONE if so == 'some-nodisc' else V_some(None)}))
        outs = sorted(set(ev2.vstr(p.ret) for p in ev2.run(cot, a)))
        n2 += 1
        if cur == 'Stopped':
            want = {'Connected': 'Some(Connecting)', 'Shutdown': 'Some(Shutdown)', 'Stopped': 'None'}[des]
        elif cur in ('Connecting', 'PendingReconnect'):
            want = 'None' if des == 'Connected' else 'Some(Stopped)'
        elif cur == 'Connected':
            want = 'None' if des == 'Connected' or so == 'some-disc' else 'Some(Stopped)'
        else:
            want = 'None'
        ctx.ob(outs == [want], 'cell current=%s desired=%s stop=%s -> %s (expected %s)' % (cur, des, so, outs, want), 'cot|%s|%s|%s' % (cur, des, so), loc=cot.loc())
    ctx.floor(n2, 45, 'cells of the pursuit table')

    # ------------------------------------------------------------ R-C12-3
    ctx.rule('R-C12-3', 'T2 must-dominate', 'the waiting cell has a producer: stop options that carry a DISCONNECT are stored only when the DISCONNECT was actually handed to a connected engine')
    hio = ctx.fn('MqttClientImpl::handle_incoming_operation')
    ws = [(i, s, pe, rve) for (i, s, pe, rve) in hio.field_writes() if show(pe) == 'self.desired_stop_options' and show(rve).startswith('Option::Some{')]
    ctx.ob(len(ws) == 1, 'one site stores stop options', 'stop-store', loc=hio.loc())
    for (i, s, pe, rve) in ws:
        ok = guarded_any(hio, i, [r'is_connection_established\(ProtocolState::state\(self\.protocol_state\)\)$', r'^\(ProtocolState::state\(self\.protocol_state\) == ProtocolStateType::Connected\{\}\)$',
                                  r'^.*\.disconnect is None$', r'\.disconnect is None$'])
        # alternative repair shape: the stored options have their disconnect cleared on the not-connected path
        if not ok:
            clears = [(j, s2) for (j, s2, pe2, rve2) in hio.field_writes() if show(pe2).endswith('.disconnect') and show(rve2) == 'Option::None{}']
            ok = any(guarded_any(hio, j, [r'^!.*is_connection_established\(', r'^!\(ProtocolState::state\(self\.protocol_state\) == ProtocolStateType::Connected']) for j, _ in clears)
        ctx.ob(ok, 'stop options with a DISCONNECT are kept only if the engine is Connected (otherwise the DISCONNECT is failed by the offline policy and nothing ends the wait)',
               'stop-store|producer', loc=hio.loc(i), detail=None if ok else 'guards at the store: ' + ' ; '.join(guard_strs(hio, i)))
    ice = ctx.fn('protocol::is_connection_established')
    rvs_ = [show(e) for b, e in prims.ret_variants(ice)]
    ctx.ob(rvs_ in (['(state == ProtocolStateType::Connected{})'], ['PartialEq::eq(state, ProtocolStateType::Connected{})']), 'is_connection_established(state) is exactly state == Connected (%s)' % rvs_, 'stop-store|predicate', loc=ice.loc())
    sub = [c for c in hio.calls('ProtocolState::handle_user_event') if any(g.endswith('.disconnect is Some') or 'disconnect' in g for g in guard_strs(hio, c.bb))]
    ctx.ob(len(sub) == 1, 'the Stop arm submits the DISCONNECT to the engine', 'stop-submit', loc=hio.loc())

    # ------------------------------------------------------------ R-C12-4
    ctx.rule('R-C12-4', 'T8 error-origin flow', 'the event loops end only on Shutdown: the only errors that can come back from transition_to_state are the engine\'s invalid-state rejections; the per-state process functions never return Err')
    tv = tts
    hne = ctx.fn('ProtocolState::handle_network_event')
    handlers = {}
    for cs in hne.calls():
        if cs.nfn.startswith('protocol::ProtocolState::handle_network_event_'):
            for g in guard_strs(hne, cs.bb):
                m = re.match(r'^context\.event is (\w+)$', g)
                if m:
                    handlers[m.group(1)] = cs.nfn
    ALLOW = {('protocol::ProtocolState::handle_network_event_connection_opened', 'new_internal_state_error'),
             ('protocol::ProtocolState::handle_network_event_connection_closed', 'new_internal_state_error')}
    for evk in ('ConnectionOpened', 'ConnectionClosed'):
        h = handlers.get(evk)
        if not ctx.ob(h is not None, 'engine dispatch has a handler for %s' % evk, 'loop|handler|' + evk, loc=hne.loc()):
            continue
        org = errflow.origins(F, ctx.fn(h.split('protocol::')[-1]))
        for o in sorted(org):
            ctx.ob(o in ALLOW, '%s handler can return the error %s created in %s %s' % (evk, o[1], short(o[0]), '(allowed: engine state mismatch, excluded by the lifecycle tables)' if o in ALLOW else '— transition_to_state propagates it and both event loops then terminate'),
                   'loop|origin|%s|%s|%s' % (evk, short(o[0]), o[1]), loc=ctx.fn(o[0].split('::', 1)[-1] if False else o[0].replace('protocol::', '', 1)).loc() if o[0].startswith('protocol::') else None)
    # transition_to_state itself adds no error of its own
    own = [o for o in errflow.origins(F, tv) if o[0] == norm(tv.path)]
    ctx.ob(not own, 'transition_to_state creates no error itself', 'loop|tts-own', loc=tv.loc())
    nproc = 0
    for v in F.all_fns():
        p = norm(v.path)
        if re.search(r'ClientRuntimeState::process_(stopped|connecting|connected|pending_reconnect)(::\{closure#0\})?$', p) and (not v.f.get('parent') or v.f.get('coroutine')):
            if v.f.get('parent') is None and any(F.fns[k].get('parent') == v.path and F.fns[k].get('coroutine') for k in F.fns):
                continue   # async fn shell: the coroutine body is checked
            nproc += 1
            org = errflow.origins(F, v)
            ctx.ob(not org, '%s never returns Err (%s)' % (short(p, 3), sorted(org)[:3]), 'loop|process|' + short(p, 4), loc=v.loc())
    if ctx.config == 'all':
        ctx.floor(nproc, 8, 'per-state process functions (both drivers)')
    # both loops: done := true, reset to false only when the transition succeeded and the state is not Shutdown
    nloop = 0
    for v in F.all_fns():
        p = norm(v.path)
        if re.search(r'::client_event_loop(::\{closure#0\})?$', p):
            if v.f.get('parent') is None and any(F.fns[k].get('parent') == v.path and F.fns[k].get('coroutine') for k in F.fns):
                continue
            nloop += 1
            falses = [b for b, e in var_inits(v, 'done') if show(e) == 'False' and guard_strs(v, b)]
            okl = bool(falses) and all(guarded_any(v, b, [r'^MqttClientImpl::transition_to_state\(.* is Ok$']) and guarded_any(v, b, [r'^!\(.* == ClientImplState::Shutdown\{\}\)$', r' != ClientImplState::Shutdown']) for b in falses)
            ctx.ob(okl, '%s keeps looping exactly when the transition succeeded and did not reach Shutdown' % short(p, 3), 'loop|done|' + short(p, 4), loc=v.loc())
    if ctx.config == 'all':
        ctx.floor(nloop, 2, 'client event loops')

    # ------------------------------------------------------------ R-C12-5
    ctx.rule('R-C12-5', 'T1 who-may-write', 'desired state is written only by Start/Stop/Shutdown requests; stop options are cleared by Start, by a new connection attempt and on reaching Stopped; Shutdown resets the engine')
    rows = []
    for (i, s, pe, rve) in hio.field_writes():
        if show(pe) == 'self.desired_state':
            arm = [g.split(' is ')[1] for g in guard_strs(hio, i) if re.match(r'^operation is \w+$', g)]
            rows.append((arm[0] if arm else '?', show(rve)))
    ctx.ob(sorted(rows) == sorted([('Start', 'ClientImplState::Connected{}'), ('Stop', 'ClientImplState::Stopped{}'), ('Shutdown', 'ClientImplState::Shutdown{}')]), 'desired_state writers: %s' % rows, 'desired|writers', loc=hio.loc())
    otherw = [short(v.path) for v in F.fns_in('src/client/mod.rs') if v.key != hio.key and v.path.split('::')[-1] != 'new' and any(show(pe) == 'self.desired_state' for (_, _, pe, _) in v.field_writes())]
    ctx.ob(not otherw, 'no other function writes desired_state (%s)' % otherw, 'desired|only')
    clears = []
    for v in F.fns_in('src/client/mod.rs'):
        for (i, s, pe, rve) in v.field_writes():
            if show(pe) == 'self.desired_stop_options' and show(rve) == 'Option::None{}':
                clears.append((short(v.path), [g for g in guard_strs(v, i) if 'operation is' in g or 'new_state ==' in g]))
    fnames = sorted(set(c[0] for c in clears))
    ctx.ob(fnames == ['MqttClientImpl::handle_incoming_operation', 'MqttClientImpl::reset_state_for_new_connection', 'MqttClientImpl::transition_to_state'], 'stop options cleared in %s' % fnames, 'stopopts|clears')
    arms_ = set()
    for fn_, gs in clears:
        if fn_.endswith('transition_to_state'):
            ctx.ob(any('new_state == ClientImplState::Stopped' in g and not g.startswith('!') for g in gs), 'transition_to_state clears the stop options when entering Stopped', 'stopopts|on-stopped')
        if fn_.endswith('handle_incoming_operation'):
            arms_.update(g.split(' is ')[1] for g in gs if g.startswith('operation is '))
    ctx.ob(arms_ == {'Start', 'Shutdown'}, 'the stop options are cleared by Start and by Shutdown (whose engine reset fails the DISCONNECT a stop request may be waiting on - defect 14) (%s)' % sorted(arms_), 'stopopts|on-start')
    # defect 14: the wait for a DISCONNECT to be flushed must not outlive that DISCONNECT
    rs_ = hio.calls('ProtocolState::reset')
    so_none = [i for (i, s_, pe, rve) in hio.field_writes() if show(pe) == 'self.desired_stop_options' and show(rve) == 'Option::None{}']
    okw = bool(rs_)
    for c_ in rs_:
        seen_ = hio.reach(list(hio.graph()[0][c_.bb]), avoid=so_none)
        okw = okw and not any(x in seen_ for x in hio.exits())
    ctx.ob(okw, 'whenever the client resets the protocol engine (failing every queued operation, a pending user DISCONNECT included) it also drops the stop options that wait for that DISCONNECT', 'stopopts|reset-drops-wait', loc=hio.loc())

    # ---- added after the mutation sweep: what the decision tables assume about last_connack is what dispatch produces
    dpe = ctx.fn('MqttClientImpl::dispatch_packet_events')
    lc = [(i, show(rve)) for (i, s_, pe, rve) in dpe.field_writes() if show(pe) == 'self.last_connack']
    ok = len(lc) == 1 and lc[0][1].startswith('Option::Some{') and guarded_any(dpe, lc[0][0], [r' is Connack$'])
    ces = prims.edge_nodes_matching(dpe, [r' is Connack$'])
    ok = ok and bool(ces) and all(not (set(x for x in dpe.reach([e], avoid=[lc[0][0]])) & set(c.bb for c in dpe.calls('MqttClientImpl::emit_connection_success_event'))) for e in ces)
    ctx.ob(ok, 'every CONNACK event is stored as last_connack (before a success event can be emitted)', 'producer|last-connack', loc=dpe.loc(), rule='R-C12-5')
    se = dpe.calls('MqttClientImpl::emit_connection_success_event')
    SUCC = r'^\(.*reason_code == ConnectReasonCode::Success\{\}\)$'
    ok = len(se) == 1 and guarded_any(dpe, se[0].bb, [SUCC]) and guarded_any(dpe, se[0].bb, [r' is Connack$'])
    es = prims.edge_nodes_matching(dpe, [SUCC])
    ok = ok and bool(es) and all(se[0].bb in dpe.reach([e]) for e in es)
    ctx.ob(ok, 'the connection-success event is emitted exactly for a CONNACK whose reason code is Success', 'producer|success-event', loc=dpe.loc(), rule='R-C12-5')
    ld = [(i, show(rve)) for (i, s_, pe, rve) in dpe.field_writes() if show(pe) == 'self.last_disconnect']
    ctx.ob(len(ld) == 1 and ld[0][1].startswith('Option::Some{') and guarded_any(dpe, ld[0][0], [r' is Disconnect$']), 'a server DISCONNECT event is stored for the disconnection event', 'producer|last-disconnect', loc=dpe.loc(), rule='R-C12-5')
    # ---- added after the mutation sweep: nothing from the previous attempt leaks into the events of the next one
    rsn = ctx.fn('MqttClientImpl::reset_state_for_new_connection')
    eff_ = prims.must_field_effects(F, rsn)
    for f_, w_ in (('last_connack', 'Option::None{}'), ('last_disconnect', 'Option::None{}'), ('last_error', 'Option::None{}'), ('desired_stop_options', 'Option::None{}'), ('packet_events', 'clear()')):
        ctx.ob(w_ in eff_.get(f_, set()), 'a new connection attempt starts with `%s := %s` on every path (what the next failure / disconnection event reports belongs to this attempt)' % (f_, w_), 'attempt-reset|' + f_, loc=rsn.loc(), rule='R-C12-5')
    ctx.ob(any(x.startswith('Option::Some{0: Instant::now()') for x in eff_.get('last_start_connect_time', set())), 'the attempt start time (connect timeout base) is taken when the attempt starts', 'attempt-reset|start-time', loc=rsn.loc(), rule='R-C12-5')
    att = rsn.calls('MqttClientImpl::emit_connection_attempt_event')
    ctx.ob(len(att) == 1 and att[0].bb in prims.view_must_blocks(rsn), 'every new connection attempt is reported (attempt event emitted on every path of the per-attempt reset)', 'attempt-reset|event', loc=rsn.loc(), rule='R-C12-5')
    tts_ = ctx.fn('MqttClientImpl::transition_to_state')
    rc_ = tts_.calls('MqttClientImpl::reset_state_for_new_connection')
    ctx.ob(len(rc_) == 1 and guarded_any(tts_, rc_[0].bb, [r'^\(new_state == ClientImplState::Connecting\{\}\)$']), 'the per-attempt reset runs exactly when the client enters Connecting', 'attempt-reset|site', loc=tts_.loc(), rule='R-C12-5')
    # ---- added after the mutation sweep: the waiting cell has a way out. A user DISCONNECT whose write completed (or that failed)
    # must come back from the engine as the UserInitiatedDisconnect pseudo-error: that error is what makes the client leave Connected.
    adc = ctx.fn('ProtocolState::apply_disconnect_completion')
    rs_d = prims.rets_after(adc, [r' is Disconnect$'])
    ctx.ob(rs_d == {'Err'} and prims.reaches_ret(adc, [r'^!?.* is (?!Disconnect$)[A-Z]'], 'Ok') is not False,
           'completing a DISCONNECT operation always yields the user-initiated-disconnect error (%s); other packets yield Ok' % sorted(rs_d or []), 'disconnect-completion|result', loc=adc.loc(), rule='R-C12-3')
    oo = [e for (b, e) in prims.ret_variants(adc) if e[0] == 'agg' and e[2] == 'Err']
    ctx.ob(len(oo) == 1 and 'new_user_initiated_disconnect' in show(oo[0]), 'the error is UserInitiatedDisconnect (the one the client maps to a normal transition)', 'disconnect-completion|kind', loc=adc.loc(), rule='R-C12-3')
    for fn_ in ('ProtocolState::complete_operation_as_success', 'ProtocolState::complete_operation_as_failure'):
        v_ = ctx.fn(fn_)
        cs_ = v_.calls('ProtocolState::apply_disconnect_completion')
        se_ = prims.edge_nodes_matching(v_, [r'^HashMap::remove\(self\.operations, id\) is Some$'])
        tb_ = [q for q in v_.calls('Try::branch', 'branch') if 'ProtocolState::apply_disconnect_completion(' in show(q.arg(0))]
        ok_ = len(cs_) == 1 and bool(se_) and len(tb_) == 1 and all(not (set(v_.reach([e_], avoid=[cs_[0].bb])) & set(v_.exits())) for e_ in se_) and prims.must_pass(v_, cs_[0].bb, [tb_[0].bb])[0]
        ctx.ob(ok_, '%s: every operation that was removed from the table passes the DISCONNECT completion, whose error is propagated with `?`' % short(fn_), 'disconnect-completion|' + short(fn_), loc=v_.loc(), rule='R-C12-3')
    # ---- added after the mutation sweep: the per-state loops of both drivers leave the state when the client says so and when
    # the attempt / connection failed (an outcome is reported once, then the state is left: no second outcome for the same attempt)
    from ..mir import var_init_sites
    nl_ = 0
    for v in F.all_fns():
        p_ = norm(v.path)
        m_ = re.search(r'ClientRuntimeState::process_(stopped|connecting|connected|pending_reconnect)(::\{closure#0\})?$', p_)
        if not m_ or (v.f.get('parent') and not v.f.get('coroutine')):
            continue
        if v.f.get('parent') is None and any(F.fns[k].get('parent') == v.path and F.fns[k].get('coroutine') for k in F.fns):
            continue
        nl_ += 1
        tag = short(p_, 4)
        succ_ = v.graph()[0]
        cot = v.calls('MqttClientImpl::compute_optional_state_transition')
        ctx.ob(len(cot) == 1, '%s asks the client for a transition at one place in its loop' % tag, 'driver-loop|asks|' + tag, loc=v.loc(), rule='R-C12-2')
        if len(cot) != 1:
            continue
        cb = cot[0].bb
        errs = v.calls('MqttClientImpl::apply_error')
        if m_.group(1) != 'connected':
            somes = prims.edge_nodes_matching(v, [r'^MqttClientImpl::compute_optional_state_transition\(client\) is Some$'])
            rets = [show(e) for b, e in prims.ret_variants(v) if 'compute_optional_state_transition' in show(e)]
            ok = bool(somes) and all(cb not in v.reach([e]) for e in somes) and len(rets) == 1 and rets[0].replace('Poll::Ready{0: ', '').startswith('Result::Ok{0: (MqttClientImpl::compute_optional_state_transition(client))@Some.0}')
            ctx.ob(ok, '%s: an offered transition ends the loop and is the value returned (%s)' % (tag, rets), 'driver-loop|leaves|' + tag, loc=v.loc(), rule='R-C12-2')
            # asked after every event: the loop's back edge comes only from the None answer
            nones = prims.edge_nodes_matching(v, [r'^MqttClientImpl::compute_optional_state_transition\(client\) is None$'])
            pre = v.graph()[1]
            ok = bool(nones) and all(cb in v.reach([e]) for e in nones)
            ctx.ob(ok, '%s: without a transition the loop continues (and asks again after the next event)' % tag, 'driver-loop|continues|' + tag, loc=v.loc(), rule='R-C12-2')
            for c_ in errs:
                ctx.ob(cb not in v.reach(list(succ_[c_.bb])), '%s: after reporting a failure (apply_error at line %s) the state is left without another loop iteration' % (tag, c_.ln), 'driver-loop|error-leaves|%s|%s' % (tag, show(c_.arg(1))[:60]), loc=v.loc(), rule='R-C12-2')
        else:
            defs = [(b, show(e)) for (b, j, e) in var_init_sites(v, 'next_state')] + [(i, show(rve)) for (i, s_, pe, rve) in v.field_writes() if show(pe) == 'next_state']
            defs = sorted(set(defs))
            leave = [b for b, x in defs if x == 'Option::Some{0: ClientImplState::PendingReconnect{}}']
            other = [x for b, x in defs if x not in ('Option::Some{0: ClientImplState::PendingReconnect{}}', 'Option::None{}', 'MqttClientImpl::compute_optional_state_transition(client)')]
            ctx.ob(not other and any(x == 'MqttClientImpl::compute_optional_state_transition(client)' for b, x in defs), '%s: the next state is PendingReconnect (failure) or what the client offers, nothing else (%s)' % (tag, other), 'driver-loop|next-state-values|' + tag, loc=v.loc(), rule='R-C12-2')
            gs = [g for g in prims.guard_strs_plain(v, cb) if 'next_state' in g]
            ctx.ob(bool(gs) and set(gs) == {'next_state is None'}, '%s: the client is asked exactly when no failure already decided the next state (%s)' % (tag, gs), 'driver-loop|asks-when-undecided|' + tag, loc=v.loc(), rule='R-C12-2')
            tests = set()
            for en in prims.edge_nodes_matching(v, [r'^next_state is (Some|None)$']):
                tests.update(v.graph()[1].get(en, []) if isinstance(v.graph()[1], dict) else v.graph()[1][en])
            for c_ in errs:
                ok = bool(leave) and bool(tests) and prims.must_pass(v, c_.bb, leave, targets=sorted(tests) + list(v.exits()))[0]
                ctx.ob(ok, '%s: after reporting a failure (apply_error at line %s) the next state is set to PendingReconnect before the loop condition is evaluated again' % (tag, c_.ln), 'driver-loop|error-leaves|%s|%s|%d' % (tag, show(c_.arg(1))[:60], errs.index(c_)), loc=v.loc(), rule='R-C12-2')
            # the loop runs while undecided and the value returned is the decided state
            rets = [show(e).replace('Poll::Ready{0: ', '') for b, e in prims.ret_variants(v) if 'next_state' in show(e)]
            ctx.ob(len(rets) == 1 and rets[0].startswith('Result::Ok{0: Option::unwrap(next_state)}'), '%s returns the decided next state (%s)' % (tag, rets), 'driver-loop|returns|' + tag, loc=v.loc(), rule='R-C12-2')
    if ctx.config == 'all':
        ctx.floor(nl_, 8, 'per-state driver loops (both drivers)')
    # ---- added after the mutation sweep: the configured values this property starts from reach the options (builder setters)
    from . import shared as _sh
    _ns = _sh.builder_setters(ctx, lambda b, m: b == 'StopOptionsBuilder', 'R-C12-3', 'a stop request carries the DISCONNECT the application asked for')
    if ctx.config == 'all':
        ctx.floor(_ns, 1, 'builder setters this property depends on')
    # ---- added after defect 18: the event stream a listener observes is the stream the client emitted (shared with C05)
    from . import shared as _sh4
    _n5 = _sh4.import_obligations(ctx, 'C05', lambda o: '|listener-order|' in o['key'] or o['key'].startswith('listener-order|'), 'R-C12-1', 'attempt / outcome / disconnection / stopped events reach a listener in the order they were emitted')
    if ctx.config == 'all':
        ctx.floor(_n5, 4, 'listener hand-off obligations shared with C05')
    # ---- added after the second mutation sweep: the control requests themselves (start / stop / close on the client handles)
    ncr = 0
    for v in F.all_fns():
        m_ = re.match(r'^<client::(synchronous::threaded::ThreadedClient|asynchronous::tokio::TokioClient) as client::(synchronous::SyncClient|asynchronous::AsyncClient)>::(start|stop|close)$', norm(v.path))
        if not m_:
            continue
        ncr += 1
        drv, req = m_.group(1).split('::')[1], m_.group(3)
        VAR = {'start': 'Start', 'stop': 'Stop', 'close': 'Shutdown'}[req]
        SEND_ERR = r'^(Unbounded)?Sender::send\(self\.operation_sender, OperationOptions::%s\{.*\) is Err$' % VAR
        SEND_OK = r'^(Unbounded)?Sender::send\(self\.operation_sender, OperationOptions::%s\{.*\) is Ok$' % VAR
        ra_ = prims.rets_after(v, [SEND_ERR])
        ro_ = prims.rets_after(v, [SEND_OK])
        ctx.ob(ra_ == {'Err'} and ro_ == {'Ok'}, '%s %s(): the request is the %s message; a closed client (channel send fails) is reported as an error, a delivered request as Ok (%s / %s)' % (drv, req, VAR, sorted(ra_ or ['send not found']), sorted(ro_ or [])),
               'request|%s|%s|send' % (drv, req), loc=v.loc(), rule='R-C12-5')
        if req == 'stop':
            ws_ = [(i, show(v.rvalue_expr(s_['rv'], i))) for (i, j, s_) in v.stmts() if s_['k'] == 'assign' and s_['lhs']['p'] and show(v.place_expr(s_['lhs'])) == 'stop_options.disconnect']
            somes_ = prims.edge_nodes_matching(v, [r'^\(Option::unwrap_or_default\(options\)\)\.disconnect is Some$'])
            sends_ = [c for c in v.calls() if re.search(r'Sender::send$', c.nfn.split('<')[0])]
            fw_ = [w for w in ws_ if w[1].startswith('Option::Some{0: Box::new(MqttPacket::Disconnect{0: ')]
            ok_ = len(fw_) == 1 and guarded_any(v, fw_[0][0], [r'^\(Option::unwrap_or_default\(options\)\)\.disconnect is Some$']) and len(sends_) == 1 and bool(somes_) and \
                any(sends_[0].bb in v.reach([e_]) and sends_[0].bb not in v.reach([e_], avoid=[fw_[0][0]]) for e_ in somes_)
            ctx.ob(ok_, '%s stop(): a DISCONNECT the application supplied is forwarded with the stop request (and only then)' % drv, 'request|%s|stop|disconnect' % drv, loc=v.loc(), rule='R-C12-5')
    if ctx.config == 'all':
        ctx.floor(ncr, 6, 'control request functions (start/stop/close, both clients)')

