"""C17 — topic aliases never make either side reconstruct a wrong topic."""
import re
from ..mir import show, short, norm, subexprs, var_inits
from .. import prims
from ..prims import requires, guard_strs, guarded_any, must_pass
from . import codec
from .c02 import writers

EXPLANATION = ('Structural necessary conditions of topic aliasing: an outbound resolution (which updates the resolver\'s table) is always followed '
               'by encoding the packet with that resolution; resolvers are reset only by a successful CONNACK with the CONNACK\'s alias maximum; '
               'every resolution literal that drops the topic is dominated by a binding-equals-topic test and new bindings by range tests; the '
               'MQTT 5 writer takes topic/alias from the resolution only and the 3.1.1 writer never aliases; inbound resolution precedes '
               'validation and handling and rejects zero / out-of-range / unknown aliases. Added in round 2: the LRU resolver evicts the least-recently-used binding whenever the negotiated maximum is reached, before recording a new binding. Added after the mutation sweeps: the resolver-factory setter stores its argument.')
ASSUMPTIONS = ['not decided: agreement of the resolver tables with what the server saw over all histories beyond the resolve-then-send rule; user-supplied OutboundAliasResolver implementations']
P = 'src/protocol.rs'
PS = 'protocol::ProtocolState'


def run(ctx):
    F = ctx.F
    sq = ctx.fn('ProtocolState::service_queue_aux')
    # ------------------------------------------------------------ R-C17-1
    ctx.rule('R-C17-1', 'T3 must-pass-through', 'resolve-then-send: after the outbound resolver has been consulted (and has recorded the binding) every path sets up the encoder with that resolution')
    rc = sq.calls('ProtocolState::compute_outbound_alias_resolution')
    er = sq.calls('Encoder::reset')
    ctx.ob(len(rc) == 1 and len(er) == 1, 'one resolution site and one encoder setup site in the service loop', 'resolve|sites', loc=sq.loc())
    if rc and er:
        ectx = [e for (i, j, s) in sq.stmts() if s['k'] == 'assign' for e in [sq.rvalue_expr(s['rv'], i)] if e[0] == 'agg' and e[1].endswith('EncodingContext')]
        ectx = list({show(e): e for e in ectx}.values())
        ctx.ob(len(ectx) == 1 and show(dict(ectx[0][3]).get('outbound_alias_resolution')) == 'ProtocolState::compute_outbound_alias_resolution(self, packet)', 'the encoding context carries exactly that resolution', 'resolve|context', loc=sq.loc())
        rarg = show(rc[0].arg(1))
        if re.match(r'^\w+$', rarg):
            ctx.ob(prims.reaching_defs(sq, rarg, rc[0].bb) == prims.reaching_defs(sq, rarg, er[0].bb) and show(er[0].arg(1)) == rarg,
                   'the resolver is consulted for the very packet that is then encoded (same reaching definitions of `%s` at both sites: the PUBREL substitution happens before both)' % rarg, 'resolve|same-packet', loc=rc[0].loc())
        # every path from the resolver call to a loop-back/return passes the encoder setup
        succ, _, _ = sq.graph()
        seen = sq.reach(succ[rc[0].bb], avoid=[er[0].bb])
        escapes = [b for b in seen if b < sq.n and (sq.blocks[b]['term']['k'] == 'return' or b == rc[0].bb or any(c.bb == b and c.is_fn('ProtocolState::dequeue_operation') for c in sq.calls()))]
        # a mere publish that is *not* aliasable cannot update the resolver: only Publish packets reach the resolver proper
        ctx.ob(not escapes, 'every path from the resolver call reaches Encoder::reset before the loop moves on', 'resolve|then-send', loc=rc[0].loc(),
               detail=None if not escapes else 'a path leaves through bb%s without encoding (send-time validation failure after the resolver recorded the binding): the next publish of that topic is sent with an alias the server never saw' % sorted(escapes)[:3])
    co = ctx.fn('ProtocolState::compute_outbound_alias_resolution')
    rs = co.calls('OutboundAliasResolver::resolve_and_apply_topic_alias', 'resolve_and_apply_topic_alias')
    ctx.ob(len(rs) == 1 and guarded_any(co, rs[0].bb, [r'^packet is Publish$']) and show(rs[0].arg(1)) == 'packet@Publish.0.topic_alias' and 'packet@Publish.0.topic' in show(rs[0].arg(2)),
           'the resolver is consulted only for PUBLISH packets with the packet\'s alias and topic', 'resolve|publish-only', loc=co.loc())
    callers = F.callers().get(co.key, [])
    ctx.ob(len(callers) == 1 and callers[0][0].key == sq.key, 'the resolver is consulted only from the service loop', 'resolve|single-caller', loc=co.loc())

    # ------------------------------------------------------------ R-C17-2
    ctx.rule('R-C17-2', 'T3 + T9', 'reset per connection: a successful CONNACK resets the outbound resolver with the CONNACK\'s topic alias maximum (default 0) and the inbound resolver; nothing else resets them')
    hc = ctx.fn('ProtocolState::handle_connack')
    n = 0
    for v in F.all_fns():
        if v.f['crate'] != 'gneiss_mqtt' or v.file.endswith('alias.rs'):
            continue
        for c in v.calls():
            if c.nfn.endswith('reset_for_new_connection') and ('AliasResolver' in c.nfn):
                n += 1
                ok = v.key == hc.key and guarded_any(hc, c.bb, [r'^\(packet@Connack\.0\.reason_code == ConnectReasonCode::Success\{\}\)$'])
                if 'OutboundAliasResolver' in c.nfn:
                    ok = ok and show(c.arg(1)) == 'Option::unwrap_or(packet@Connack.0.topic_alias_maximum, 0)'
                ctx.ob(ok, '%s called in %s with %s' % (short(c.fn), short(v.path), [show(c.arg(i)) for i in range(1, len(c.args))]), 'reset|%s|%s' % (short(v.path), short(c.fn)), loc=c.loc())
    ctx.floor(n, 2, 'resolver reset sites')
    new = ctx.fn('ProtocolState::new')
    ir = new.calls('InboundAliasResolver::new')
    ctx.ob(len(ir) == 1 and show(ir[0].arg(0)) == 'Option::unwrap_or(config.connect_options.topic_alias_maximum, 0)', 'the inbound resolver accepts aliases up to the maximum the client announced in CONNECT (default 0)', 'inbound|max', loc=new.loc())

    # ------------------------------------------------------------ R-C17-3
    ctx.rule('R-C17-3', 'T2 + T4', 'resolver outputs: dropping the topic requires an existing binding equal to the topic; new bindings are within 1..max; the LRU maximum is min(configured, server); writers use the resolution only')
    lits = []
    for v in F.fns_in('src/alias.rs'):
        for (i, j, s) in v.stmts():
            if s['k'] == 'assign':
                e = v.rvalue_expr(s['rv'], i)
                if e[0] == 'agg' and e[1].endswith('OutboundAliasResolution'):
                    lits.append((v, i, dict(e[3])))
    nskip = nnew = 0
    for v, i, d in lits:
        sk, al = show(d.get('skip_topic')), show(d.get('alias'))
        if sk == 'True':
            nskip += 1
            ok = al.startswith('Option::Some{') and (guarded_any(v, i, [r'^\(\(HashMap::get\(self\.current_aliases, alias@Some\.0\)\)@Some\.0 == topic\)$']) or
                                                     (guarded_any(v, i, [r'^LruCache::peek\(self\.cache, topic\) is Some$']) and al == 'Option::Some{0: (LruCache::peek(self.cache, topic))@Some.0}'))
            ctx.ob(ok, '%s: topic dropped only with an alias whose binding is exactly this topic' % short(v.path), 'lit|skip|' + short(v.path), loc=v.loc(i))
        elif al.startswith('Option::Some{'):
            nnew += 1
            if 'Manual' in v.path:
                ok = guarded_any(v, i, [r'^\(0 < alias@Some\.0\)$']) and guarded_any(v, i, [r'^\(alias@Some\.0 <=? self\.maximum_alias_value\)$'])
            else:
                ok = guarded_any(v, i, [r'^!\(self\.current_maximum_alias_value == 0\)$'])
                vals = [show(e) for _, e in var_inits(v, al[len('Option::Some{0: '):-1])]
                ok = ok and any('LruCache::len(self.cache) AddWithOverflow 1' in x for x in vals) and any('peek_lru' in x for x in vals) and len(vals) == 2
                rec = [b for b, e in var_inits(v, al[len('Option::Some{0: '):-1]) if 'peek_lru' in show(e)]
                ok = ok and all(guarded_any(v, b, [r'^\(self\.current_maximum_alias_value < alias_value']) for b in rec)
            ctx.ob(ok, '%s: a new binding uses an alias in 1..=maximum (fresh = len+1, or a recycled one when that would exceed the maximum)' % short(v.path), 'lit|new|' + short(v.path), loc=v.loc(i))
        else:
            ctx.ob(sk in ('False', '(Default::default()).skip_topic', 'Default::default()'), '%s: no alias implies the topic is sent' % short(v.path), 'lit|none|%s|%s' % (short(v.path), sk), loc=v.loc(i))
    ctx.floor(nskip, 2, 'topic-dropping resolution literals')
    ctx.floor(nnew, 2, 'new-binding resolution literals')
    lr = ctx.fn('<alias::LruOutboundAliasResolver as alias::OutboundAliasResolver>::reset_for_new_connection')
    w = [m for m in prims.mutations(lr) if m.kind == 'assign' and show(m.path) == 'self.current_maximum_alias_value']
    ctx.ob(len(w) == 1 and show(w[0].rv) == 'Ord::min(self.maximum_alias_value, maximum_alias_value)' and any(m.method == 'clear' for m in prims.mutations(lr)), 'LRU reset: maximum = min(configured, server) and the cache is cleared', 'lru|reset', loc=lr.loc())
    mr = ctx.fn('<alias::ManualOutboundAliasResolver as alias::OutboundAliasResolver>::reset_for_new_connection')
    ctx.ob(any(m.method == 'clear' for m in prims.mutations(mr)) and any(show(m.path) == 'self.maximum_alias_value' and show(m.rv) == 'maximum_alias_value' for m in prims.mutations(mr) if m.kind == 'assign'), 'manual reset: adopts the server maximum and forgets all bindings', 'manual|reset', loc=mr.loc())
    la = ctx.fn('<alias::LruOutboundAliasResolver as alias::OutboundAliasResolver>::resolve_and_apply_topic_alias')
    pushes = [c for c in la.calls('LruCache::push')]
    ctx.ob(len(pushes) == 1 and guarded_any(la, pushes[0].bb, [r'^!\(?.*skip_topic\)?$']) and 'ToString::to_string(topic)' in show(pushes[0].arg(1)), 'LRU records the (topic, alias) binding when it sends topic+alias', 'lru|record', loc=la.loc())
    # (added after seed C17-2) recycling: the resolver reuses the least-recently-used binding's alias when the *server's* maximum is
    # reached (which may be smaller than the cache capacity), so that binding must be forgotten before the new one is recorded
    pops = [c for c in la.calls('LruCache::pop_lru')]
    FULL = r'^\(LruCache::len\(self\.cache\) == self\.current_maximum_alias_value as usize\)$'
    full_edges = prims.edge_nodes_matching(la, [FULL])
    okr = len(pops) == 1 and len(pushes) == 1 and bool(full_edges) and guarded_any(la, pops[0].bb, [FULL])
    if okr:
        for en in full_edges:
            o, _ = prims.must_pass(la, en, [pops[0].bb], targets=[pushes[0].bb], after_start=False)
            okr = okr and o
        _, pred_, _ = la.graph()
        dec = set()
        for en in full_edges:
            dec.update(pred_[en])
        okr = okr and any(la.dominates(d, pushes[0].bb) for d in dec)
    ctx.ob(okr, 'LRU: whenever the cache already holds as many bindings as the negotiated maximum allows, the least-recently-used binding (whose alias is recycled) is removed before the new binding is recorded, and that test is made before every recording', 'lru|evict-before-record', loc=la.loc())
    ma = ctx.fn('<alias::ManualOutboundAliasResolver as alias::OutboundAliasResolver>::resolve_and_apply_topic_alias')
    ins = [m for m in prims.mutations(ma) if m.method == 'insert']
    ctx.ob(len(ins) == 1 and guarded_any(ma, ins[0].bb, [r'^!\(?.*skip_topic\)?$']) and guarded_any(ma, ins[0].bb, [r'\.alias is Some$']), 'manual records the binding when it sends topic+alias', 'manual|record', loc=ma.loc())
    # writers
    enc5, w5 = writers(ctx, 'encode::write_encoding_steps5')
    enc3, w3 = writers(ctx, 'encode::write_encoding_steps311')
    pw = w5['Publish']
    ps = codec.pushes(pw)
    tp = [p for p in ps if p.variant == 'StringSlice' and 'get_publish_packet_topic' in show(p.val)]
    ctx.ob(len(tp) == 1 and any(g == '!context.outbound_alias_resolution.skip_topic' for g in tp[0].guards), 'MQTT 5 PUBLISH writes the topic exactly when the resolution does not skip it', 'writer|topic', loc=pw.loc())
    ak = [p for p in ps if p.key_const() and p.key_const()[1] == 35]
    okk = len(ak) == 1 and any(g == 'context.outbound_alias_resolution.alias is Some' for g in ak[0].guards)
    if okk:
        nx = codec.next_pushes(pw, ak[0], ps, n=1)
        okk = bool(nx) and show(nx[0].val) == 'context.outbound_alias_resolution.alias@Some.0'
    ctx.ob(okk, 'MQTT 5 PUBLISH writes the alias property from the resolution only', 'writer|alias', loc=pw.loc())
    direct = [p for p in ps if p.val is not None and 'packet.topic_alias' in show(p.val)]
    ctx.ob(not direct, 'the user-supplied topic_alias field is never written directly', 'writer|no-direct-alias', loc=pw.loc())
    p3 = w3['Publish']
    ps3 = codec.pushes(p3)
    ctx.ob(not [p for p in ps3 if p.key_const()] and any(p.variant == 'StringSlice' and 'get_publish_packet_topic' in show(p.val) and not any('alias' in g for g in p.guards) for p in ps3),
           'MQTT 3.1.1 PUBLISH always writes the topic and never an alias', 'writer|311', loc=p3.loc())

    # ------------------------------------------------------------ R-C17-4
    ctx.rule('R-C17-4', 'T3 + T2', 'inbound: resolution precedes validation precedes handling; unknown, zero and out-of-range aliases are errors; an unresolved (empty) topic is rejected')
    inc = ctx.fn('ProtocolState::handle_network_event_incoming_data')
    r = inc.calls('InboundAliasResolver::resolve_topic_alias')
    va = inc.calls('validate::validate_packet_inbound_internal')
    hp = inc.calls('ProtocolState::handle_packet')
    ok = len(r) == 1 and len(va) == 1 and len(hp) == 1 and show(r[0].arg(1)).endswith('.topic_alias') and show(r[0].arg(2)).endswith('.topic')
    ctx.ob(ok, 'one inbound resolution site working on the packet\'s own alias and topic', 'inbound|site', loc=inc.loc())
    if ok:
        # every path to validation goes through the resolver (for publishes) ...
        pub_edges = prims.edge_nodes_matching(inc, [r' is Publish$'])
        okp = bool(pub_edges)
        for en in pub_edges:
            o, _ = must_pass(inc, en, [r[0].bb], targets=[va[0].bb], after_start=False)
            okp = okp and o
        ctx.ob(okp, 'for a PUBLISH, validation is reached only through the alias resolver', 'inbound|order', loc=inc.loc())
        ctx.ob(guarded_any(inc, hp[0].bb, [r'^validate::validate_packet_inbound_internal\(.* is Ok$']), 'handling only after validation succeeded', 'inbound|validated', loc=inc.loc())
        eb = [b for b in prims.err_blocks(inc) if guarded_any(inc, b, [r'^InboundAliasResolver::resolve_topic_alias\(.*\) is Err$'])]
        ctx.ob(bool(eb), 'a resolution failure fails the connection', 'inbound|fail', loc=inc.loc())
    ir_ = ctx.fn('InboundAliasResolver::resolve_topic_alias')
    ins = [m for m in prims.mutations(ir_) if m.method == 'insert']
    ctx.ob(len(ins) == 1 and guarded_any(ir_, ins[0].bb, [r'^!\(alias@Some\.0 == 0\)$']) and guarded_any(ir_, ins[0].bb, [r'^\(alias@Some\.0 <= self\.maximum_alias_value\)$']) and guarded_any(ir_, ins[0].bb, [r'^!String::is_empty\(topic\)$']),
           'an inbound binding is recorded only for a non-empty topic and an alias in 1..=maximum', 'inbound|bind', loc=ir_.loc())
    errs = prims.err_blocks(ir_)
    ctx.ob(any(guarded_any(ir_, b, [r'^HashMap::get\(self\.current_aliases, alias@Some\.0\) is None$']) for b in errs), 'an empty topic with an unknown alias is an error', 'inbound|unknown', loc=ir_.loc())
    ctx.ob(any(guarded_any(ir_, b, [r'^\(alias@Some\.0 == 0\)$', r'^\(self\.maximum_alias_value < alias@Some\.0\)$']) for b in errs), 'alias 0 or above the announced maximum is an error', 'inbound|range', loc=ir_.loc())
    ctx.ob(prims.rets_after(ir_, [r'^!String::is_empty\(topic\)$', r'^\(alias@Some\.0 == 0\)$']) == {'Err'} and prims.rets_after(ir_, [r'^!String::is_empty\(topic\)$', r'^\(self\.maximum_alias_value < alias@Some\.0\)$']) == {'Err'},
           'completeness: alias 0 / above the maximum always fails', 'inbound|range-complete', loc=ir_.loc())
    ctx.ob(prims.rets_after(ir_, [r'^String::is_empty\(topic\)$', r'^HashMap::get\(self\.current_aliases, alias@Some\.0\) is None$']) == {'Err'}, 'completeness: an empty topic with an unknown alias always fails', 'inbound|unknown-complete', loc=ir_.loc())
    w = [m for m in prims.mutations(ir_) if m.kind == 'assign' and show(m.path) == 'topic']
    ctx.ob(len(w) == 1 and guarded_any(ir_, w[0].bb, [r'^HashMap::get\(self\.current_aliases, alias@Some\.0\) is Some$']) and 'HashMap::get(self.current_aliases, alias@Some.0))@Some.0' in show(w[0].rv), 'the surfaced topic is the one bound to that alias', 'inbound|resolve', loc=ir_.loc())
    rs = ctx.fn('InboundAliasResolver::reset_for_new_connection')
    ctx.ob(any(m.method == 'clear' and show(m.path) == 'self.current_aliases' for m in prims.mutations(rs)), 'inbound reset forgets all bindings', 'inbound|reset', loc=rs.loc())
    vp = ctx.fn('publish::validate_publish_packet_inbound_internal')
    ctx.ob(any(guarded_any(vp, b, [r'^String::is_empty\(packet\.topic\)$']) for b in prims.err_blocks(vp)), 'an inbound PUBLISH whose topic is still empty after resolution is rejected', 'inbound|empty-topic', loc=vp.loc())
    # ---- added after the mutation sweep: the configured values this property starts from reach the options (builder setters)
    from . import shared as _sh
    _ns = _sh.builder_setters(ctx, lambda b, m: b == 'MqttClientOptionsBuilder' and m == 'with_outbound_alias_resolver_factory', 'R-C17-1', 'the configured resolver is the one in force')
    if ctx.config == 'all':
        ctx.floor(_ns, 1, 'builder setters this property depends on')
