"""C05 — inbound publishes are acked correctly; QoS 2 messages surface exactly once."""
import re
from ..mir import show, short, norm, subexprs, var_inits
from .. import prims
from ..prims import requires, guard_strs, guarded_any, must_pass

EXPLANATION = ('Structural necessary conditions of the receiver side: the acknowledgement built for an inbound PUBLISH/PUBREL carries '
               'that packet\'s identifier and is queued on every path; the QoS 2 event push is dominated by the not-seen test and '
               'followed by recording the identifier; lifetime (writers) of the inbound QoS 2 set; the enqueue table (acks to the '
               'back of the high-priority queue, which is only ever popped at the front); events are appended and dispatched front to back. Added in round 3: packet events are dispatched on every path after the engine handled the bytes. Added after the mutation sweeps: wire order starts at the decoder\'s output queue (shared with C03) and the engine handles decoded packets front to back.')
ASSUMPTIONS = ['not decided: exactly-once surfacing across arbitrary duplicate/reconnect histories; "an answer is only lost because the connection ended first"']
P = 'src/protocol.rs'
PS = 'protocol::ProtocolState'


def run(ctx):
    F = ctx.F
    hpub = ctx.fn('ProtocolState::handle_publish')
    hrel = ctx.fn('ProtocolState::handle_pubrel')
    # ---------------------------------------------------------- R-C05-1
    ctx.rule('R-C05-1', 'T9 value flow + T3', 'the PUBACK / PUBREC / PUBCOMP created for an inbound packet carries that packet\'s identifier, is an internal operation, and is queued on every path through its arm')
    acks = []
    for hv, trig, cases in ((hpub, 'Publish', (('AtLeastOnce', 'Puback'), ('ExactlyOnce', 'Pubrec'))), (hrel, 'Pubrel', ((None, 'Pubcomp'),))):
        for qos, ack in cases:
            creates = [c for c in hv.calls('ProtocolState::create_operation') if re.match(r'^Box::new\(MqttPacket::%s\{' % ack, show(c.arg(1)))]
            ctx.ob(len(creates) == 1, '%s handler creates exactly one %s operation' % (trig, ack), 'create|' + ack, loc=hv.loc())
            for c in creates:
                a = show(c.arg(1))
                ctx.ob(re.search(r'%sPacket\{packet_id: packet@%s\.0\.packet_id,' % (ack, trig), a) is not None, '%s.packet_id is the inbound %s\'s packet id (%s)' % (ack, trig, a[:80]), 'ackid|' + ack, loc=c.loc())
                ctx.ob(show(c.arg(2)) == 'Option::None{}', '%s is an internal operation (no completion handler)' % ack, 'ackopts|' + ack, loc=c.loc())
                req = [r'^packet is %s$' % trig] + ([r'^packet@Publish\.0\.qos is %s$' % qos] if qos else [])
                requires(ctx, hv, c.bb, req, 'ack-arm|' + ack, 'creating the ' + ack, loc=c.loc())
                enq = [e for e in hv.calls('ProtocolState::enqueue_operation') if show(e.arg(1)).startswith('ProtocolState::create_operation(self, Box::new(MqttPacket::%s{' % ack)]
                ctx.ob(len(enq) == 1 and show(enq[0].arg(2)) == 'ProtocolQueueType::HighPriority{}' and show(enq[0].arg(3)) == 'ProtocolEnqueuePosition::Back{}',
                       '%s is queued at the back of the high-priority queue' % ack, 'ackqueue|' + ack, loc=c.loc())
                if enq:
                    acks.append((hv, ack, c, enq[0]))
                    # every path from the arm to a normal Ok return passes the enqueue
                    arm_edges = prims.edge_nodes_matching(hv, [r'^packet@Publish\.0\.qos is %s$' % qos] if qos else [r'^packet is %s$' % trig])
                    okp = bool(arm_edges)
                    for en in arm_edges:
                        ok_, w = must_pass(hv, en, [enq[0].bb], after_start=False)
                        okp = okp and ok_
                    ctx.ob(okp, 'every path through the %s arm queues the %s before returning' % (qos or trig, ack), 'ackallpaths|' + ack, loc=c.loc())
                    # not conditional on the duplicate test
                    ctx.ob(not any('contains' in g for g in guard_strs(hv, enq[0].bb)), '%s is sent for duplicates too (not guarded by the seen-set test)' % ack, 'ackuncond|' + ack, loc=enq[0].loc())
    ctx.floor(len(acks), 3, 'acknowledgement construction sites')

    # ---------------------------------------------------------- R-C05-2
    ctx.rule('R-C05-2', 'T2 must-dominate', 'a QoS 2 publish is surfaced only when its id is not in the inbound set and the id is recorded on that same path; QoS 0/1 publishes are surfaced unconditionally')
    pushes = [m for m in prims.mutations(hpub) if m.kind == 'mutcall' and show(m.path) == 'context.packet_events']
    arms = {}
    for m in pushes:
        for g in guard_strs(hpub, m.bb):
            mm = re.match(r'^packet@Publish\.0\.qos is (\w+)$', g)
            if mm:
                arms.setdefault(mm.group(1), []).append(m)
    ctx.ob(set(arms) == {'AtMostOnce', 'AtLeastOnce', 'ExactlyOnce'} and all(len(v) == 1 for v in arms.values()), 'each QoS arm has exactly one event push (%s)' % sorted(arms), 'arms', loc=hpub.loc())
    for q in ('AtMostOnce', 'AtLeastOnce'):
        for m in arms.get(q, []):
            extra = [g for g in guard_strs(hpub, m.bb) if not re.match(r'^(self\.state is |packet is Publish$|packet@Publish\.0\.qos is )', g)]
            ctx.ob(not extra and m.method == 'push_back' and re.match(r'^PacketEvent::Publish\{0: packet@Publish\.0\}$', show(m.cs.arg(1))) is not None, 'QoS %s publish is surfaced unconditionally' % q, 'surface|' + q, loc=m.loc())
    for m in arms.get('ExactlyOnce', []):
        requires(ctx, hpub, m.bb, [r'^!HashSet::contains\(self\.qos2_incomplete_incoming_publishes, packet@Publish\.0\.packet_id\)$'], 'surface|ExactlyOnce', 'surfacing a QoS 2 publish', loc=m.loc())
        ins = [x for x in prims.mutations(hpub) if prims.self_field(x.path) == 'qos2_incomplete_incoming_publishes' and x.method == 'insert']
        ok = len(ins) == 1 and show(ins[0].cs.arg(1)) == 'packet@Publish.0.packet_id'
        if ok:
            ok, _ = must_pass(hpub, m.bb, [ins[0].bb])
            ok = ok and guarded_any(hpub, ins[0].bb, [r'^!HashSet::contains\(self\.qos2_incomplete_incoming_publishes, packet@Publish\.0\.packet_id\)$'])
        ctx.ob(ok, 'the surfaced QoS 2 id is recorded in the inbound set on every path after the push', 'record|ExactlyOnce', loc=m.loc())
        # (added after seed C05-3b) completeness: an id that is not in the set is *always* surfaced - no further condition (e.g. the wire DUP flag) may suppress it
        NC = r'^!HashSet::contains\(self\.qos2_incomplete_incoming_publishes, packet@Publish\.0\.packet_id\)$'
        es_ = prims.edge_nodes_matching(hpub, [NC])
        okc = bool(es_)
        for e_ in es_:
            seen_ = hpub.reach([e_], avoid=[m.bb])
            okc = okc and not any(x in seen_ for x in hpub.exits())
        extra_ = [g for g in prims.guard_strs_plain(hpub, m.bb) if not re.match(r'^(self\.state is |packet is Publish$|packet@Publish\.0\.qos is |!HashSet::contains\(self\.qos2_incomplete_incoming_publishes)', g)]
        ctx.ob(okc and not extra_, 'completeness: a QoS 2 publish whose id is not in the inbound set is surfaced on every path, under no further condition (extra guards: %s)' % extra_, 'surface-complete|ExactlyOnce', loc=m.loc())

    # ---------------------------------------------------------- R-C05-3
    ctx.rule('R-C05-3', 'T1 who-may-write', 'the inbound QoS 2 set: inserted only in the QoS 2 publish arm, removed only by PUBREL, cleared only when the session is absent and on reset; untouched by connection close')
    n = 0
    for f, m in prims.field_mutations(F, PS, P):
        if f != 'qos2_incomplete_incoming_publishes' or m.kind == 'access':
            continue
        n += 1
        v = m.view
        if m.method == 'insert':
            requires(ctx, v, m.bb, [r'^packet is Publish$', r'^packet@Publish\.0\.qos is ExactlyOnce$'], 'q2set-insert', 'recording an inbound QoS 2 id', loc=m.loc())
        elif m.method == 'remove':
            requires(ctx, v, m.bb, [r'^packet is Pubrel$'], 'q2set-remove', 'forgetting an inbound QoS 2 id', loc=m.loc())
            ctx.ob(show(m.cs.arg(1)) == 'packet@Pubrel.0.packet_id', 'the forgotten id is the PUBREL\'s packet id', 'q2set-remove-id', loc=m.loc())
        elif m.method == 'clear':
            in_reset = any(prims.self_field(x.path) == 'operations' and x.method == 'clear' for x in prims.mutations(v))
            ok = in_reset or guarded_any(v, m.bb, [r'^!session_present$'])
            ctx.ob(ok, 'inbound QoS 2 set cleared only on session-absent CONNACK or engine reset (in %s)' % short(v.path), 'q2set-clear|' + ('reset' if in_reset else 'session'), loc=m.loc())
        else:
            ctx.ob(False, 'unexpected writer of the inbound QoS 2 set: %s' % m.desc(), 'q2set-other|%s|%s' % (short(v.path), m.method), loc=m.loc())
    ctx.floor(n, 4, 'writers of the inbound QoS 2 set')

    # ---------------------------------------------------------- R-C05-4
    ctx.rule('R-C05-4', 'T4 table + T1', 'enqueue table: acknowledgements and PUBRELs go to the back of the high-priority queue, CONNECT/PINGREQ/DISCONNECT to its front, user operations to the back of the user queue; queues are only popped at the front')
    eq = ctx.fn('ProtocolState::enqueue_operation')
    rows = []
    for cv, bb in F.callers().get(eq.key, []):
        cs = [c for c in cv.calls() if c.bb == bb][0]
        q, pos, what = show(cs.arg(2)), show(cs.arg(3)), show(cs.arg(1))
        if short(cv.path) == 'ProtocolState::handle_user_event':
            # the user-event rows come from the finite-domain table (independent of how the handler is shaped)
            from . import shared
            for k_, row_ in sorted((shared.user_event_table(F, cv) or {}).items()):
                rows.append((short(cv.path), k_, '|'.join(sorted(row_['queue'])), '|'.join(sorted(row_['position'])), cs.loc()))
        else:
            m_ = re.search(r'MqttPacket::(\w+)\{', what)
            kind = m_.group(1) if m_ else ('PubrelOf:' + what[:30] if 'pending_publish_operations' in what else what[:30])
            rows.append((short(cv.path), kind, q, pos, cs.loc()))
    ctx.table('enqueue_operation call sites', rows)
    want = {'Subscribe': ('User', 'Back'), 'Unsubscribe': ('User', 'Back'), 'Publish': ('User', 'Back'), 'Disconnect': ('HighPriority', 'Front'),
            'Pingreq': ('HighPriority', 'Front'), 'Pubcomp': ('HighPriority', 'Back'), 'Puback': ('HighPriority', 'Back'), 'Pubrec': ('HighPriority', 'Back')}
    for fn_, kind, q, pos, loc in rows:
        qn = q.replace('ProtocolQueueType::', '').replace('{}', '')
        pn = pos.replace('ProtocolEnqueuePosition::', '').replace('{}', '')
        if kind in want:
            ctx.ob((qn, pn) == want[kind], '%s: %s -> %s/%s' % (fn_, kind, qn, pn), 'enq|%s|%s' % (fn_, kind), loc=loc)
        elif kind.startswith('PubrelOf'):
            ctx.ob((qn, pn) == ('HighPriority', 'Back'), '%s: PUBREL of a pending publish -> %s/%s' % (fn_, qn, pn), 'enq|%s|pubrel' % fn_, loc=loc)
        elif 'create_connect' in kind or 'Connect' in kind or 'create_connect' in next((show(c.arg(1)) for c in F.fn(fn_).calls('ProtocolState::enqueue_operation')), ''):
            ctx.ob((qn, pn) == ('HighPriority', 'Front'), '%s: CONNECT -> %s/%s' % (fn_, qn, pn), 'enq|%s|connect' % fn_, loc=loc)
        else:
            ctx.ob(False, '%s: unclassified enqueue of %s -> %s/%s' % (fn_, kind, qn, pn), 'enq|%s|%s' % (fn_, kind[:20]), loc=loc)
    ctx.floor(len(rows), 10, 'enqueue table rows')
    gq = ctx.fn('ProtocolState::get_queue')
    rets = {}
    for b, e in prims.ret_variants(gq):
        for g in guard_strs(gq, b):
            mm = re.match(r'^queue_type is (\w+)$', g)
            if mm:
                rets[mm.group(1)] = show(e)
    ctx.ob(rets == {'User': 'self.user_operation_queue', 'HighPriority': 'self.high_priority_operation_queue'}, 'get_queue maps queue types to their own queues (%s)' % rets, 'get_queue', loc=gq.loc())
    for m in prims.mutations(eq):
        if m.kind == 'mutcall' and m.method in ('push_front', 'push_back'):
            want_g = 'Front' if m.method == 'push_front' else 'Back'
            ctx.ob(guarded_any(eq, m.bb, [r'^position is %s$' % want_g]) and show(m.cs.arg(1)) == 'id', 'enqueue_operation: %s under position %s' % (m.method, want_g), 'enq-pos|' + m.method, loc=m.loc())
    bad = []
    for f, m in prims.field_mutations(F, PS, P):
        if f in ('high_priority_operation_queue', 'user_operation_queue', 'resubmit_operation_queue') and m.kind == 'mutcall' and m.method in ('pop_back', 'remove', 'swap_remove_back', 'swap_remove_front', 'drain', 'retain', 'truncate', 'insert'):
            bad.append(m)
    ctx.ob(not bad, 'intake queues are never popped from the back or edited in the middle %s' % [x.desc() for x in bad], 'queue-fifo', loc=eq.loc())

    # ---------------------------------------------------------- R-C05-5
    ctx.rule('R-C05-5', 'T1', 'packet events are only appended; the client dispatches the swapped-out queue front to back')
    ne = 0
    for v in F.fns_in(P):
        for m in prims.mutations(v):
            if 'packet_events' in show(m.path) and m.kind != 'access':
                ne += 1
                ctx.ob(m.method == 'push_back', 'packet_events written by %s in %s' % (m.method, short(v.path)), 'events|%s|%s' % (short(v.path), m.method), loc=m.loc())
    ctx.floor(ne, 6, 'packet event pushes in the engine')
    dp = ctx.fn('MqttClientImpl::dispatch_packet_events')
    it = [c for c in dp.calls('IntoIterator::into_iter', 'into_iter')]
    ok = len(it) == 1 and show(it[0].arg(0)) == 'events' and not dp.calls('Iterator::rev', 'rev') and not [c for c in dp.calls() if c.nfn.split('::')[-1] in ('sort', 'sort_by', 'reverse', 'pop_back', 'swap')
                                                                                                       and 'mem::swap' not in c.nfn]
    sw = [c for c in dp.calls('mem::swap') if 'self.packet_events' in show(c.arg(1)) + show(c.arg(0))]
    ctx.ob(ok and len(sw) == 1, 'dispatch iterates the swapped-out event queue in order (into_iter, no reordering)', 'dispatch-order', loc=dp.loc())
    bc = dp.calls('MqttClientImpl::broadcast_event')
    ctx.ob(len(bc) >= 1 and all(guarded_any(dp, c.bb, [r' is Publish$']) for c in bc), 'each Publish event is broadcast', 'dispatch-publish', loc=dp.loc())
    # ---- added after the mutation sweep: wire order starts at the decoder's output queue and the engine's loop over it
    from . import shared
    n_ = shared.import_obligations(ctx, 'C03', lambda o: o['key'].endswith('transition|emit'), 'R-C05-5', 'wire order of surfaced messages and of acknowledgements begins with the order of decoded packets')
    ctx.floor(n_, 1, 'decoder output-order obligation shared with C03')
    hid_ = ctx.fn('ProtocolState::handle_network_event_incoming_data')
    it_ = [c for c in hid_.calls('IntoIterator::into_iter', 'into_iter') if show(c.arg(0)) == 'decoded_packets']
    bad_ = [c.nfn for c in hid_.calls() if c.nfn.split('::')[-1] in ('rev', 'sort', 'sort_by', 'reverse', 'pop_back', 'swap', 'rotate_left', 'rotate_right', 'make_contiguous')]
    hp_ = hid_.calls('ProtocolState::handle_packet')
    ctx.ob(len(it_) == 1 and not bad_ and len(hp_) == 1 and guarded_any(hid_, hp_[0].bb, [r'^Iterator::next\(iter\) is Some$']) and (show(hp_[0].arg(1)) == 'packet' and [show(e_) for b_, e_ in var_inits(hid_, 'packet')] == ['(Iterator::next(iter))@Some.0'] or re.match(r'^\(?Iterator::next\(iter\)\)?@Some\.0$', show(hp_[0].arg(1))) is not None),
           'the engine handles the decoded packets front to back, one handle_packet call per packet (no reordering) (%s)' % bad_, 'handle-order', loc=hid_.loc())
    # ---- added after seed C05-3a: what the engine surfaced is dispatched to the application whatever the outcome of the call
    ctx.rule('R-C05-6', 'T3 must-pass-through', 'events the engine has queued while handling received bytes are dispatched to the application on every path, also when handling ended with an error (a PUBLISH in front of a failing packet in the same read is still delivered; its QoS 2 id is already recorded)')
    hib = ctx.fn('MqttClientImpl::handle_incoming_bytes')
    hne_ = hib.calls('ProtocolState::handle_network_event')
    dsp = hib.calls('MqttClientImpl::dispatch_packet_events')
    ok = len(hne_) == 1 and len(dsp) == 1
    if ok:
        seen_ = hib.reach(list(hib.graph()[0][hne_[0].bb]), avoid=[dsp[0].bb])
        ok = not any(x in seen_ for x in hib.exits())
    ctx.ob(ok, 'handle_incoming_bytes dispatches the packet events after the engine call on every path (error or not)', 'dispatch|always', loc=hib.loc())
    rv_ = [show(e) for b, e in prims.ret_variants(hib)]
    ctx.ob(bool(rv_) and all(x in ('result', 'ProtocolState::handle_network_event(self.protocol_state, context)') or x.startswith('ProtocolState::handle_network_event(') for x in rv_), 'and returns the engine\'s own result (%s)' % rv_, 'dispatch|result', loc=hib.loc())
    # ---- added after seed C05-4b: every decoded packet is handled or ends the connection; nothing is skipped
    hp2_ = hid_.calls('ProtocolState::handle_packet')
    nx2_ = [c for c in hid_.calls('Iterator::next', 'next') if show(c.arg(0)) == 'iter']
    somes_ = prims.edge_nodes_matching(hid_, [r'^Iterator::next\(iter\) is Some$'])
    ok_ = len(hp2_) == 1 and len(nx2_) == 1 and bool(somes_) and all(nx2_[0].bb not in hid_.reach([e_], avoid=[hp2_[0].bb]) and not (set(hid_.reach([e_], avoid=[hp2_[0].bb])) & set(prims.ok_blocks(hid_))) for e_ in somes_)
    ctx.ob(ok_, 'for every decoded packet the loop either reaches handle_packet or returns an error (ending the connection); no path goes on to the next packet or returns Ok without handling this one', 'handle-every-packet', loc=hid_.loc(), rule='R-C05-1')
    # ---- added after defect 18 (side note of the sub-agent of C05-4): dispatch order must survive the hand-off to the listener.
    # The client calls its callback spawner once per event, in order; a spawner that creates a task (or thread) per event loses that
    # order on a multi-threaded runtime.  Decided on the closures whose signature is (Arc<ClientEvent>, Arc<listener callback>).
    SPAWN = re.compile(r'(^|::)(spawn|spawn_blocking|spawn_local|spawn_unchecked|spawn_scoped)$')
    nsp = 0
    for v_ in F.all_fns():
        ls_ = v_.f.get('locals') or []
        ar_ = [str(a.get('ty')) for a in ls_[1:1 + (v_.f.get('argc') or 0)]]
        if len(ar_) != 3 or 'closure' not in ar_[0] or not ar_[1].endswith('Arc<client::ClientEvent>') or not re.match(r'^std::sync::Arc<dyn std::ops::Fn\(std::sync::Arc<client::ClientEvent>\)', ar_[2]):
            continue
        nsp += 1
        reach_ = F.reachable_from([v_])
        sp_ = sorted({'%s in %s' % (c.nfn.split('<')[0], short(r_.path)) for r_ in reach_ for c in r_.calls() if SPAWN.search(c.nfn.split('<')[0])})
        ctx.ob(not sp_, '%s hands an event to a listener without creating a task or thread per event (%s)' % (short(v_.path, 3), sp_), 'listener-order|no-spawn-per-event|' + short(v_.path, 3), loc=v_.loc(), rule='R-C05-5')
        sends_ = [c for r_ in reach_ for c in r_.calls() if re.search(r'(UnboundedSender|Sender|SyncSender)::send$', c.nfn.split('<')[0])]
        inline_ = [c for r_ in reach_ for c in r_.calls() if c.nfn.split('<')[0].endswith('Fn::call')]
        if sends_ and not inline_:
            par_ = v_.f.get('parent')
            sib_ = [F.view(k) if hasattr(F, 'view') else None for k in F.fns if F.fns[k].get('parent') == par_ and k != v_.path]
            sib_ = [s_ for s_ in sib_ if s_ is not None]
            cons_ = []
            for s_ in sib_:
                rs_ = F.reachable_from([s_])
                if any(re.search(r'Receiver::recv$', c.nfn.split('<')[0]) for r_ in rs_ for c in r_.calls()) and any(c.nfn.split('<')[0].endswith('Fn::call') for r_ in rs_ for c in r_.calls()):
                    cons_.append((s_, sorted({c.nfn.split('<')[0] for r_ in rs_ for c in r_.calls() if SPAWN.search(c.nfn.split('<')[0])})))
            ctx.ob(len(cons_) == 1 and not cons_[0][1], '%s queues the event on a channel that exactly one task drains in order, calling the listener inline (%s)' % (short(v_.path, 3), [(short(s_.path, 3), sp2_) for s_, sp2_ in cons_]),
                   'listener-order|single-consumer|' + short(v_.path, 3), loc=v_.loc(), rule='R-C05-5')
        else:
            ctx.ob(bool(inline_), '%s calls the listener inline' % short(v_.path, 3), 'listener-order|inline|' + short(v_.path, 3), loc=v_.loc(), rule='R-C05-5')
    if ctx.config == 'all':
        ctx.floor(nsp, 2, 'listener hand-off closures (one per driver)')
    # ---- added after defect 19 (side note of the sub-agent of C05-4): a PUBLISH completely received in front of a malformed packet in the
    # same socket read is handled (surfaced, answered) before the decode failure is reported - as it would be had it arrived in a read of its own
    derr_ = [b_ for b_, e_ in prims.ret_variants(hid_) if show(e_).startswith('Decoder::decode_bytes(') or (e_[0] == 'agg' and e_[2] == 'Err' and guarded_any(hid_, b_, [r'^Decoder::decode_bytes\(.*\) is Err$']) and not guarded_any(hid_, b_, [r'^Iterator::next\(iter\) is Some$']))]
    loop_exit_ = [r'^Iterator::next\(iter\) is None$']
    ctx.ob(len(it_) == 1 and bool(derr_) and all(hid_.dominates(it_[0].bb, b_) and guarded_any(hid_, b_, loop_exit_) for b_ in derr_),
           'a decode failure is reported only after every packet decoded in front of it has been handled (the failing return lies behind the packet loop)', 'decode-failure-after-packets', loc=hid_.loc(), rule='R-C05-1')
