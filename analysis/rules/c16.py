"""C16 — nothing breaking the server's announced limits or static packet rules is sent."""
import re
from ..mir import show, short, norm, subexprs, var_inits, fold
from .. import prims
from ..prims import requires, guard_strs, guarded_any, must_pass
from ..spec import mqtt5
from . import codec
from .c02 import writers

EXPLANATION = ('Field-coverage and sibling-agreement rules over the validators: every limit the server announces in CONNACK is tested by a guard '
               'in a send-time validator (or by flow control); every field an encoder writes behind a 16-bit length prefix is length-checked by '
               'that packet\'s validators (user-property name and value separately); static rules (non-empty lists, unset packet id, topic / '
               'filter validity, identifier ranges) have their guards; every submit path and the service loop are dominated by validation; '
               'both validator dispatchers route each packet kind to its own validator. Added in round 2: send-time validation is given the very alias resolution the encoder applies (the packet measured is the packet written). Added after the mutation sweeps: each rejection condition of topic / filter / subscription-identifier validation suffices on its own; every outbound validator rejects under exactly the reviewed conditions (table).')
ASSUMPTIONS = ['not decided: that a conforming operation is never rejected, and the topic-filter grammar over all strings']
P = 'src/protocol.rs'


def guards_mentioning(F, field, root_re=r'(negotiated_settings|settings|current_settings)'):
    out = []
    for v in F.all_fns():
        if v.f['crate'] != 'gneiss_mqtt' or v.file.endswith('logging.rs'):
            continue
        for i in v.live_blocks():
            t = v.blocks[i]['term']
            if t['k'] != 'switch' or prims.is_log_mac(t.get('mac', '')):
                continue
            e = v.operand_expr(t['op'], i)
            s = show(e)
            if re.search(root_re, s) and re.search(r'\.%s\b' % field, s):
                out.append((v, i, s))
    return out


def run(ctx):
    F = ctx.F
    # ------------------------------------------------------------ R-C16-1
    ctx.rule('R-C16-1', 'T5 field coverage', 'every limit the server announces (maximum packet size, maximum QoS, retain / wildcard / shared-subscription / subscription-identifier availability, receive maximum) is tested by an enforcing guard')
    WHERE = {
        'maximum_qos': r'publish::validate_publish_packet_outbound_internal$',
        'maximum_packet_size_to_server': r'_outbound_internal$',
        'retain_available': r'publish::validate_publish_packet_outbound_internal$',
        'wildcard_subscriptions_available': r'validate::is_valid_topic_filter_internal$',
        'shared_subscriptions_available': r'validate::is_valid_topic_filter_internal$',
        'subscription_identifiers_available': r'subscribe::validate_subscribe_packet_outbound_internal$|validate::',
        'receive_maximum_from_server': r'ProtocolState::does_operation_pass_receive_maximum_flow_control$',
    }
    for fld, where in WHERE.items():
        gs = [(v, i, s) for v, i, s in guards_mentioning(F, fld) if re.search(where, short(v.path, 3))]
        ctx.ob(bool(gs), 'server-announced `%s` is enforced by a guard in %s' % (fld, sorted(set(short(v.path) for v, _, _ in gs)) or 'no validator'),
               'capability|' + fld, loc=gs[0][0].loc(gs[0][1]) if gs else None,
               detail=None if gs else 'the field is stored in NegotiatedSettings but no validator or flow-control guard reads it')
    # capability checks of the filter helper: complete (the rejecting conjunction only reaches `false`) and
    # unconditional (the decision dominates the accepting return, so no else-branch / early accept skips it)
    tf = ctx.fn('validate::is_valid_topic_filter_internal')
    for cap, prop_ in (('wildcard_subscriptions_available', 'has_wildcard'), ('shared_subscriptions_available', 'is_shared')):
        ra = prims.rets_after(tf, [r'^[^!].*\.%s$' % prop_, r'^!.*\.%s$' % cap])
        ctx.ob(ra == {'False'}, 'filter helper: a filter with `%s` is always rejected when the server lacks `%s` (outcomes: %s)' % (prop_, cap, sorted(ra) if ra else 'conjunction not found'),
               'capability-complete|' + cap, loc=tf.loc())
        fnd, okd, bad = prims.decision_dominates_accept(tf, [r'\.%s$' % prop_])
        ctx.ob(fnd and okd, 'filter helper: the `%s` test is on every accepting path (it is not nested under an unrelated branch)' % prop_, 'capability-unconditional|' + cap, loc=tf.loc())
    fnd, okd, bad = prims.decision_dominates_accept(tf, [r'\.is_valid$'])
    ctx.ob(fnd and okd and prims.rets_after(tf, [r'^!.*\.is_valid$']) == {'False'}, 'filter helper: grammar validity is tested on every accepting path and an invalid filter is always rejected', 'capability-unconditional|is_valid', loc=tf.loc())
    ra = prims.rets_after(tf, [r'^[^!].*\.is_shared$', r'^no_local is Some$', r'^no_local@Some\.0$'])
    ctx.ob(ra == {'False'}, 'filter helper: a shared filter with no-local set is always rejected', 'static|shared-nolocal', loc=tf.loc())
    # every outbound-internal validator of a packet with a body compares the encoded size with the maximum
    vi = ctx.fn('validate::validate_packet_outbound_internal')
    disp = codec.dispatch_by_variant(vi, r'^packet is (\w+)$')
    for var, css in disp.items():
        iv = ctx.fn(norm(css[0].fn))
        errs = prims.err_blocks(iv)
        fnd, okc = prims.never_ok_after(iv, [r'^\(\(Option::unwrap\(context\.negotiated_settings\)\)\.maximum_packet_size_to_server < '])
        ok = fnd and okc
        ctx.ob(ok, '%s: send-time validator rejects packets longer than the server\'s maximum packet size' % var, 'maxsize|' + var, loc=iv.loc())
        fnd2, okd, bad = prims.decision_dominates_accept(iv, [r'maximum_packet_size_to_server < '])
        ctx.ob(fnd2 and okd, '%s: the maximum-packet-size test is on every accepting path of the send-time validator' % var, 'maxsize-unconditional|' + var, loc=iv.loc())
    ctx.floor(len(disp), 9, 'send-time validators')
    pv = ctx.fn('publish::validate_publish_packet_outbound_internal')
    errs = prims.err_blocks(pv)
    ctx.ob(prims.rets_after(pv, [r'maximum_qos is AtMostOnce$', r'^!\(packet\.qos == QualityOfService::AtMostOnce\{\}\)$']) == {'Err'} and
           prims.rets_after(pv, [r'maximum_qos is AtLeastOnce$', r'^\(packet\.qos == QualityOfService::ExactlyOnce\{\}\)$']) == {'Err'},
           'PUBLISH: QoS above the server maximum is rejected (max 0: any QoS>0; max 1: QoS 2)', 'maxqos|table', loc=pv.loc())
    fnd2, okd, bad = prims.decision_dominates_accept(pv, [r'^!?packet\.retain$'])
    ctx.ob(fnd2 and okd, 'PUBLISH: the retain test is on every accepting path of the send-time validator', 'retain-unconditional', loc=pv.loc())
    fnd2, okd, bad = prims.decision_dominates_accept(pv, [r'maximum_qos is \w+$'])
    ctx.ob(fnd2 and okd, 'PUBLISH: the maximum-QoS test is on every accepting path of the send-time validator', 'maxqos-unconditional', loc=pv.loc())
    fnd, okc = prims.never_ok_after(pv, [r'^packet\.retain$', r'^!.*\.retain_available$'])
    ctx.ob(fnd and okc, 'PUBLISH: retain is always rejected when the server does not support it (no accepting path once retain && !retain_available)', 'retain', loc=pv.loc())

    # ------------------------------------------------------------ R-C16-2
    ctx.rule('R-C16-2', 'T10 encoder/validator agreement', 'every field written behind a 16-bit length prefix is length-validated (<= 65535) by the packet\'s validators; user property name and value are validated separately')
    enc5, w5 = writers(ctx, 'encode::write_encoding_steps5')
    vo = ctx.fn('validate::validate_packet_outbound')
    dispo = codec.dispatch_by_variant(vo, r'^packet is (\w+)$')
    LENCHK = ('validate::validate_string_length', 'validate::validate_optional_string_length', 'validate::validate_optional_binary_length', 'validate::is_valid_topic', 'validate::is_valid_topic_filter_internal')
    npairs = 0
    for var in ('Publish', 'Subscribe', 'Unsubscribe', 'Disconnect', 'Connect', 'Puback', 'Pubrec', 'Pubrel', 'Pubcomp'):
        w = w5.get(var)
        if w is None or var not in dispo or var not in disp and var != 'Connect':
            continue
        vals = [ctx.fn(norm(dispo[var][0].fn))] + ([ctx.fn(norm(disp[var][0].fn))] if var in disp else [])
        checked = set()
        for v in vals:
            for c in v.calls(*LENCHK):
                for x in subexprs(c.arg(0)):
                    if x[0] == 'proj':
                        checked.update(pj[1:] for pj in x[2] if pj.startswith('.'))
                    if x[0] == 'var':
                        for pj in x[2]:
                            if pj.startswith('.'):
                                checked.add(pj[1:])
                        # loop variable over a list field: `for filter in &packet.topic_filters`
                        for _, ie in var_inits(v, x[1]):
                            for y in subexprs(ie):
                                if y[0] == 'var':
                                    checked.update(pj[1:] for pj in y[2] if pj.startswith('.'))
                s0 = show(c.arg(0))
                mi = re.search(r"Iterator::next\(([\w']+)\)", s0)
                if mi:
                    for _, ie in var_inits(v, mi.group(1)):
                        for y in subexprs(ie):
                            if y[0] == 'var':
                                checked.update(pj[1:] for pj in y[2] if pj.startswith('.'))
            if v.calls('validate::validate_user_properties'):
                for c in v.calls('validate::validate_user_properties'):
                    checked.add('user_properties:' + show(c.arg(0)))
        ps = codec.pushes(w)
        for p in ps:
            if p.variant != 'Uint16' or p.val is None:
                continue
            lm = re.match(r'^(?:String|Vec|str|slice)::len\((.*)\) as u16$', show(p.val))
            if not lm:
                continue
            src = lm.group(1)
            if '.name' in src or '.value' in src:
                continue   # user properties: below
            mi = re.match(r"^\(Iterator::next\(([\w']+)\)\)@Some\.0(?:\.1)?(.*)$", src)
            if mi:
                inits = var_inits(w, mi.group(1))
                src = (show(inits[0][1]).rstrip(')') if inits else src) + mi.group(2)
            fld = [x for x in re.split(r'[.@]', src) if x not in ('Some', '0', '1')][-1]
            if fld == 'topic_filter':
                fld_alt = 'topic_filter'
            npairs += 1
            ok = fld in checked or (fld == 'payload')
            ctx.ob(ok, '%s.%s is written with a 16-bit length prefix and is length-validated' % (var, fld), 'lencheck|%s|%s' % (var, fld), loc=p.cs.loc())
    ctx.floor(npairs, 20, 'length-prefixed fields')
    up = ctx.fn('validate::validate_user_properties')
    args = sorted(show(c.arg(0)) for c in up.calls('validate::validate_string_length'))
    has_name = any(re.search(r'\.name\)?$', a) for a in args)
    has_value = any(re.search(r'\.value\)?$', a) for a in args)
    ctx.ob(has_name, 'user property *name* length is validated', 'userprop|name', loc=up.loc())
    ctx.ob(has_value, 'user property *value* length is validated (found checks on: %s)' % args, 'userprop|value', loc=up.loc(),
           detail=None if has_value else 'both validate_string_length calls receive property.name; a value longer than 65535 bytes is accepted and its 16-bit length prefix truncates')
    for nm in ('validate_string_length', 'validate_optional_string_length', 'validate_optional_binary_length'):
        hv = ctx.fn('validate::' + nm)
        errs = prims.err_blocks(hv)
        ok = bool(errs) and all(guarded_any(hv, b, [r'^\(MAXIMUM_(STRING|BINARY)_PROPERTY_LENGTH < (str|String|Vec)::len\(']) for b in errs)
        ctx.ob(ok, '%s rejects lengths above the 65535 constant' % nm, 'lenhelper|' + nm, loc=hv.loc())
    for cn in ('MAXIMUM_STRING_PROPERTY_LENGTH', 'MAXIMUM_BINARY_PROPERTY_LENGTH'):
        c = F.consts.get('validate::' + cn)
        ctx.ob(c is not None and c['val'] == 65535, '%s == 65535' % cn, 'lenconst|' + cn)

    # ------------------------------------------------------------ R-C16-3
    ctx.rule('R-C16-3', 'T2 static rules', 'submit-time validators reject a preset packet id, empty subscription/filter lists, invalid topics, a zero topic alias, and subscription identifiers outside 1..268435455')
    for var, fn_, lst in (('Subscribe', 'subscribe::validate_subscribe_packet_outbound', 'subscriptions'), ('Unsubscribe', 'unsubscribe::validate_unsubscribe_packet_outbound', 'topic_filters'), ('Publish', 'publish::validate_publish_packet_outbound', None)):
        v = ctx.fn(fn_)
        errs = prims.err_blocks(v)
        fnd, okc = prims.never_ok_after(v, [r'^!\(packet\.packet_id == 0\)$'])
        ctx.ob(fnd and okc, '%s: a packet id set by the user is always rejected at submission' % var, 'static|%s|packet-id' % var, loc=v.loc())
        if lst:
            fnd, okc = prims.never_ok_after(v, [r'^Vec::is_empty\(packet\.%s\)$' % lst])
            ctx.ob(fnd and okc, '%s: an empty %s list is always rejected' % (var, lst), 'static|%s|nonempty' % var, loc=v.loc())
    vp = ctx.fn('publish::validate_publish_packet_outbound')
    errs = prims.err_blocks(vp)
    ctx.ob(prims.rets_after(vp, [r'^!validate::is_valid_topic\(.*packet\.topic\)\)?$']) == {'Err'}, 'PUBLISH: an invalid topic is always rejected', 'static|Publish|topic', loc=vp.loc())
    ctx.ob(prims.rets_after(vp, [r'^!validate::is_valid_topic\(.*response_topic']) == {'Err'}, 'PUBLISH: an invalid response topic is always rejected', 'static|Publish|response-topic', loc=vp.loc())
    ctx.ob(prims.rets_after(vp, [r'^\(packet\.topic_alias@Some\.0 == 0\)$']) == {'Err'}, 'PUBLISH: topic alias 0 is always rejected', 'static|Publish|alias-zero', loc=vp.loc())
    ctx.ob(prims.rets_after(vp, [r'^packet\.subscription_identifiers is Some$']) == {'Err'}, 'PUBLISH: client-side subscription identifiers are always rejected', 'static|Publish|subids', loc=vp.loc())
    for var, fn_ in (('Subscribe', 'subscribe::validate_subscribe_packet_outbound_internal'), ('Unsubscribe', 'unsubscribe::validate_unsubscribe_packet_outbound_internal')):
        v = ctx.fn(fn_)
        errs = prims.err_blocks(v)
        ctx.ob(prims.rets_after(v, [r'^!validate::is_valid_topic_filter_internal\(']) == {'Err'}, '%s: a filter failing the validity helper always rejects the packet' % var, 'static|%s|filters' % var, loc=v.loc())
    it = ctx.fn('validate::is_valid_topic')
    falses = [b for b, e in prims.ret_variants(it) if show(e) == 'False']
    ctx.ob(any(guarded_any(it, b, [r'^str::is_empty\(topic\)$', r'^\(MAXIMUM_STRING_PROPERTY_LENGTH < str::len\(topic\)\)$']) for b in falses) and any('contains' in g for b in falses for g in guard_strs(it, b)),
           'topic validity: non-empty, <= 65535 bytes, no wildcard characters', 'static|topic-helper', loc=it.loc())
    # subscription identifier range
    vs = [ctx.fn('subscribe::validate_subscribe_packet_outbound'), ctx.fn('subscribe::validate_subscribe_packet_outbound_internal')]
    rng = False
    ZERO = r'^\(packet\.subscription_identifier@Some\.0 == 0\)$'
    TOOBIG = r'^\(MAXIMUM_VARIABLE_LENGTH_INTEGER as u32 < packet\.subscription_identifier@Some\.0\)$|^\(268435455 < packet\.subscription_identifier@Some\.0\)$'
    for v in vs:
        if prims.edge_nodes_matching(v, [ZERO]) and prims.edge_nodes_matching(v, [TOOBIG]):
            for b in prims.err_blocks(v):
                if guarded_any(v, b, [ZERO, TOOBIG]):
                    rng = True
    ctx.ob(rng, 'SUBSCRIBE: a subscription identifier outside 1..268435455 is rejected', 'static|Subscribe|subid-range', loc=vs[0].loc(),
           detail=None if rng else 'no validator compares packet.subscription_identifier with 0 or the variable-byte-integer maximum')

    # ---- added after the mutation sweep: each rejection condition suffices on its own (an `||` that became `&&` keeps both atoms in place)
    for v in vs:
        z_, okz = prims.never_ok_after(v, [ZERO])
        b_, okb = prims.never_ok_after(v, [TOOBIG])
        if z_ or b_:
            ctx.ob(z_ and okz and b_ and okb, '%s: identifier 0 alone is rejected, and an identifier above 268435455 alone is rejected' % short(v.path), 'static|Subscribe|subid-each|' + short(v.path), loc=v.loc())
    for nm_, pat_ in (('empty', r'^str::is_empty\(topic\)$'), ('too-long', r'^\(MAXIMUM_STRING_PROPERTY_LENGTH < str::len\(topic\)\)$'), ('wildcard', r'^str::contains\(topic, ')):
        ra_ = prims.rets_after(it, [pat_])
        ctx.ob(ra_ == {'False'}, 'topic validity: a topic that is %s is invalid whatever else holds (%s)' % (nm_, sorted(ra_ or ['test not found'])), 'static|topic-helper|' + nm_, loc=it.loc())
    ctx.ob(prims.reaches_ret(it, [r'^!str::contains\(topic, '], 'True') is True, 'topic validity: a non-empty topic of legal length without wildcards is valid', 'static|topic-helper|accept', loc=it.loc())
    tfp = ctx.fn('validate::compute_topic_filter_properties')
    inval = [i_ for (i_, s_, pe, rve) in tfp.field_writes() if show(pe) == 'properties.is_valid' and show(rve) == 'False']
    for nm_, pat_ in (('empty', r'^str::is_empty\(topic\)$'), ('too-long', r'^\(MAXIMUM_STRING_PROPERTY_LENGTH < str::len\(topic\)\)$')):
        es_ = prims.edge_nodes_matching(tfp, [pat_])
        ctx.ob(bool(es_) and bool(inval) and all(not (set(tfp.reach([e_], avoid=inval)) & set(tfp.exits())) for e_ in es_),
               'topic filter validity: a filter that is %s is marked invalid before the properties are returned' % nm_, 'static|filter-helper|' + nm_, loc=tfp.loc())
    ini_ = [show(e_) for (i_, j_, s_) in tfp.stmts() if s_['k'] == 'assign' for e_ in [tfp.rvalue_expr(s_['rv'], i_)] if e_[0] == 'agg' and e_[1].endswith('TopicFilterProperties')]
    ctx.ob(ini_ == ['TopicFilterProperties{is_valid: True, is_shared: False, has_wildcard: False}'], 'topic filter properties start as valid, not shared, no wildcard (%s)' % ini_, 'static|filter-helper|init', loc=tfp.loc())

    # ------------------------------------------------------------ R-C16-4
    ctx.rule('R-C16-4', 'T2 enforcement points', 'send-time validation dominates encoding in the service loop and a failure fails the operation and skips it; stop() validates its DISCONNECT (submit paths: R-C13-4)')
    sq = ctx.fn('ProtocolState::service_queue_aux')
    er = sq.calls('Encoder::reset')
    ctx.ob(len(er) == 1, 'one encoder setup site', 'svc|reset-site', loc=sq.loc())
    for c in er:
        requires(ctx, sq, c.bb, [r'^validate::validate_packet_outbound_internal\(packet, validation_context\) is Ok$'], 'svc|validated', 'setting up the encoder', loc=c.loc())
    fl = [c for c in sq.calls('ProtocolState::complete_operation_as_failure') if guarded_any(sq, c.bb, [r'^validate::validate_packet_outbound_internal\(packet, validation_context\) is Err$'])]
    ctx.ob(len(fl) == 1 and show(fl[0].arg(2)).endswith('@Err.0') , 'a send-time validation failure fails the operation with the validation error', 'svc|fail', loc=sq.loc())
    if fl:
        cur = [(i, s) for (i, s, pe, rve) in sq.field_writes() if show(pe) == 'self.current_operation' and show(rve) == 'Option::None{}' and guarded_any(sq, i, [r'^validate::validate_packet_outbound_internal\(packet, validation_context\) is Err$'])]
        ctx.ob(len(cur) == 1, 'the rejected operation is un-seated (current_operation := None) so it is never encoded', 'svc|unseat', loc=sq.loc())
        # after the failure the loop goes back to dequeuing (it does not fall through to the encoder with this packet)
        succ, _, _ = sq.graph()
        # (the un-seat just checked makes the `current_operation is Some` edge of the loop head infeasible on this path)
        after = sq.reach(succ[fl[0].bb], avoid=[c.bb for c in sq.calls('ProtocolState::dequeue_operation')] + prims.edge_nodes_matching(sq, [r'^self\.current_operation is Some$']))
        ctx.ob(not (set(c.bb for c in er) & after) and not (set(c.bb for c in sq.calls('Encoder::encode')) & after), 'after the failure the loop continues with the next operation without encoding the rejected one', 'svc|continue', loc=sq.loc())
    vcx = [e for (i, j, s) in sq.stmts() if s['k'] == 'assign' for e in [sq.rvalue_expr(s['rv'], i)] if e[0] == 'agg' and e[1].endswith('OutboundValidationContext')]
    vcx = list({show(e): e for e in vcx}.values())
    ctx.ob(len(vcx) == 1 and show(dict(vcx[0][3]).get('connect_options')) == 'Option::Some{0: self.config.connect_options}', 'the validation context carries the connect options', 'svc|context', loc=sq.loc())
    # (added after seed C16-2) the packet that is measured is the packet that is written: validation sees the alias resolution the encoder uses
    ecx = [e for (i, j, s) in sq.stmts() if s['k'] == 'assign' for e in [sq.rvalue_expr(s['rv'], i)] if e[0] == 'agg' and e[1].endswith('EncodingContext')]
    ecx = list({show(e): e for e in ecx}.values())
    va_ = show(dict(vcx[0][3]).get('outbound_alias_resolution')) if len(vcx) == 1 else None
    ea_ = show(dict(ecx[0][3]).get('outbound_alias_resolution')) if len(ecx) == 1 else None
    ctx.ob(va_ is not None and ea_ is not None and va_ == 'Option::Some{0: %s}' % ea_ and 'compute_outbound_alias_resolution' in ea_,
           'send-time validation (maximum packet size, alias range) is given the very topic-alias resolution the encoder will apply (validation: %s; encoder: %s)' % (va_, ea_), 'svc|context-alias', loc=sq.loc())
    ns = [(i, s) for (i, s, pe, rve) in sq.field_writes() if show(pe) == 'validation_context.negotiated_settings' and 'self.current_settings' in show(rve)]
    ctx.ob(len(ns) == 1, 'the validation context carries the current negotiated settings', 'svc|context-settings', loc=sq.loc())
    nstop = 0
    for v in F.all_fns():
        p = norm(v.path)
        if re.match(r'^<client::(synchronous::threaded::ThreadedClient|asynchronous::tokio::TokioClient) as client::(synchronous::SyncClient|asynchronous::AsyncClient)>::stop$', p):
            nstop += 1
            sends = [c for c in v.calls() if re.search(r'(Sender|UnboundedSender)::send$', c.nfn)]
            vd = v.calls('disconnect::validate_disconnect_packet_outbound')
            ok = len(sends) == 1 and len(vd) == 1 and guarded_any(v, sends[0].bb, [r'^Try::branch\(disconnect::validate_disconnect_packet_outbound\(.*\)\) is Continue$', r'\.disconnect is None$'])
            ctx.ob(ok, '%s: a DISCONNECT passed to stop() is validated before the stop request is sent' % short(p, 3), 'stop|' + short(p, 3), loc=v.loc())
    if ctx.config == 'all':
        ctx.floor(nstop, 2, 'stop() implementations')

    # ------------------------------------------------------------ R-C16-5
    ctx.rule('R-C16-5', 'T4 dispatch', 'both validator dispatchers route each packet kind to the validator of that kind')
    for nm, d in (('validate_packet_outbound', dispo), ('validate_packet_outbound_internal', disp)):
        for var, css in d.items():
            want = 'validate_%s_packet_outbound%s' % (var.lower(), '_internal' if nm.endswith('internal') else '')
            ctx.ob(css[0].nfn.endswith('::' + want), '%s: %s -> %s' % (nm, var, short(css[0].fn)), 'vdispatch|%s|%s' % (nm, var))
        ctx.ob({'Publish', 'Subscribe', 'Unsubscribe', 'Disconnect'} <= set(d), '%s covers all user-submittable kinds' % nm, 'vdispatch|%s|coverage' % nm)
    # ---- added after seed C16-3b: each enforced limit is the value the server announced for *that* limit
    bn_ = ctx.fn('protocol::build_negotiated_settings')
    lit_ = [e for (i, j, s_) in bn_.stmts() if s_['k'] == 'assign' for e in [bn_.rvalue_expr(s_['rv'], i)] if e[0] == 'agg' and e[1].endswith('NegotiatedSettings')]
    lit_ = list({show(e): e for e in lit_}.values())
    ctx.ob(len(lit_) == 1, 'one NegotiatedSettings literal', 'limit-source|literal', loc=bn_.loc(), rule='R-C16-1')
    if len(lit_) == 1:
        d_ = dict(lit_[0][3])
        SRC = {'maximum_qos': 'maximum_qos', 'retain_available': 'retain_available', 'wildcard_subscriptions_available': 'wildcard_subscriptions_available',
               'shared_subscriptions_available': 'shared_subscriptions_available', 'subscription_identifiers_available': 'subscription_identifiers_available',
               'maximum_packet_size_to_server': 'maximum_packet_size', 'receive_maximum_from_server': 'receive_maximum', 'topic_alias_maximum_to_server': 'topic_alias_maximum'}
        for f_, src_ in sorted(SRC.items()):
            val = show(d_.get(f_)) if d_.get(f_) is not None else None
            others = [x for x in SRC.values() if x != src_ and val is not None and re.search(r'packet\.%s\b' % re.escape(x), val)]
            ctx.ob(val is not None and re.search(r'packet\.%s\b' % re.escape(src_), val) is not None and not others,
                   'the limit `%s` the validators enforce is taken from the CONNACK field `%s` (found %s)' % (f_, src_, (val or '?')[:80]), 'limit-source|' + f_, loc=bn_.loc(), rule='R-C16-1')
    # ---- added after the mutation sweep: the reviewed rejection conditions of every outbound validator
    from . import shared as _sh2
    _nv = _sh2.validator_table(ctx, lambda p: 'inbound' not in p, 'R-C16-3', 'an operation is rejected exactly for a listed violation')
    if ctx.config == 'all':
        ctx.floor(_nv, 19, 'outbound validators with a reviewed rejection table')
