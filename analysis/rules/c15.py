"""C15 — offline-queue policy decides per operation kind what survives being offline."""
import re
from itertools import product
from ..mir import show, short, norm, subexprs, var_inits
from .. import prims, fdeval
from ..fdeval import V_enum
from ..prims import requires, guard_strs, guarded_any, must_pass

EXPLANATION = ('Exhaustive finite-domain evaluation of the policy helper over every (policy, packet kind, QoS) cell against the documented '
               'table; the set of sites where the policy is applied (submission unless Connected, current operation at close unless in '
               'flight, write-completion list, user queue after unacked subscribes were merged, resubmit queue on session loss) with '
               'the rejected half always failed with the offline-policy error; no other site may fail an operation with that error; '
               'in-flight QoS 1/2 publishes bypass the policy at close. Added in round 3: every processed close passes both policy partitions; PUBREL retention does not consult the policy. Added after the mutation sweeps: the offline-queue-policy setter stores its argument.')
ASSUMPTIONS = ['not decided: the two converses over all histories ("never failed for lack of a connection" / "never sent later")']
P = 'src/protocol.rs'
PS = 'protocol::ProtocolState'
POL = 'client::config::OfflineQueuePolicy'
MP = 'mqtt::MqttPacket'
Q = 'mqtt::QualityOfService'
DOC = {   # from the OfflineQueuePolicy documentation
    'PreserveAll': {'Subscribe', 'Unsubscribe', 'Publish0', 'Publish1', 'Publish2'},
    'PreserveAcknowledged': {'Subscribe', 'Unsubscribe', 'Publish1', 'Publish2'},
    'PreserveQos1PlusPublishes': {'Publish1', 'Publish2'},
    'PreserveNothing': set(),
}


def run(ctx):
    F = ctx.F
    ctx.rule('R-C15-1', 'T11 exhaustive decision table', 'does_packet_pass_offline_queue_policy equals the documented policy table for every policy x packet kind x QoS')
    pol = ctx.fn('protocol::does_packet_pass_offline_queue_policy')
    ev = fdeval.Evaluator(F)
    pols = [v['name'] for v in F.adt(POL)['variants']]
    kinds = [v['name'] for v in F.adt(MP)['variants']]
    ctx.ob(set(pols) == set(DOC), 'the policy enum has exactly the documented variants (%s)' % pols, 'policy-variants')
    n = 0
    rows = []
    for p in pols:
        for k in kinds:
            qs = ['AtMostOnce', 'AtLeastOnce', 'ExactlyOnce'] if k == 'Publish' else [None]
            for q in qs:
                pay = {'0': ('struct', 'mqtt::PublishPacket', {'qos': V_enum(Q, q)})} if q else {'0': None}
                outs = sorted(set(ev.vstr(x.ret) for x in ev.run(pol, {'packet': V_enum(MP, k, pay), 'policy': V_enum(POL, p)})))
                n += 1
                label = k + ({'AtMostOnce': '0', 'AtLeastOnce': '1', 'ExactlyOnce': '2'}[q] if q else '')
                want = 'True' if label in DOC.get(p, set()) else 'False'
                rows.append((p, label, outs))
                ctx.ob(outs == [want], 'policy %s, %s -> %s (documented: %s)' % (p, label, outs, want), 'cell|%s|%s' % (p, label), loc=pol.loc())
    ctx.table('offline policy decision table', rows[:40])
    ctx.floor(n, 68, 'cells of the policy table')

    # ------------------------------------------------------------ R-C15-2
    ctx.rule('R-C15-2', 'T1 + T2 + T3', 'application sites: at submission unless Connected; at close to the current operation (unless it is in flight), the write-completion list, the user queue after merging unacked subscribes; on session loss to the resubmit queue')
    hue = ctx.fn('ProtocolState::handle_user_event')
    f = hue.calls('ProtocolState::complete_operation_as_failure')
    ctx.ob(len(f) == 1 and guarded_any(hue, f[0].bb, [r'^!ProtocolState::operation_packet_passes_offline_queue_policy\(self, .*\.packet\)$']) and show(f[0].arg(2)) == 'GneissError::new_offline_queue_policy_failed()',
           'submission: an operation failing the policy wrapper is failed with the offline-policy error', 'site|submit', loc=hue.loc())
    rej = prims.edge_nodes_matching(hue, [r'^!ProtocolState::operation_packet_passes_offline_queue_policy\(self, .*\.packet\)$'])
    enq = [c.bb for c in hue.calls('ProtocolState::enqueue_operation')]
    ctx.ob(bool(rej) and all(f and f[0].bb in hue.reach([en]) and not any(b in hue.reach([en]) for b in enq) for en in rej), 'completeness: an operation the policy rejects at submission is always failed and never queued', 'site|submit-complete', loc=hue.loc())
    wr = ctx.fn('ProtocolState::operation_packet_passes_offline_queue_policy')
    rr = prims.ret_variants(wr)
    ok = len(rr) == 2 and all((show(e) == 'True' and guarded_any(wr, b, [r'^\(self\.state == ProtocolStateType::Connected\{\}\)$'])) or
                              show(e) == 'protocol::does_packet_pass_offline_queue_policy(packet, self.config.offline_queue_policy)' for b, e in rr)
    ctx.ob(ok, 'the wrapper bypasses the policy only while Connected and otherwise applies the configured policy', 'site|wrapper', loc=wr.loc())
    cc = ctx.fn('ProtocolState::apply_connection_closed_to_current_operation')
    POLC = r'^(!?)protocol::does_packet_pass_offline_queue_policy\(.*\.packet, self\.config\.offline_queue_policy\)$'
    nq = 0
    for m in prims.mutations(cc):
        if m.kind == 'mutcall' and prims.self_field(m.path) == 'user_operation_queue' and m.method == 'push_front':
            nq += 1
            ctx.ob(guarded_any(cc, m.bb, [r'^protocol::does_packet_pass_offline_queue_policy\(.*\.packet, self\.config\.offline_queue_policy\)$']), 'close: the interrupted current operation returns to the user queue only if the policy keeps it', 'site|current|keep', loc=m.loc())
    fails = cc.calls('ProtocolState::complete_operation_as_failure')
    npf = 0
    for c in fails:
        if show(c.arg(2)) == 'GneissError::new_offline_queue_policy_failed()':
            npf += 1
            ctx.ob(guarded_any(cc, c.bb, [r'^!protocol::does_packet_pass_offline_queue_policy\(.*\.packet, self\.config\.offline_queue_policy\)$']), 'close: the current operation is failed with the policy error only when the policy rejects it', 'site|current|reject', loc=c.loc())
    ctx.floor(nq, 2, 'current-operation keep sites')
    ctx.floor(npf, 2, 'current-operation reject sites')
    closed = ctx.fn('ProtocolState::handle_network_event_connection_closed')
    parts = [c for c in closed.calls('ProtocolState::partition_operation_queue_by_queue_policy')]
    srcs = sorted(show(c.arg(1)) for c in parts)
    ctx.ob(srcs == ['completions\'2', 'user_move'] or (len(parts) == 2 and any('user' in s for s in srcs)), 'close: the write-completion list and the user queue are partitioned by the policy (%s)' % srcs, 'site|closed|partitions', loc=closed.loc())
    for c in parts:
        ctx.ob(show(c.arg(2)) == 'self.config.offline_queue_policy', 'partition uses the configured policy', 'site|closed|policy-arg|' + show(c.arg(1)), loc=c.loc())
    # ordering: the user-queue partition comes after unacked subscribes/unsubscribes were merged into the user queue
    upart = [c for c in parts if 'user' in show(c.arg(1))]
    merge = [c for c in closed.calls('Iterator::for_each', 'for_each') if 'unacked_sub_unsub_table' in show(c.arg(0))]
    ctx.ob(len(upart) == 1 and len(merge) == 1 and closed.dominates(merge[0].bb, upart[0].bb), 'close: unacked subscribes/unsubscribes are merged into the user queue before the policy is applied to it', 'site|closed|order', loc=closed.loc())
    pf = ctx.fn('protocol::partition_operations_by_queue_policy')
    cl = [c for _, c in F.callees_of(pf) if c.f.get('parent')]
    okp = False
    for c in cl:
        pushes = {m.method + ':' + show(m.path): guard_strs(c, m.bb) for m in prims.mutations(c) if m.kind == 'mutcall' and m.method == 'push_back'}
        if any('retained' in k and any(g.startswith('protocol::does_packet_pass_offline_queue_policy(') for g in gs) for k, gs in pushes.items()) and \
                any('filtered' in k and any(g.startswith('!protocol::does_packet_pass_offline_queue_policy(') for g in gs) for k, gs in pushes.items()):
            okp = True
    ctx.ob(okp, 'the partition helper keeps exactly the entries the policy helper accepts', 'site|partition-helper', loc=pf.loc())
    sess = ctx.fn('ProtocolState::apply_session_present_to_connection')
    sp = sess.calls('ProtocolState::partition_operation_queue_by_queue_policy')
    ctx.ob(len(sp) == 1 and guarded_any(sess, sp[0].bb, [r'^!session_present$']) and show(sp[0].arg(1)) == 'resubmit', 'session loss: the resubmit queue meets the policy', 'site|session', loc=sess.loc())

    # ------------------------------------------------------------ R-C15-3
    ctx.rule('R-C15-3', 'T1 who-may-call', 'the offline-policy error is created only at the policy application sites (nothing else fails an operation "for being offline")')
    sites = []
    for v in F.all_fns():
        if v.f['crate'] != 'gneiss_mqtt':
            continue
        for c in v.calls('GneissError::new_offline_queue_policy_failed'):
            sites.append((short(v.path), c))
    allowed = {'ProtocolState::handle_user_event', 'ProtocolState::apply_connection_closed_to_current_operation', 'protocol::generate_offline_queue_policy_failed_error'}
    for fn_, c in sites:
        ctx.ob(fn_ in allowed, 'offline-policy error created in %s' % fn_, 'errsite|' + fn_, loc=c.loc())
    ctx.floor(len(sites), 4, 'offline-policy error constructor sites')
    gen_users = []
    for v in F.fns_in(P):
        for c in v.calls('ProtocolState::complete_operation_sequence_as_failure'):
            if 'generate_offline_queue_policy_failed_error' in show(c.arg(2)):
                gen_users.append((v, c))
    for v, c in gen_users:
        ok = re.search(r'partition_operation_queue_by_queue_policy\(.*\)\)\.1', show(c.arg(1))) is not None
        ctx.ob(ok, 'the policy error generator is used only for the rejected half of a policy partition (in %s)' % short(v.path), 'gen-user|%s|%s' % (short(v.path), show(c.arg(1))[-30:]), loc=c.loc())
    ctx.floor(len(gen_users), 3, 'uses of the policy error generator')

    # ------------------------------------------------------------ R-C15-4
    ctx.rule('R-C15-4', 'T2', 'the mandated exception: unacked QoS 1/2 publishes are re-queued at close without consulting the policy; an in-flight current publish (DUP set / PUBREL phase) is retained without the policy')
    drain = [c for _, c in F.callees_of(closed) if c.f.get('parent') and any(prims.self_field(m.path) == 'resubmit_operation_queue' for m in prims.mutations(c))]
    ctx.ob(len(drain) == 1 and not any('does_packet_pass_offline_queue_policy' in c.nfn for c in drain[0].calls()) and not any(guard_strs(drain[0], m.bb) for m in prims.mutations(drain[0])),
           'the unacked-publish drain re-queues every entry unconditionally', 'exception|drain', loc=closed.loc())
    for m in prims.mutations(cc):
        if m.kind == 'mutcall' and prims.self_field(m.path) in ('resubmit_operation_queue', 'high_priority_operation_queue') and m.method == 'push_front':
            ctx.ob(not any('does_packet_pass_offline_queue_policy' in g for g in guard_strs(cc, m.bb)), 'an in-flight current publish is retained (%s) without a policy test' % prims.self_field(m.path), 'exception|current|' + prims.self_field(m.path), loc=m.loc())
    # ---- added after seed C15-3a: the close-time policy pass is unconditional
    cl_ = ctx.fn('ProtocolState::handle_network_event_connection_closed')
    cs_ = cl_.calls('ProtocolState::change_state')
    parts_ = [c for c in cl_.calls() if c.nfn.endswith('partition_operation_queue_by_queue_policy')]
    fails_ = cl_.calls('ProtocolState::complete_operation_sequence_as_failure')
    polfail = [c for c in fails_ if 'generate_offline_queue_policy_failed_error' in show(c.arg(2))]
    ok = len(cs_) >= 1 and len(parts_) == 2 and len(polfail) == 2
    if ok:
        start = cs_[0].bb
        errb_ = prims.err_blocks(cl_)      # `?` exits (an internal error while handling the current operation) are not accepting exits
        _, pred_, _ = cl_.graph()
        normal_exits = [x for x in cl_.exits() if not (set(pred_.get(x, [])) & errb_) and x not in errb_]
        finals = [b for b, e in prims.ret_variants(cl_) if b not in errb_]
        for c in parts_ + polfail:
            seen_ = cl_.reach(list(cl_.graph()[0][start]), avoid=[c.bb] + list(errb_))
            ok = ok and not any(x in seen_ for x in finals)
    ctx.ob(ok, 'every connection close that is processed (whatever state the engine was in: Connected, PendingConnack, PendingDisconnect or Halted) applies the offline policy to the write-completion list and to the user queue and fails what it rejects - no early exit skips it', 'site|closed|unconditional', loc=cl_.loc(), rule='R-C15-2')
    sr_ = ctx.fn('ProtocolState::should_retain_high_priority_operation')
    flds_ = prims.self_fields_read(F, sr_, 0)
    ctx.ob('config' not in flds_ and not [c for c in sr_.calls() if 'offline_queue_policy' in c.nfn], 'the mandated exception: a queued PUBREL is retained at close whatever the offline policy says (its publish is in flight) (fields read: %s)' % sorted(flds_), 'exception|pubrel-no-policy', loc=sr_.loc(), rule='R-C15-4')
    # ---- added after the mutation sweep: the configured values this property starts from reach the options (builder setters)
    from . import shared as _sh
    _ns = _sh.builder_setters(ctx, lambda b, m: b == 'MqttClientOptionsBuilder' and m == 'with_offline_queue_policy', 'R-C15-1', 'the configured offline-queue policy is the one in force')
    if ctx.config == 'all':
        ctx.floor(_ns, 1, 'builder setters this property depends on')
    # ---- added after seed C15-4b: a retained operation leaves its queue only to be sent (shared with C01 / C10)
    from . import shared as _sh3
    _n3 = _sh3.import_obligations(ctx, 'C01', lambda o: '|popped-is-returned|' in o['key'] or o['key'].startswith('popped-is-returned|'), 'R-C15-4', 'an operation the policy preserved must still be in a queue until it is handed to the encoder')
    _n4 = _sh3.import_obligations(ctx, 'C10', lambda o: o['key'].endswith('no-bypass') or '|pop-front|' in o['key'], 'R-C15-4', 'retained operations are consumed only from the front and only when they can be sent')
    if ctx.config == 'all':
        ctx.floor(_n3 + _n4, 5, 'queue-consumption obligations shared with C01 and C10')
