"""C09 — receive-maximum and post-reconnect slow-start flow control are never exceeded."""
import re
from ..mir import show, short, norm, subexprs
from .. import prims
from ..prims import requires, guard_strs, guarded_any, must_pass

EXPLANATION = ('Structural necessary conditions of outbound flow control: both non-priority dequeue sites are dominated by the '
               'receive-maximum test on that queue\'s own head and by the slow-start gate; the predicate compares the unacked-publish '
               'table size with the negotiated receive maximum; that table only grows after a full write and only shrinks at completion '
               '/ close; slow-start values are assigned before the ack tables are drained, summed at CONNACK before session handling, '
               'and decremented in both completion points. Added in round 3 / after defect 16: marks persist until their operation completes, are set exactly under the one-at-a-time policy, and the drain-policy setter stores its argument.')
ASSUMPTIONS = ['not decided: the bound at every instant of every history (only the gate/accounting sites)']
P = 'src/protocol.rs'
PS = 'protocol::ProtocolState'


def run(ctx):
    F = ctx.F
    dq = ctx.fn('ProtocolState::dequeue_operation')
    ctx.rule('R-C09-1', 'T2 must-dominate', 'an operation is taken from the resubmit / user queue only if that queue\'s head passes the receive-maximum test and the slow-start gate is open')
    n = 0
    for m in prims.mutations(dq):
        f = prims.self_field(m.path)
        if m.kind == 'mutcall' and m.method == 'pop_front' and f in ('resubmit_operation_queue', 'user_operation_queue'):
            n += 1
            requires(ctx, dq, m.bb, [r'^ProtocolState::does_operation_pass_receive_maximum_flow_control\(self, Option::unwrap\(VecDeque::front\(self\.%s\)\)\)$' % f,
                                     [r'^!ProtocolState::should_external_operations_be_slow_start_throttled\(self\)$', r'^!ProtocolState::has_pending_ack\(self\)$']],
                     'gate|' + f, 'dequeuing from ' + f, loc=m.loc())
    ctx.floor(n, 2, 'gated dequeue sites')
    ctx.rule('R-C09-2', 'T4 predicate', 'the flow-control predicate is |unacked publishes| >= receive_maximum_from_server AND head is a Publish AND QoS != 0; slow-start gate = drain policy OneAtATime AND Connected AND interrupted count != 0; has_pending_ack covers both ack tables')
    fc = ctx.fn('ProtocolState::does_operation_pass_receive_maximum_flow_control')
    falses = [b for b, e in prims.ret_variants(fc) if show(e) == 'False']
    trues = [b for b, e in prims.ret_variants(fc) if show(e) == 'True']
    ctx.ob(len(falses) == 1 and len(trues) >= 1, 'helper has one blocking outcome', 'pred|shape', loc=fc.loc())
    for b in falses:
        requires(ctx, fc, b, [r'^\((settings|self\.current_settings@Some\.0)\.receive_maximum_from_server as usize <= HashMap::len\(self\.pending_publish_operations\)\)$',
                              r'^HashMap::get\(self\.operations, id\) is Some$', r'\.packet is Publish$', r'^!\(.*\.qos == QualityOfService::AtMostOnce\{\}\)$'], 'pred|recvmax', 'blocking the head operation', loc=fc.loc(b))
    RMX = r'^\((settings|self\.current_settings@Some\.0)\.receive_maximum_from_server as usize <= HashMap::len\(self\.pending_publish_operations\)\)$'
    ra = prims.rets_after(fc, [RMX, r'\.packet is Publish$', r'^!\(.*\.qos == QualityOfService::AtMostOnce\{\}\)$'])
    ctx.ob(ra == {'False'}, 'completeness: at the receive maximum a QoS>0 publish at the head is always blocked (outcomes after the three tests: %s)' % sorted(ra or []), 'pred|recvmax-complete', loc=fc.loc())
    th = ctx.fn('ProtocolState::should_external_operations_be_slow_start_throttled')
    tr = [b for b, e in prims.ret_variants(th) if show(e) == 'True']
    for b in tr:
        requires(ctx, th, b, [r'^!\(self\.config\.post_reconnect_queue_drain_policy != PostReconnectQueueDrainPolicy::OneAtATime\{\}\)$|^\(self\.config\.post_reconnect_queue_drain_policy == PostReconnectQueueDrainPolicy::OneAtATime\{\}\)$',
                              r'^\(self\.state == ProtocolStateType::Connected\{\}\)$', r'^!\(self\.slow_start_ack_count == 0\)$'], 'pred|slowstart', 'throttling', loc=th.loc(b))
    ctx.floor(len(tr), 1, 'throttle-true outcomes')
    rt = prims.rets_after(th, [r'^!\(self\.config\.post_reconnect_queue_drain_policy != PostReconnectQueueDrainPolicy::OneAtATime\{\}\)$|^\(self\.config\.post_reconnect_queue_drain_policy == PostReconnectQueueDrainPolicy::OneAtATime\{\}\)$',
                                r'^\(self\.state == ProtocolStateType::Connected\{\}\)$', r'^!\(self\.slow_start_ack_count == 0\)$'])
    ctx.ob(rt == {'True'}, 'completeness: OneAtATime + Connected + interrupted count != 0 always throttles (%s)' % sorted(rt or []), 'pred|slowstart-complete', loc=th.loc())
    hp = ctx.fn('ProtocolState::has_pending_ack')
    flds = prims.self_fields_read(F, hp, 0)
    ctx.ob(flds == {'pending_publish_operations', 'pending_non_publish_operations'}, 'has_pending_ack looks at both ack tables (%s)' % sorted(flds), 'pred|pendingack', loc=hp.loc())
    ctx.rule('R-C09-3', 'T1 who-may-write', 'the unacked-publish table grows only in the fully-written hook and shrinks only at completion, at close (drain) and reset')
    rows = []
    for f, m in prims.field_mutations(F, PS, P):
        if f != 'pending_publish_operations' or m.kind == 'access':
            continue
        fn_ = short(m.view.path)
        rows.append((m.method, fn_))
        if m.method == 'insert':
            ok = fn_ == 'ProtocolState::on_current_operation_fully_written'
        elif m.method == 'remove':
            ok = any(prims.self_field(x.path) == 'operations' and x.method == 'remove' for x in prims.mutations(m.view))
        elif m.method == 'swap':
            ok = fn_ == 'ProtocolState::handle_network_event_connection_closed'
        elif m.method == 'clear':
            ok = any(prims.self_field(x.path) == 'operations' and x.method == 'clear' for x in prims.mutations(m.view))
        else:
            ok = False
        ctx.ob(ok, 'unacked-publish table %s in %s' % (m.method, fn_), 'acct|%s|%s' % (m.method, fn_), loc=m.loc())
    ctx.floor(len(rows), 5, 'writers of the unacked-publish table')
    ctx.rule('R-C09-4', 'T3 ordering', 'slow-start bookkeeping: per-operation values assigned at close before the ack tables are drained; summed at CONNACK before session handling; decremented in both completion points only while Connected')
    cl = ctx.fn('ProtocolState::handle_network_event_connection_closed')
    init = cl.calls('ProtocolState::apply_slow_start_initialization')
    swaps = [c for c in cl.calls('mem::swap') if re.search(r'pending_(non_)?publish_operations', show(c.arg(0)) + show(c.arg(1)))]
    ctx.ob(len(init) == 1 and len(swaps) == 2 and all(cl.dominates(init[0].bb, s.bb) for s in swaps), 'slow-start values are assigned before both ack tables are drained', 'ss|assign-before-drain', loc=cl.loc())
    si = ctx.fn('ProtocolState::apply_slow_start_initialization')
    ones = [m for m in prims.mutations(si) if m.kind == 'assign' and show(m.path).endswith('.slow_start_ack_value')]
    vals = sorted(show(m.rv) for m in ones)
    ctx.ob(vals == ['1', '1'], 'members of both ack tables get the value 1; a mark is never cleared while its operation exists (an operation interrupted earlier and still unresolved - e.g. after a connection attempt that failed before CONNACK - stays counted: defect 16) (%s)' % vals, 'ss|values', loc=si.loc())
    gl = [[g for g in prims.guard_strs_plain(si, m.bb) if not g.startswith('Iterator::next(')] for m in ones]
    ctx.ob(bool(gl) and all(g == ['(self.config.post_reconnect_queue_drain_policy == PostReconnectQueueDrainPolicy::OneAtATime{})'] for g in gl),
           'the marks are set exactly when the one-at-a-time policy is configured (no other condition, not the opposite one) (%s)' % gl, 'ss|mark-condition', loc=si.loc())
    zw = []
    for v_ in F.fns_in(P):
        for m_ in prims.mutations(v_):
            if m_.kind == 'assign' and show(m_.path).endswith('.slow_start_ack_value') and show(m_.rv) != '1':
                zw.append('%s := %s in %s' % (show(m_.path), show(m_.rv), short(v_.path)))
    ctx.ob(not zw, 'no engine code resets the slow-start mark of an existing operation (%s)' % zw, 'ss|marks-persist', loc=si.loc())
    srcs = set()
    for c in si.calls('Iterator::collect', 'collect'):
        srcs.add(show(c.arg(0)))
    ctx.ob(any('HashMap::values(self.pending_non_publish_operations)' in s for s in srcs) and any('HashMap::values(self.pending_publish_operations)' in s for s in srcs), 'the marked operations are the members of both ack tables', 'ss|sources', loc=si.loc())
    hc = ctx.fn('ProtocolState::handle_connack')
    a = hc.calls('ProtocolState::initialize_slow_start')
    b = hc.calls('ProtocolState::apply_session_present_to_connection')
    ctx.ob(len(a) == 1 and len(b) == 1 and hc.dominates(a[0].bb, b[0].bb), 'the interrupted count is summed before session handling fails/moves operations', 'ss|sum-before-session', loc=hc.loc())
    isl = ctx.fn('ProtocolState::initialize_slow_start')
    w = [(i, s, pe, rve) for (i, s, pe, rve) in isl.field_writes() if show(pe) == 'self.slow_start_ack_count']
    ctx.ob(len(w) == 1 and 'slow_start_ack_count' in show(w[0][3]), 'the count is the sum of the per-operation values', 'ss|sum', loc=isl.loc())
    cps = [m.view for f, m in prims.field_mutations(F, PS, P) if f == 'operations' and m.method == 'remove']
    for v in cps:
        ac = v.calls('ProtocolState::apply_ackable_completion')
        rem = [m for m in prims.mutations(v) if prims.self_field(m.path) == 'operations' and m.method == 'remove']
        ok = len(ac) == 1
        if ok:
            isn = prims.edge_nodes_matching(v, [r'^HashMap::remove\(self\.operations, id\) is None$'])
            ok, _ = must_pass(v, rem[0].bb, [ac[0].bb] + isn)
        ctx.ob(ok, '%s applies the slow-start decrement for every removed operation' % short(v.path), 'ss|decrement|' + short(v.path), loc=v.loc())
    aa = ctx.fn('ProtocolState::apply_ackable_completion')
    dec = [(i, s, pe, rve) for (i, s, pe, rve) in aa.field_writes() if show(pe) == 'self.slow_start_ack_count']
    ctx.ob(len(dec) == 1 and 'SubWithOverflow operation.slow_start_ack_value' in show(dec[0][3]) and guarded_any(aa, dec[0][0], [r'^\(operation\.slow_start_ack_value <= self\.slow_start_ack_count\)$']),
           'the decrement subtracts the operation\'s own value and cannot underflow', 'ss|decrement-guard', loc=aa.loc())

    # ---- added after the mutation sweep
    d0 = dec[0][0] if dec else None
    ctx.ob(d0 is not None and guarded_any(aa, d0, [r'^!\(self\.config\.post_reconnect_queue_drain_policy != PostReconnectQueueDrainPolicy::OneAtATime\{\}\)$', r'^\(self\.config\.post_reconnect_queue_drain_policy == PostReconnectQueueDrainPolicy::OneAtATime\{\}\)$'])
           and guarded_any(aa, d0, [r'^\(self\.state == ProtocolStateType::Connected\{\}\)$']) and guarded_any(aa, d0, [r'^!\(operation\.slow_start_ack_value == 0\)$', r'^\(0 < operation\.slow_start_ack_value\)$']),
           'the interrupted count is decremented only under the one-at-a-time policy, while Connected, for an operation that was counted (value != 0)', 'ss|decrement-conditions', loc=aa.loc())
    for pats, what in (([r'^\(self\.config\.post_reconnect_queue_drain_policy == PostReconnectQueueDrainPolicy::OneAtATime\{\}\)$', r'^\(self\.state == ProtocolStateType::Connected\{\}\)$', r'^!\(operation\.slow_start_ack_value == 0\)$'], 'dec'),):
        es = None
        for pt in pats:
            c_ = prims.edge_nodes_matching(aa, [pt])
            es = c_ if es is None else [e for e in c_ if any(aa.dominates(p_, e) for p_ in es)]
        ctx.ob(bool(es) and d0 is not None and all(d0 in aa.reach([e]) for e in es), 'completeness: under those three conditions the decrement (or the invariant panic) is always reached', 'ss|decrement-complete', loc=aa.loc())
    ra_ = prims.rets_after(hp, [r'^!HashMap::is_empty\(self\.pending_publish_operations\)$'])
    rb_ = prims.rets_after(hp, [r'^HashMap::is_empty\(self\.pending_publish_operations\)$'])
    okp = ra_ == {'True'} and rb_ == {'Not(HashMap::is_empty(self.pending_non_publish_operations))'}
    if not okp and rb_ is not None:
        # spelled with an explicit second test
        okp = ra_ == {'True'} and prims.rets_after(hp, [r'^HashMap::is_empty\(self\.pending_publish_operations\)$', r'^!HashMap::is_empty\(self\.pending_non_publish_operations\)$']) == {'True'} and \
            prims.rets_after(hp, [r'^HashMap::is_empty\(self\.pending_publish_operations\)$', r'^HashMap::is_empty\(self\.pending_non_publish_operations\)$']) == {'False'}
    ctx.ob(okp, 'has_pending_ack is true exactly when either ack table is non-empty (unacked publishes non-empty -> %s; else -> %s)' % (sorted(ra_ or []), sorted(rb_ or [])), 'pred|pendingack-table', loc=hp.loc())
    # ---- added after the mutation sweep: the configured values this property starts from reach the options (builder setters)
    from . import shared as _sh
    _ns = _sh.builder_setters(ctx, lambda b, m: b == 'MqttClientOptionsBuilder' and m == 'with_post_reconnect_queue_drain_policy', 'R-C09-4', 'the configured drain policy is the one in force')
    if ctx.config == 'all':
        ctx.floor(_ns, 1, 'builder setters this property depends on')
    # ---- added after seed C09-4a: the window in force is the Receive Maximum of this connection's CONNACK (shared with C07)
    from . import shared as _sh3
    _n3 = _sh3.import_obligations(ctx, 'C07', lambda o: o['key'].endswith('ns|receive_maximum_from_server'), 'R-C09-1', 'the flow-control comparison reads current_settings.receive_maximum_from_server; that value must be the CONNACK\'s of this connection (65535 if absent), never a value kept from an earlier connection')
    if ctx.config == 'all':
        ctx.floor(_n3, 1, 'negotiated receive maximum obligation shared with C07')
