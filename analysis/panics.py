"""T7 panic-site inventory: enumerate panic-capable constructs of a body and discharge them
by local guard idioms.  What cannot be discharged automatically must be listed in a reviewed
table (keyed by function + construct, never by line) or it is a violation."""
import re

from .mir import show, short, norm, subexprs, fold, var_inits, is_log_mac
from . import prims


class Site:
    __slots__ = ('view', 'bb', 'kind', 'what', 'ln', 'cs', 'term', 'mac')

    def __init__(self, view, bb, kind, what, ln, cs=None, term=None, mac=''):
        self.view = view
        self.bb = bb
        self.kind = kind
        self.what = what
        self.ln = ln
        self.cs = cs
        self.term = term
        self.mac = mac

    def key(self):
        return '%s|%s|%s' % (short(self.view.path), self.kind, self.what)

    def loc(self):
        return self.view.loc(ln=self.ln)


PANIC_FNS = ('core::panicking::panic', 'core::panicking::panic_fmt', 'core::panicking::assert_failed',
             'core::panicking::panic_explicit', 'std::rt::begin_panic', 'core::panicking::unreachable_display',
             'core::panicking::panic_display', 'core::panicking::panic_nounwind', 'core::option::expect_failed',
             'core::result::unwrap_failed', 'core::panicking::panic_bounds_check')
TIME_ARITH = re.compile(r'^<std::time::(Instant|Duration|SystemTime) as std::ops::(Add|Sub|Mul|AddAssign|SubAssign|MulAssign|Div)<.*>>::\w+$')


def panic_sites(view, include_overflow=False):
    out = []
    for i in view.live_blocks():
        t = view.blocks[i]['term']
        if t['k'] == 'assert':
            m = t['msg']
            if m == 'BoundsCheck':
                idx = view.operand_expr(t['index'], i)
                ln_ = view.operand_expr(t['len'], i)
                out.append(Site(view, i, 'bounds', '%s[%s]' % (_base(ln_), show(idx)), t['ln'], term=t, mac=t.get('mac', '')))
            elif m in ('DivisionByZero', 'RemainderByZero'):
                out.append(Site(view, i, 'div', '%s by %s' % (m, show(view.operand_expr(t['a'], i))), t['ln'], term=t))
            elif m in ('Overflow', 'OverflowNeg') and include_overflow:
                out.append(Site(view, i, 'overflow', t.get('binop', 'neg'), t['ln'], term=t))
    for cs in view.calls(skip_log=True):
        nf = cs.nfn
        raw = cs.fn
        meth = nf.split('::')[-1]
        if nf in PANIC_FNS or nf.startswith('core::panicking::') or nf.startswith('std::rt::begin_panic'):
            msg = ''
            for a in range(len(cs.args)):
                for x in subexprs(cs.arg(a)):
                    if x[0] == 'const' and isinstance(x[1], dict) and 'str' in x[1]:
                        msg = x[1]['str']
            kind = 'assert' if ('assert' in cs.mac and 'debug_assert' not in cs.mac) else 'panic'
            out.append(Site(view, cs.bb, kind, msg[:70] or short(nf), cs.ln, cs=cs, mac=cs.mac))
        elif nf in ('std::option::Option::unwrap', 'std::option::Option::expect', 'std::result::Result::unwrap',
                    'std::result::Result::expect', 'std::result::Result::unwrap_err', 'std::result::Result::expect_err'):
            out.append(Site(view, cs.bb, 'unwrap', '%s(%s)' % (short(nf), show(cs.arg(0))), cs.ln, cs=cs, mac=cs.mac))
        elif re.search(r' as std::ops::Index(Mut)?<.*>>::index(_mut)?$', raw) or re.search(r'Index(Mut)?<.*>::index(_mut)?$', raw):
            out.append(Site(view, cs.bb, 'index', '%s[%s]' % (show(cs.arg(0)), show(cs.arg(1))), cs.ln, cs=cs, mac=cs.mac))
        elif nf.endswith('RefCell::borrow_mut') or nf.endswith('RefCell::borrow'):
            out.append(Site(view, cs.bb, 'refcell', '%s(%s)' % (short(nf), show(cs.arg(0))), cs.ln, cs=cs))
        elif TIME_ARITH.match(raw.replace("'_", '_')) or TIME_ARITH.match(_strip_gen(raw)):
            out.append(Site(view, cs.bb, 'time-arith', '%s(%s)' % (_qshort(raw), ', '.join(show(cs.arg(k)) for k in range(len(cs.args)))), cs.ln, cs=cs))
        elif meth in ('gen_range', 'random_range'):
            out.append(Site(view, cs.bb, 'rng', '%s(%s)' % (meth, ', '.join(show(cs.arg(k)) for k in range(1, len(cs.args)))), cs.ln, cs=cs))
        elif meth == 'split_at' or meth == 'copy_from_slice' or meth == 'swap_remove' or nf.endswith('Vec::remove') or nf.endswith('Vec::insert') \
                or nf.endswith('VecDeque::rotate_right') or nf.endswith('VecDeque::rotate_left') or nf.endswith('Duration::from_secs_f64') \
                or nf.endswith('Duration::from_secs_f32') or nf.endswith('Duration::mul_f64') or nf.endswith('Duration::mul_f32') \
                or nf.endswith('NonZero::new_unchecked') or meth == 'unwrap_unchecked':
            out.append(Site(view, cs.bb, 'lib-precondition', '%s(%s)' % (short(nf), ', '.join(show(cs.arg(k)) for k in range(len(cs.args)))), cs.ln, cs=cs))
    return out


def _strip_gen(p):
    return p


def _qshort(raw):
    m = re.match(r'^<(.*) as std::ops::(\w+)<(.*)>>::(\w+)$', raw)
    if m:
        return '%s %s %s' % (m.group(1).split('::')[-1], m.group(2), m.group(3).split('::')[-1])
    return short(raw)


def _base(len_e):
    """The slice/array whose length operand this is."""
    if len_e[0] == 'un' and len_e[1] == 'PtrMetadata':
        return show(len_e[2])
    if len_e[0] == 'call' and len_e[1].endswith('::len'):
        return show(len_e[2][0])
    return show(len_e)


LEN = r'(?:slice::len|Vec::len|str::len|String::len|VecDeque::len|<\[T\]>::len)'


def _len_guards(x):
    """regexes (with one capture group for a constant where relevant) proving len(x) facts."""
    ex = re.escape(x)
    return ex


def _mut_redefined_between(view, cut_edges, site_bb, expr_txt):
    """A `mut` user variable mentioned in the guard is re-assigned on some path between the
    guard edge and the site (then the guard says nothing about the value used)."""
    names = set(re.findall(r"[A-Za-z_][\w']*", expr_txt))
    muts = [nm for l, nm in view.varnames.items() if nm in names and view.locals[l].get('mut')]
    if not muts:
        return False
    assign_blocks = set()
    for nm in muts:
        for bb, _ in var_inits(view, nm):
            assign_blocks.add(bb)
        # also &mut escapes (helper(&mut var)) re-define the variable
    succ, _, _ = view.graph()
    starts = []
    for a in assign_blocks:
        starts.extend(succ[a])
    if not starts:
        return False
    seen = view.reach(starts, avoid=cut_edges)
    return site_bb in seen


def _guarded(view, bb, pats, about):
    cut = prims.edge_nodes_matching(view, pats)
    if not cut:
        return False
    seen = view.reach([0], avoid=cut)
    if bb in seen:
        return False
    return not _mut_redefined_between(view, cut, bb, about)


def _const_ge(view, bb, x, need):
    """Some dominating guard proves len(x) >= need (need is an int)."""
    ex = re.escape(x)
    pats = []
    if need <= 1:
        pats += [r'^!\w*(?:::)?\w*::is_empty\(' + ex + r'\)$', r'^\(0 < ' + LEN + r'\(' + ex + r'\)\)$']
    cut = []
    _, _, edge = view.graph()
    from .mir import show_atom
    for en in edge:
        s = show_atom(view.edge_atom(en))
        ok = any(re.search(p, s) for p in pats)
        m = re.match(r'^\((\d+) <= ' + LEN + r'\(' + ex + r'\)\)$', s)
        if m and int(m.group(1)) >= need:
            ok = True
        m = re.match(r'^\((\d+) < ' + LEN + r'\(' + ex + r'\)\)$', s)
        if m and int(m.group(1)) + 1 >= need:
            ok = True
        m = re.match(r'^\(' + LEN + r'\(' + ex + r'\) == (\d+)\)$', s)
        if m and int(m.group(1)) >= need:
            ok = True
        if ok:
            cut.append(en)
    if not cut:
        return False
    if bb in view.reach([0], avoid=cut):
        return False
    return not _mut_redefined_between(view, cut, bb, x)


def discharge(site):
    """Returns a short reason string when a local idiom proves the site cannot panic."""
    v = site.view
    bb = site.bb
    k = site.kind
    if k == 'bounds':
        t = site.term
        idx = v.operand_expr(t['index'], bb)
        base = _base(v.operand_expr(t['len'], bb))
        c = fold(idx)
        if c is not None:
            if _const_ge(v, bb, base, int(c) + 1):
                return 'len(%s) > %d by a dominating length guard' % (base, c)
            ln_c = fold(v.operand_expr(t['len'], bb))
            if ln_c is not None and int(ln_c) > int(c):
                return 'constant index into fixed-size array'
        else:
            it = re.escape(show(idx))
            if _guarded(v, bb, [r'^\(' + it + r' < ' + LEN + r'\(' + re.escape(base) + r'\)\)$'], base):
                return 'index < len by a dominating guard'
        return None
    if k == 'index':
        cs = site.cs
        recv = show(cs.arg(0))
        ix = cs.arg(1)
        if ix[0] == 'agg' and ix[1].startswith('std::ops::Range'):
            d = dict(ix[3])
            need = d.get('end') if 'end' in d else d.get('start')
            if 'start' in d and 'end' in d:
                # start <= end <= len: accept when end is proven and start is a constant 0 or offset+min form
                need = d['end']
            c = fold(need)
            if c is not None:
                if int(c) == 0 or _const_ge(v, bb, recv, int(c)):
                    return 'range bound %d <= len(%s) by a dominating length guard' % (c, recv)
                return None
            nt = re.escape(show(need))
            if _guarded(v, bb, [r'^\(' + nt + r' <= ' + LEN + r'\(' + re.escape(recv) + r'\)\)$', r'^\(' + nt + r' < ' + LEN + r'\(' + re.escape(recv) + r'\)\)$'], recv):
                return 'range bound <= len by a dominating guard'
            m = re.match(r'^\(\((.+) AddWithOverflow 1\)\)\.0$', show(need))
            if m and _guarded(v, bb, [r'^\(' + re.escape(m.group(1)) + r' < ' + LEN + r'\(' + re.escape(recv) + r'\)\)$'], recv):
                return 'i + 1 <= len from i < len'
            return None
        return None
    if k == 'unwrap':
        cs = site.cs
        a = cs.arg(0)
        at = show(a)
        ea = re.escape(at)
        # fixed-size slice -> array conversion
        m = re.match(r'^TryInto::try_into\(.*index\(.*, RangeTo\{end: (\d+)\}\)\)$', at)
        if m:
            dty = v.locals[cs.dest['l']]['ty']
            if dty == '[u8; %s]' % m.group(1):
                return 'try_into of a %s-byte slice into [u8; %s]' % (m.group(1), m.group(1))
        if _guarded(v, bb, [r'^Option::is_some\(' + ea + r'\)$', r'^!Option::is_none\(' + ea + r'\)$', '^' + ea + r' is Some$',
                            r'^Result::is_ok\(' + ea + r'\)$', r'^!Result::is_err\(' + ea + r'\)$', '^' + ea + r' is Ok$'], at):
            return 'dominated by is_some/!is_none test of the same value'
        m = re.match(r'^Option::take\((.*)\)$', at)
        if m:
            ex = re.escape(m.group(1))
            if _guarded(v, bb, [r'^Option::is_some\(' + ex + r'\)$', r'^!Option::is_none\(' + ex + r'\)$', '^' + ex + r' is Some$'], m.group(1)):
                return 'take().unwrap() dominated by is_some of the same place'
        # container idioms
        m = re.match(r'^(?:VecDeque|Vec)::(?:pop_front|pop_back|pop|front|back|first|last)\((.*)\)$', at) or \
            re.match(r'^(?:VecDeque|Vec|slice)::(?:front|back|first|last)\((.*)\)$', at)
        if m:
            q = re.escape(m.group(1))
            if _guarded(v, bb, [r'^!\w+::is_empty\(' + q + r'\)$'], m.group(1)):
                return 'container is non-empty by a dominating guard'
        m = re.match(r'^HashMap::(?:get|get_mut|remove)\((.*), (.*)\)$', at)
        if m:
            if _guarded(v, bb, [r'^HashMap::contains_key\(' + re.escape(m.group(1)) + r', ' + re.escape(m.group(2)) + r'\)$'], at):
                return 'contains_key(k) dominates get(k).unwrap()'
        # a slot that is Some on every path reaching the unwrap: forward must-analysis (gen: `x = Some(..)` and the Some-edge of a test
        # of x; kill: any other write to x or `&mut x` handed to a call)
        if re.match(r'^(self|\w+)(\.\w+)+$', at) and _definitely_some(v, at, bb):
            return 'slot is Some on every path reaching the unwrap (assigned Some or tested), with no intervening write'
        # ensure-some: `if x.is_none() { x = Some(..) }` then x.as_mut().unwrap()
        m = re.match(r'^Option::(?:as_mut|as_ref)\((.*)\)$', at)
        if m:
            tgt = m.group(1)
            sets = set()
            for (i, s, pe, rve) in v.field_writes():
                if show(pe) == tgt and rve[0] == 'agg' and rve[2] == 'Some':
                    sets.add(i)
            for (i, j, s) in v.stmts():
                if s['k'] == 'assign':
                    pe = v.place_expr(s['lhs'])
                    if show(pe) == tgt:
                        rve = v.rvalue_expr(s['rv'], i)
                        if rve[0] == 'agg' and rve[2] == 'Some':
                            sets.add(i)
            cut = prims.edge_nodes_matching(v, [r'^!Option::is_none\(' + re.escape(tgt) + r'\)$', r'^Option::is_some\(' + re.escape(tgt) + r'\)$',
                                                '^' + re.escape(tgt) + r' is Some$'])
            if (sets or cut) and bb not in v.reach([0], avoid=set(cut) | sets):
                return 'value is Some on every path (tested or just assigned)'
        return None
    if k == 'div':
        t = site.term
        c = v.operand_expr(t['cond'], bb)
        if c[0] == 'bin' and c[1] == 'Eq':
            d = fold(c[2])
            if d is not None and int(d) != 0:
                return 'division by the non-zero constant %d' % d
        return None
    if k == 'time-arith':
        cs = site.cs
        if len(cs.args) == 2:
            dur = cs.arg(0) if site.what.startswith('Duration') else cs.arg(1)
            why = bounded_duration(v, dur)
            if why and (not site.what.startswith('Duration') or fold(cs.arg(1)) is not None):
                return 'duration operand is bounded: ' + why
        return None
    if k == 'rng':
        cs = site.cs
        rng = show(cs.arg(1)) if len(cs.args) > 1 else ''
        if rng.startswith('RangeInclusive'):
            m = re.match(r'^RangeInclusive::new\((.*), (.*)\)$', rng)
            if m and m.group(1) == '0':
                return 'inclusive range 0..=x is never empty for an unsigned bound'
        m = re.match(r'^Range\{start: 0, end: (.*)\}$', rng)
        if m and _guarded(v, bb, [r'^!\(' + re.escape(m.group(1)) + r' == 0\)$', r'^\(0 < ' + re.escape(m.group(1)) + r'\)$'], m.group(1)):
            return 'range is non-empty by a dominating guard'
        return None
    if k == 'panic' and ('select!' in site.mac or 'tokio::select' in site.mac or '$crate::select' in site.mac):
        return 'inside the expansion of tokio::select! (trusted library macro: unreachable unless every branch is disabled)'
    if k == 'panic':
        # variant mismatch after building the very variant locally
        for g in prims.guard_strs(v, bb):
            m = re.match(r"^AsMut::as_mut\(([\w']+)\) is ([\w|]+)$", g)
            if m:
                inits = var_inits(v, m.group(1))
                for _, e in inits:
                    mm = re.match(r'^Box::new\(MqttPacket::(\w+)\{', show(e))
                    if mm and mm.group(1) not in m.group(2).split('|') and len(inits) == 1:
                        return 'variant mismatch arm of a packet that was just built as %s' % mm.group(1)
        return None
    return None


def bounded_duration(view, e, depth=0):
    """A Duration expression that cannot be large enough to overflow `Instant + d` in practice:
    built from a <=32-bit integer number of seconds/millis, a constant, or min(_, bounded)."""
    if depth > 4:
        return None
    if e[0] == 'call':
        fn = e[1]
        if fn.endswith('Duration::from_secs') or fn.endswith('Duration::from_millis'):
            a = e[2][0]
            if fold(a) is not None:
                return 'constant'
            inner = a
            while inner[0] == 'cast':
                inner = inner[1]
            ty = _expr_int_width(view, a)
            if ty is not None and ty <= 32:
                return 'from_secs/millis of a %d-bit integer' % ty
            return None
        if short(fn) in ('Div::div',) or fn.endswith('Duration::div_f64') or fn.endswith('Duration::div_f32'):
            w = bounded_duration(view, e[2][0], depth + 1)
            if w and fold(e[2][1]) not in (None, 0):
                return '(%s) / %s' % (w, fold(e[2][1]))
            return None
        if fn.endswith('Ord::min') or fn.endswith('::min'):
            for a in e[2]:
                w = bounded_duration(view, a, depth + 1)
                if w:
                    return 'min(.., %s)' % w
        return None
    if e[0] == 'const':
        return 'constant'
    return None


def _expr_int_width(view, e):
    """Bit width of the integer an expression was widened from (through `as` casts)."""
    widths = {'u8': 8, 'u16': 16, 'u32': 32, 'i8': 8, 'i16': 16, 'i32': 32, 'u64': 64, 'usize': 64, 'u128': 128, 'i64': 64}
    best = None
    cur = e
    for _ in range(6):
        if cur[0] == 'cast':
            w = widths.get(cur[2])
            inner = cur[1]
            # width of the source of the cast: look at a deeper cast or a field type name hint
            cur = inner
            continue
        if cur[0] == 'bin' and cur[1] in ('Div', 'Shr', 'BitAnd', 'Rem'):
            cur = cur[2]
            continue
        break
    # source expression: find its declared type through the locals table when it is a place
    tys = _place_type_hint(view, cur)
    if not tys:
        return None
    ws = []
    for t in tys:
        m = re.match(r'^(?:std::option::Option<)?(\w+)>?$', t)
        if not m or m.group(1) not in widths:
            return None
        ws.append(widths[m.group(1)])
    return max(ws)


def _place_type_hint(view, e):
    """Type of a field place such as `(..).server_keep_alive` from the ADT tables."""
    if e[0] in ('var', 'proj') and e[2]:
        fld = e[2][-1]
        if fld.startswith('.'):
            name = fld[1:]
            tys = set()
            for a in view.facts.adts.values():
                for vv in a['variants']:
                    for f in vv['fields']:
                        if f['name'] == name:
                            tys.add(f['ty'])
            return tys
    return None


def dispatch_agreement(F, site):
    """Variant-mismatch panic in f(.., x, ..) under `x<path> is <all variants but V>`: every
    caller passes a value for which it has just tested `<passed><path> is V`."""
    v = site.view
    argnames = {v.varnames.get(i): i - 1 for i in range(1, v.argc + 1)}
    _, _, edge = v.graph()
    dom = v.dominators()
    if site.bb not in dom:
        return None
    cand = None
    for en in edge:
        if not (dom[site.bb] >> en & 1):
            continue
        a = v.edge_atom(en)
        if a[0] != 'variant' or a[1][0] != 'var' or a[1][1] not in argnames:
            continue
        t = v.blocks[edge[en][0]]['term']
        op = v.operand_expr(t['op'], edge[en][0])
        if op[0] != 'discr':
            continue
        names = F.variant_names(op[2])
        if not names:
            continue
        missing = set(names.values()) - set(a[2])
        if len(missing) == 1:
            cand = (a[1][1], ''.join(a[1][2]), missing.pop())
    if cand is None:
        return None
    argname, path, exp = cand
    argi = argnames[argname]
    callers = F.callers().get(v.key, [])
    if not callers:
        return None
    for cv, cbb in callers:
        css = [c for c in cv.calls() if c.bb == cbb and c.nfn == norm(v.path)]
        if not css:
            return None
        passed = show(css[0].arg(argi))
        if not prims.guarded_any(cv, cbb, ['^' + re.escape(passed + path) + ' is ' + exp + '$']):
            return None
    return 'dispatch agreement: all %d callers test `%s is %s` on the value they pass' % (len(callers), path or 'arg', exp)



def _definitely_some(v, tgt, bb):
    """Must-analysis: at entry of block `bb` the Option place rendered `tgt` is Some on every path."""
    succ, pred, edge = v.graph()
    gen, kill = set(), set()
    for (i, s, pe, rve) in v.field_writes():
        if show(pe) == tgt:
            if rve[0] == 'agg' and rve[2] == 'Some':
                gen.add(i)
            elif s.get('synthetic') != 'take' or True:
                if not (rve[0] == 'agg' and rve[2] == 'Some'):
                    kill.add(i)
    for m in prims.mutations(v):
        if show(m.path) == tgt and m.kind in ('mutcall', 'escape'):
            kill.add(m.bb)
    for en in prims.edge_nodes_matching(v, ['^' + re.escape(tgt) + r' is Some$']):
        gen.add(en)
    if not gen:
        return False
    nodes = list(succ.keys())
    out = {n: True for n in nodes}
    inn = {n: True for n in nodes}
    inn[0] = False
    changed = True
    it = 0
    while changed and it < 200:
        it += 1
        changed = False
        for n in nodes:
            ps = pred.get(n, [])
            i_ = (all(out[p] for p in ps) if ps else False) if n != 0 else False
            o_ = True if n in gen and n not in kill else (False if n in kill else i_)
            if n in gen and n in kill:
                o_ = False
            if i_ != inn[n] or o_ != out[n]:
                inn[n], out[n] = i_, o_
                changed = True
    return bool(inn.get(bb))
