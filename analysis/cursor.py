"""Cursor-chain analysis for the hand-written packet decoders (rule R-C03-7).

The decoders thread a byte-slice cursor through a sequence of helper calls:
    mutable_body = decode_u16(mutable_body, &mut packet.packet_id)?;
The *order* in which fields are taken off the wire is therefore a def-use chain over the cursor
variable(s).  This module reconstructs that chain from MIR by reaching definitions, without
relying on variable names: a cursor is the body-slice parameter and every named `&[u8]` local
that is defined from a cursor (copy, sub-slice, or the remainder returned by a decode helper).

Result: a list of Step objects (definitions of a cursor and calls that consume one) each with the
set of steps whose definition can reach its input (`preds`).  A linear wire layout with optional
fields shows up as: preds(step k) = the closest mandatory predecessor plus every optional step in
between."""
import re

from .mir import show, norm, subexprs, var_init_sites, is_log_mac


class Step:
    __slots__ = ('n', 'kind', 'what', 'dest', 'inp', 'defines', 'bb', 'idx', 'preds', 'guards', 'expr', 'ln')

    def __init__(self, **kw):
        for k in self.__slots__:
            setattr(self, k, kw.get(k))

    def desc(self):
        return '%s(%s%s)%s' % (self.what, self.inp or '', (' -> ' + self.dest) if self.dest else '', (' => ' + self.defines) if self.defines else '')

    def __repr__(self):
        return '<step %d %s preds=%s>' % (self.n, self.desc(), sorted(self.preds or []))


def _slice_ty(ty):
    t = ty.replace("'a ", '').replace("'_ ", '')
    return re.match(r"^&('\w+ )?\[u8\]$", t) is not None


def _cursor_use(e, cursors):
    """If expression `e` is built from exactly one cursor variable: (name, how) with how in
    'copy' | 'from:<start>' | 'to:<end>' | 'call:<fn>' (remainder of a helper) | None."""
    if e[0] == 'var' and e[1] in cursors and not e[2]:
        return e[1], 'copy', None
    s = show(e)
    for c in cursors:
        m = re.match(r'^Index::index\(%s, RangeFrom\{start: (.*)\}\)$' % re.escape(c), s)
        if m:
            return c, 'from:' + m.group(1), None
        m = re.match(r'^Index::index\(%s, RangeTo\{end: (.*)\}\)$' % re.escape(c), s)
        if m:
            return c, 'to:' + m.group(1), None
    # remainder of a decode helper: (Try::branch(f(cursor, dest..)))@Continue.0  or  f(cursor, ..) directly
    for x in subexprs(e):
        if x[0] == 'call' and x[2]:
            a0 = x[2][0]
            if a0[0] == 'var' and a0[1] in cursors and not a0[2] and norm(x[1]).split('::')[-1].startswith('decode_'):
                return a0[1], 'call:' + norm(x[1]).split('::')[-1], x
    return None


def _named_operand(view, op, names, depth=0):
    """Name of the user variable in `names` that operand `op` copies (through temporaries and
    reborrows), else None.  Unlike expression resolution this does not look *through* named
    single-definition locals, so the use is attributed to the variable, not to its initialiser."""
    while depth < 10:
        depth += 1
        if op.get('k') not in ('copy', 'move'):
            return None
        pl = op['pl']
        if pl['p'] and pl['p'] != ['*']:
            return None
        n = view.varnames.get(pl['l'])
        if n in names:
            return n
        sd = view.single_def(pl['l'])
        if sd is None or sd[0] != 'stmt':
            return None
        rv = sd[3]['rv']
        if rv['k'] == 'use':
            op = rv['op']
        elif rv['k'] == 'ref' and (not rv['pl']['p'] or rv['pl']['p'] == ['*']):
            op = {'k': 'copy', 'pl': {'l': rv['pl']['l'], 'p': []}}
        else:
            return None
    return None


def chain(view, body_param=2):
    """-> (steps, cursors).  `body_param` is the MIR local of the packet-body parameter."""
    pname = view.varnames.get(body_param)
    cursors = {pname} if pname else set()
    named_slices = {n for l, n in view.varnames.items() if _slice_ty(view.locals[l]['ty'])}
    # fixpoint: named slice locals defined from a cursor
    changed = True
    sites = {n: var_init_sites(view, n) for n in named_slices}
    while changed:
        changed = False
        for n in named_slices - cursors:
            for (bb, idx, e) in sites[n]:
                if _cursor_use(e, cursors):
                    cursors.add(n)
                    changed = True
                    break
    steps = []
    # definitions of cursors
    defs = {}   # name -> list of (bb, idx, stepno)
    if pname:
        st = Step(n=0, kind='start', what='body', dest=None, inp=None, defines=pname, bb=0, idx=-1, preds=set(), guards=[], expr=None, ln=view.f.get('ln'))
        steps.append(st)
        defs.setdefault(pname, []).append((0, -1, 0))
    for n in sorted(cursors):
        for (bb, idx, e) in sites.get(n, []):
            u = _cursor_use(e, cursors)
            if u is None:
                what, inp, dest, kind = 'opaque:' + show(e)[:60], None, None, 'def'
            else:
                inp, how, call = u
                kind = 'def'
                if how.startswith('call:'):
                    what = how[5:]
                    dest = ', '.join(_strip(show(a)) for a in call[2][1:2])
                else:
                    what, dest = how, None
            st = Step(n=len(steps), kind=kind, what=what, dest=dest, inp=inp, defines=n, bb=bb, idx=idx, preds=set(), guards=None, expr=e, ln=None)
            steps.append(st)
            defs.setdefault(n, []).append((bb, idx, st.n))
    def _callbb(st):
        if st.expr is None:
            return None
        for x in subexprs(st.expr):
            if x[0] == 'call' and len(x) > 3 and x[2] and x[2][0] == ('var', st.inp, ()):
                return x[3]
        return None
    tmpname = re.compile(r"^(val|residual)('\d+)?$")
    keep = []
    for st in steps:
        if st.defines and tmpname.match(st.defines):
            cb = _callbb(st)
            if any(o is not st and not tmpname.match(o.defines or 'x') and _callbb(o) == cb and cb is not None for o in steps):
                continue
            st.kind = 'use'
            st.defines = None
        keep.append(st)
    cursors = {c for c in cursors if not tmpname.match(c)}
    steps = keep
    defs = {}
    for k, st in enumerate(steps):
        st.n = k
        if st.defines:
            defs.setdefault(st.defines, []).append((st.bb, st.idx, st.n))
    # consuming calls whose result is not assigned to a cursor (last field, property decoders, to_vec …)
    defined_calls = set()
    for st in steps:
        if st.expr is not None:
            for x in subexprs(st.expr):
                if x[0] == 'call':
                    defined_calls.add(x[3] if len(x) > 3 else None)
    for cs in view.calls(skip_log=True):
        if cs.bb in defined_calls:
            continue
        for i in range(len(cs.args)):
            a = cs.arg(i)
            nm = _named_operand(view, cs.args[i], cursors)
            if nm is None and a[0] == 'var' and a[1] in cursors and not a[2]:
                nm = a[1]
            if nm is not None:
                fn_ = cs.nfn.split('::')[-1]
                if fn_ == 'index' and any(st.expr is not None and any(x[0] == 'call' and len(x) > 3 and x[3] == cs.bb for x in subexprs(st.expr)) for st in steps):
                    break
                dest = ', '.join(_strip(show(cs.arg(k))) for k in range(len(cs.args)) if k != i)[:120]
                st = Step(n=len(steps), kind='use', what=fn_, dest=dest, inp=nm, defines=None, bb=cs.bb, idx=len(view.blocks[cs.bb]['stmts']), preds=set(), guards=None, expr=None, ln=cs.ln)
                steps.append(st)
                break
    # direct element reads cursor[k]
    for (i, j, s) in view.stmts():
        if s['k'] != 'assign' or is_log_mac(s.get('mac', '')):
            continue
        rvj = s['rv']
        if not (rvj.get('k') == 'use' and rvj['op'].get('k') in ('copy', 'move') and any(str(x).startswith('[') for x in rvj['op']['pl']['p'])
                and view.varnames.get(rvj['op']['pl']['l']) in cursors):
            continue
        e = view.rvalue_expr(s['rv'], i)
        sh = show(e)
        for c in cursors:
            m = re.match(r'^%s\[(_?\d+)\]$' % re.escape(c), sh)
            if m and not s['lhs']['p']:
                nm = view.varnames.get(s['lhs']['l'])
                ix = m.group(1)
                if ix.startswith('_'):
                    from .mir import fold
                    fv = fold(view.local_expr(int(ix[1:])))
                    ix = str(fv) if fv is not None else ix
                st = Step(n=len(steps), kind='use', what='byte[%s]' % ix, dest=nm, inp=c, defines=None, bb=i, idx=j, preds=set(), guards=None, expr=None, ln=s['ln'])
                steps.append(st)
    # reaching definitions
    for st in steps:
        if st.inp is None:
            continue
        use = (st.bb, st.idx)
        if st.kind == 'def':
            # the input is read where the defining expression is evaluated: the call block for helper
            # remainders (the assignment may sit in a later block), else the assignment itself
            cb = None
            for x in subexprs(st.expr):
                if x[0] == 'call' and len(x) > 3 and x[2] and x[2][0] == ('var', st.inp, ()):
                    cb = x[3]
            if cb is not None:
                use = (cb, len(view.blocks[cb]['stmts']))
        st.preds = {n for (bb, idx, n) in defs.get(st.inp, []) if n != st.n and _reaches(view, defs[st.inp], (bb, idx), use)}
        st.guards = None
    steps_sorted = steps
    return steps_sorted, cursors


def _strip(s):
    return re.sub(r'^\(AsMut::as_mut\(\w+\)\)@\w+\.0\.', 'packet.', s)


def _reaches(view, all_defs, d, use):
    """Definition at position d=(bb, idx) reaches the use position (bb, idx) with no other
    definition of the same variable in between."""
    dbb, didx = d
    ubb, uidx = use
    others = [(b, i) for (b, i, _) in all_defs if (b, i) != d]
    if dbb == ubb and didx < uidx:
        return not any(b == dbb and didx < i < uidx for (b, i) in others)
    # d must be the last def in its block
    if any(b == dbb and i > didx for (b, i) in others):
        return False
    succ, _, _ = view.graph()
    kill = {}
    for (b, i) in others:
        kill.setdefault(b, []).append(i)
    seen = set()
    work = list(succ[dbb])
    while work:
        b = work.pop()
        if b in seen:
            continue
        seen.add(b)
        if b == ubb:
            if not any(i < uidx for i in kill.get(b, [])):
                return True
            continue
        if b in kill:
            continue
        work.extend(succ[b])
    return False


def linear_layout(steps):
    """Order the steps by the def-use relation (topological); returns list of step numbers or None
    when the relation is cyclic (cursor advanced in a loop)."""
    order = []
    done = set()
    pending = [s for s in steps]
    while pending:
        ready = [s for s in pending if all(p in done for p in s.preds)]
        if not ready:
            return None
        ready.sort(key=lambda s: (s.bb, s.idx))
        s = ready[0]
        order.append(s.n)
        done.add(s.n)
        pending.remove(s)
    return order


OBSERVERS = {'len', 'is_empty'}


def wire_graph(steps):
    """Abstract the chain to wire-consuming steps: -> set of (label, frozenset(pred labels)).
    Observers (len / is_empty) and plain copies of a cursor are transparent; the body parameter is
    labelled START.  label = '<what>' or '<what> -> <dest>'."""
    def label(s):
        if s.kind == 'start':
            return 'START'
        return s.what + ((' -> ' + s.dest) if s.dest else '')
    transparent = {s.n for s in steps if s.kind == 'def' and s.what == 'copy'}

    def eff(n, seen=()):
        out = set()
        for p in steps[n].preds:
            if p in transparent and p not in seen:
                out |= eff(p, seen + (p,))
            else:
                out.add(p)
        return out
    g = set()
    for s in steps:
        if s.kind == 'start' or s.n in transparent or (s.kind == 'use' and s.what in OBSERVERS):
            continue
        g.add((label(s), frozenset(label(steps[p]) for p in eff(s.n))))
    return g
