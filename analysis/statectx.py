"""T6 protocol-state context: interprocedural forward dataflow of the set of values an
enum-typed `self.<field>` may hold at every block (typestate as a may-analysis).

Over-approximates: a state reported impossible at a site is impossible on every CFG path
from the given entry points (modulo the trusted MIR), so "never in state X" is sound; "may be
in X" can be spurious."""
import re

from .mir import show, short, norm, subexprs
from . import prims


class StateAnalysis:
    def __init__(self, F, type_prefix, field, enum_path, file_suffix):
        self.F = F
        self.type_prefix = type_prefix
        self.field = field
        adt = F.adt(enum_path)
        self.names = [v['name'] for v in adt['variants']]
        self.enum = adt['path']
        self.idx = {n: i for i, n in enumerate(self.names)}
        self.full = (1 << len(self.names)) - 1
        self.fns = {}
        for v in F.fns_in(file_suffix):
            if prims.is_method_of(v, type_prefix) or v.f.get('parent'):
                self.fns[norm(v.path)] = v
        self.sets_param = {}    # fn path -> arg index whose value is stored into the field
        self._find_param_setters()
        self.summary = {p: [0] * len(self.names) for p in self.fns}   # per input state -> out mask
        self._block_cache = {}
        self._fixpoint()

    # ---------------- helpers
    def mask(self, names):
        m = 0
        for n in names:
            if n in self.idx:
                m |= 1 << self.idx[n]
        return m

    def names_of(self, m):
        return [n for i, n in enumerate(self.names) if m >> i & 1]

    def _is_field(self, e):
        return e[0] == 'var' and e[1] == 'self' and tuple(e[2]) == ('.' + self.field,)

    def _const_state(self, e):
        if e[0] == 'agg' and e[1] == self.enum and e[2] in self.idx:
            return e[2]
        return None

    def _find_param_setters(self):
        for p, v in self.fns.items():
            writes = [(i, s, pe, rve) for (i, s, pe, rve) in v.field_writes() if self._is_field(pe)]
            if len(writes) == 1:
                rve = writes[0][3]
                if rve[0] == 'var' and not rve[2]:
                    for a in range(1, v.argc + 1):
                        if v.varnames.get(a) == rve[1]:
                            self.sets_param[p] = a - 1

    # ---------------- intraprocedural
    def analyze(self, v, in_mask):
        """Returns (block_in masks dict, out mask at normal returns)."""
        succ, pred, edge = v.graph()
        n_in = {0: in_mask}
        work = [0]
        out_ret = 0
        while work:
            nd = work.pop()
            m = n_in.get(nd, 0)
            if m == 0:
                continue
            if nd in edge:
                m2 = self._refine(v, nd, m)
                outs = [(succ[nd][0], m2)] if succ[nd] else []
            else:
                m2 = self._transfer_block(v, nd, m)
                t = v.blocks[nd]['term']
                if t['k'] == 'return':
                    out_ret |= m2
                outs = [(s, m2) for s in succ[nd]]
            for s, mm in outs:
                old = n_in.get(s, 0)
                new = old | mm
                if new != old:
                    n_in[s] = new
                    work.append(s)
        return n_in, out_ret

    def _refine(self, v, en, m):
        a = v.edge_atom(en)
        if a[0] == 'variant' and self._is_field(a[1]):
            return m & self.mask(a[2])
        if a[0] == 'truth' and a[1][0] == 'eq':
            l, r = a[1][1], a[1][2]
            k = None
            if self._is_field(l):
                k = self._const_state(r)
            elif self._is_field(r):
                k = self._const_state(l)
            if k is not None:
                return (m & self.mask([k])) if a[2] else (m & ~self.mask([k]))
        if a[0] == 'truth' and a[1][0] == 'call':
            # helper predicates on the state value, e.g. is_connection_established(self.state)
            pass
        return m

    def _transfer_block(self, v, bb, m):
        b = v.blocks[bb]
        for s in b['stmts']:
            if s['k'] == 'assign' and s['lhs']['p']:
                pe = v.place_expr(s['lhs'])
                if self._is_field(pe):
                    k = self._const_state(v.rvalue_expr(s['rv'], bb))
                    m = self.mask([k]) if k else self.full
        t = b['term']
        if t['k'] == 'call':
            m = self._apply_call(v, bb, t, m)
        return m

    def _apply_call(self, v, bb, t, m):
        callee = norm(t['fn'])
        if callee in self.fns and t['args']:
            a0 = v.operand_expr(t['args'][0], bb)
            if a0[0] == 'var' and a0[1] == 'self' and not a0[2]:
                if callee in self.sets_param:
                    k = self._const_state(v.operand_expr(t['args'][self.sets_param[callee]], bb))
                    return self.mask([k]) if k else self.full
                out = 0
                for i in range(len(self.names)):
                    if m >> i & 1:
                        out |= self.summary[callee][i]
                m = out
                # fall through: closures passed along are handled below
        # closures capturing self passed to iterator adaptors: may run 0..n times
        for a in t['args']:
            e = v.operand_expr(a, bb)
            for x in subexprs(e):
                if x[0] == 'agg' and x[1] == '(closure)':
                    cp = norm(x[2])
                    if cp in self.fns and any(f == '*self' or f == 'self' or f.startswith('self') for f, _ in x[3]):
                        prev = -1
                        cur = m
                        while cur != prev:
                            prev = cur
                            for i in range(len(self.names)):
                                if cur >> i & 1:
                                    cur |= self.summary[cp][i]
                        m = cur
        return m

    def _fixpoint(self):
        changed = True
        rounds = 0
        while changed and rounds < 30:
            changed = False
            rounds += 1
            for p, v in self.fns.items():
                for i in range(len(self.names)):
                    _, out = self.analyze(v, 1 << i)
                    # diverging functions (no normal return) keep 0
                    if out | self.summary[p][i] != self.summary[p][i]:
                        self.summary[p][i] |= out
                        changed = True
        self.rounds = rounds

    # ---------------- whole-program contexts
    def contexts(self, entries):
        """entries: {fn path: in_mask}.  Returns {fn path: {node: mask}} joined over all
        calling contexts reachable from the entries."""
        entry_mask = {p: 0 for p in self.fns}
        work = []
        for p, m in entries.items():
            entry_mask[p] |= m
            work.append(p)
        blocks = {}
        while work:
            p = work.pop()
            v = self.fns[p]
            n_in = {}
            for i in range(len(self.names)):
                if entry_mask[p] >> i & 1:
                    ni, _ = self.analyze(v, 1 << i)
                    for k, mm in ni.items():
                        n_in[k] = n_in.get(k, 0) | mm
            blocks[p] = n_in
            # propagate to callees
            for bb in v.live_blocks():
                t = v.blocks[bb]['term']
                if t['k'] != 'call' or bb not in n_in:
                    continue
                m_at = self._transfer_stmts_only(v, bb, n_in[bb])
                targets = []
                callee = norm(t['fn'])
                if callee in self.fns and callee not in self.sets_param:
                    targets.append(callee)
                for a in t['args']:
                    e = v.operand_expr(a, bb)
                    for x in subexprs(e):
                        if x[0] == 'agg' and x[1] == '(closure)' and norm(x[2]) in self.fns:
                            targets.append(norm(x[2]))
                for c in targets:
                    mm = m_at
                    if c != callee:
                        # closure: may also run after earlier iterations changed the state
                        mm = self._apply_call(v, bb, t, m_at) | m_at
                    if entry_mask[c] | mm != entry_mask[c]:
                        entry_mask[c] |= mm
                        work.append(c)
        self.entry_mask = entry_mask
        return blocks

    def _transfer_stmts_only(self, v, bb, m):
        for s in v.blocks[bb]['stmts']:
            if s['k'] == 'assign' and s['lhs']['p']:
                pe = v.place_expr(s['lhs'])
                if self._is_field(pe):
                    k = self._const_state(v.rvalue_expr(s['rv'], bb))
                    m = self.mask([k]) if k else self.full
        return m
