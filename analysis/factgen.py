"""Generate (or reuse) MIR facts for /repo's *current working tree*.

Facts come from compiling the workspace libraries with the mirfacts driver as
RUSTC_WORKSPACE_WRAPPER.  Results are cached under /verif/.cache/facts/<config>/<treehash>/
where treehash covers every source/manifest file cargo compiles for the two crates, so a
changed tree always regenerates.  Fail closed: if the fact files are not produced the caller
gets an exception (never stale facts)."""
import fcntl
import hashlib
import os
import shutil
import subprocess
import sys
import time

VERIF = os.path.dirname(os.path.dirname(os.path.abspath(__file__)))
REPO = os.environ.get('GV_REPO', '/repo')
CACHE = os.path.join(VERIF, '.cache')
DRIVER_DIR = os.path.join(VERIF, 'tools', 'mirfacts')
DRIVER = os.path.join(DRIVER_DIR, 'target', 'release', 'mirfacts')
CRATES = ('gneiss_mqtt', 'gneiss_mqtt_aws')

ALL8 = ('tokio,tokio-rustls,tokio-native-tls,tokio-websockets,threaded,threaded-rustls,'
        'threaded-native-tls,threaded-websockets')

# config name -> cargo arguments.  `all` is the workspace-unified feature set the baseline
# test command builds (lib targets, cfg(not(test))).
CONFIGS = {
    'all': ['--workspace', '--lib'],
    'core': ['-p', 'gneiss-mqtt', '--lib', '--no-default-features'],
    'tokio': ['-p', 'gneiss-mqtt', '--lib', '--no-default-features', '--features', 'tokio'],
    'threaded': ['-p', 'gneiss-mqtt', '--lib', '--no-default-features', '--features', 'threaded'],
    'tokio-ws': ['-p', 'gneiss-mqtt', '--lib', '--no-default-features', '--features', 'tokio-websockets'],
    'threaded-ws': ['-p', 'gneiss-mqtt', '--lib', '--no-default-features', '--features', 'threaded-websockets'],
}
CONFIG_CRATES = {'all': CRATES}


def sysroot():
    return subprocess.check_output(['rustc', '+nightly', '--print', 'sysroot'], text=True).strip()


def build_driver(quiet=True):
    src_newer = False
    if os.path.exists(DRIVER):
        dt = os.path.getmtime(DRIVER)
        for root, _, files in os.walk(os.path.join(DRIVER_DIR, 'src')):
            for f in files:
                if os.path.getmtime(os.path.join(root, f)) > dt:
                    src_newer = True
    if os.path.exists(DRIVER) and not src_newer:
        return
    env = dict(os.environ, CARGO_NET_OFFLINE='true')
    r = subprocess.run(['cargo', 'build', '--release', '--offline'], cwd=DRIVER_DIR, env=env,
                       stdout=subprocess.PIPE, stderr=subprocess.STDOUT, text=True)
    if r.returncode != 0 or not os.path.exists(DRIVER):
        sys.stderr.write(r.stdout)
        raise RuntimeError('mirfacts driver failed to build')


def tree_hash(repo=REPO):
    h = hashlib.sha256()
    files = []
    for top in ('gneiss-mqtt', 'gneiss-mqtt-aws', 'elastigneiss'):
        for root, dirs, fs in os.walk(os.path.join(repo, top)):
            dirs[:] = [d for d in dirs if d not in ('target', '.git')]
            for f in fs:
                if f.endswith('.rs') or f == 'Cargo.toml':
                    files.append(os.path.join(root, f))
    for f in ('Cargo.toml', 'Cargo.lock'):
        files.append(os.path.join(repo, f))
    for p in sorted(files):
        h.update(os.path.relpath(p, repo).encode())
        h.update(b'\0')
        try:
            with open(p, 'rb') as fh:
                h.update(fh.read())
        except OSError:
            h.update(b'<missing>')
        h.update(b'\0')
    # the driver itself is part of the key
    for root, _, fs in os.walk(os.path.join(DRIVER_DIR, 'src')):
        for f in sorted(fs):
            with open(os.path.join(root, f), 'rb') as fh:
                h.update(fh.read())
    return h.hexdigest()[:20]


class BuildFailed(Exception):
    pass


def ensure_facts(config='all', repo=REPO, target_dir=None, verbose=False):
    """Returns (list of fact file paths, info dict)."""
    build_driver()
    key = tree_hash(repo)
    crates = CONFIG_CRATES.get(config, ('gneiss_mqtt',))
    outdir = os.path.join(CACHE, 'facts', config, key)
    want = [os.path.join(outdir, c + '.json') for c in crates]
    info = {'config': config, 'tree_hash': key, 'cached': True, 'gen_s': 0.0}
    if all(os.path.exists(w) for w in want):
        return want, info
    os.makedirs(os.path.join(CACHE, 'facts', config), exist_ok=True)
    # one lock for all configurations: they share the cargo target directory whose fingerprints are cleared below
    lock = open(os.path.join(CACHE, 'facts', '.lock'), 'w')
    fcntl.flock(lock, fcntl.LOCK_EX)
    try:
        if all(os.path.exists(w) for w in want):
            return want, info
        t0 = time.time()
        tdir = target_dir or os.path.join(CACHE, 'target')
        os.makedirs(tdir, exist_ok=True)
        fp = os.path.join(tdir, 'debug', '.fingerprint')
        if os.path.isdir(fp):
            for d in os.listdir(fp):
                if d.startswith('gneiss-mqtt-') or d.startswith('gneiss-mqtt-aws-') or d.startswith('elasti-'):
                    shutil.rmtree(os.path.join(fp, d), ignore_errors=True)
        tmp = outdir + '.tmp%d' % os.getpid()
        shutil.rmtree(tmp, ignore_errors=True)
        os.makedirs(tmp)
        nonce = '%d_%d' % (os.getpid(), int(t0 * 1000))
        env = dict(os.environ)
        env.update({
            'LD_LIBRARY_PATH': os.path.join(sysroot(), 'lib') + ':' + env.get('LD_LIBRARY_PATH', ''),
            'RUSTC_WORKSPACE_WRAPPER': DRIVER,
            'CARGO_TARGET_DIR': tdir,
            'CARGO_NET_OFFLINE': 'true',
            'MIRFACTS_OUT': tmp,
            'MIRFACTS_NONCE': nonce,
            'MIRFACTS_HIR': '1',
            'MIRFACTS_CRATES': ','.join(crates),
        })
        env.pop('RUSTFLAGS', None)
        cmd = ['cargo', '+nightly', 'check', '--offline'] + CONFIGS[config]
        r = subprocess.run(cmd, cwd=repo, env=env, stdout=subprocess.PIPE, stderr=subprocess.STDOUT, text=True)
        if r.returncode != 0:
            shutil.rmtree(tmp, ignore_errors=True)
            tail = '\n'.join(l for l in r.stdout.splitlines() if l.startswith('error') or '-->' in l)[:4000]
            raise BuildFailed('cargo check failed for config %s (tree does not compile?)\n%s' % (config, tail))
        for c in crates:
            src = os.path.join(tmp, '%s.%s.json' % (c, nonce))
            if not os.path.exists(src):
                shutil.rmtree(tmp, ignore_errors=True)
                raise RuntimeError('mirfacts produced no facts for crate %s (wrapper skipped?)' % c)
            os.rename(src, os.path.join(tmp, c + '.json'))
        shutil.rmtree(outdir, ignore_errors=True)
        os.rename(tmp, outdir)
        info['cached'] = False
        info['gen_s'] = round(time.time() - t0, 2)
        _prune(os.path.join(CACHE, 'facts', config), keep=outdir)
        return want, info
    finally:
        fcntl.flock(lock, fcntl.LOCK_UN)
        lock.close()


def _prune(cfgdir, keep, maxn=12, min_age_s=3600):
    """Drop old fact directories (never one younger than an hour: a concurrent check may be reading it)."""
    ents = []
    now = time.time()
    for d in os.listdir(cfgdir):
        p = os.path.join(cfgdir, d)
        if os.path.isdir(p) and p != keep:
            ents.append((os.path.getmtime(p), p))
    ents.sort(reverse=True)
    for mt, p in ents[maxn - 1:]:
        if now - mt > min_age_s:
            shutil.rmtree(p, ignore_errors=True)


if __name__ == '__main__':
    cfg = sys.argv[1] if len(sys.argv) > 1 else 'all'
    print(ensure_facts(cfg))
