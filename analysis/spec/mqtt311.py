"""Tables transcribed from OASIS MQTT Version 3.1.1."""
PROTOCOL_LEVEL = 4
# 3.2.2.3 Connect Return code values
CONNACK_RETURN_CODES = {0, 1, 2, 3, 4, 5}
# 3.9.3 SUBACK return codes
SUBACK_RETURN_CODES = {0, 1, 2, 0x80}
