"""Tables transcribed from the OASIS MQTT Version 5.0 specification (independent oracle).
Section numbers refer to mqtt-v5.0-os."""

# 2.1.2 MQTT Control Packet types
PACKET_TYPES = {
    'CONNECT': 1, 'CONNACK': 2, 'PUBLISH': 3, 'PUBACK': 4, 'PUBREC': 5, 'PUBREL': 6, 'PUBCOMP': 7,
    'SUBSCRIBE': 8, 'SUBACK': 9, 'UNSUBSCRIBE': 10, 'UNSUBACK': 11, 'PINGREQ': 12, 'PINGRESP': 13,
    'DISCONNECT': 14, 'AUTH': 15,
}
# 2.1.3 fixed-header flag nibble for packets whose flags are reserved (PUBLISH flags are data)
FIXED_FLAGS = {
    'CONNECT': 0, 'CONNACK': 0, 'PUBACK': 0, 'PUBREC': 0, 'PUBREL': 2, 'PUBCOMP': 0, 'SUBSCRIBE': 2,
    'SUBACK': 0, 'UNSUBSCRIBE': 2, 'UNSUBACK': 0, 'PINGREQ': 0, 'PINGRESP': 0, 'DISCONNECT': 0, 'AUTH': 0,
}


def first_byte(name):
    return (PACKET_TYPES[name] << 4) | FIXED_FLAGS[name]


# PUBLISH fixed header bits (3.3.1)
PUBLISH_DUP_BIT = 0x08
PUBLISH_QOS_SHIFT = 1
PUBLISH_QOS_MASK = 0x03
PUBLISH_RETAIN_BIT = 0x01

# 2.2.2.2 Table 2-4 Properties: id -> (name, data type, packets (W = Will Properties))
BYTE, TWO, FOUR, VBI, UTF8, BIN, PAIR = 'Byte', 'Two Byte Integer', 'Four Byte Integer', \
    'Variable Byte Integer', 'UTF-8 Encoded String', 'Binary Data', 'UTF-8 String Pair'
PROPERTIES = {
    1: ('Payload Format Indicator', BYTE, {'PUBLISH', 'WILL'}),
    2: ('Message Expiry Interval', FOUR, {'PUBLISH', 'WILL'}),
    3: ('Content Type', UTF8, {'PUBLISH', 'WILL'}),
    8: ('Response Topic', UTF8, {'PUBLISH', 'WILL'}),
    9: ('Correlation Data', BIN, {'PUBLISH', 'WILL'}),
    11: ('Subscription Identifier', VBI, {'PUBLISH', 'SUBSCRIBE'}),
    17: ('Session Expiry Interval', FOUR, {'CONNECT', 'CONNACK', 'DISCONNECT'}),
    18: ('Assigned Client Identifier', UTF8, {'CONNACK'}),
    19: ('Server Keep Alive', TWO, {'CONNACK'}),
    21: ('Authentication Method', UTF8, {'CONNECT', 'CONNACK', 'AUTH'}),
    22: ('Authentication Data', BIN, {'CONNECT', 'CONNACK', 'AUTH'}),
    23: ('Request Problem Information', BYTE, {'CONNECT'}),
    24: ('Will Delay Interval', FOUR, {'WILL'}),
    25: ('Request Response Information', BYTE, {'CONNECT'}),
    26: ('Response Information', UTF8, {'CONNACK'}),
    28: ('Server Reference', UTF8, {'CONNACK', 'DISCONNECT'}),
    31: ('Reason String', UTF8, {'CONNACK', 'PUBACK', 'PUBREC', 'PUBREL', 'PUBCOMP', 'SUBACK', 'UNSUBACK', 'DISCONNECT', 'AUTH'}),
    33: ('Receive Maximum', TWO, {'CONNECT', 'CONNACK'}),
    34: ('Topic Alias Maximum', TWO, {'CONNECT', 'CONNACK'}),
    35: ('Topic Alias', TWO, {'PUBLISH'}),
    36: ('Maximum QoS', BYTE, {'CONNACK'}),
    37: ('Retain Available', BYTE, {'CONNACK'}),
    38: ('User Property', PAIR, {'CONNECT', 'CONNACK', 'PUBLISH', 'WILL', 'PUBACK', 'PUBREC', 'PUBREL', 'PUBCOMP',
                                 'SUBSCRIBE', 'SUBACK', 'UNSUBSCRIBE', 'UNSUBACK', 'DISCONNECT', 'AUTH'}),
    39: ('Maximum Packet Size', FOUR, {'CONNECT', 'CONNACK'}),
    40: ('Wildcard Subscription Available', BYTE, {'CONNACK'}),
    41: ('Subscription Identifier Available', BYTE, {'CONNACK'}),
    42: ('Shared Subscription Available', BYTE, {'CONNACK'}),
}
REPEATABLE = {38, 11}   # user property anywhere; subscription identifier in PUBLISH (server -> client)


def properties_of(packet):
    return {k for k, (_, _, ps) in PROPERTIES.items() if packet in ps}


# Reason codes per packet
REASON_CODES = {
    # 3.2.2.2 Connect Reason Code
    'CONNACK': {0, 128, 129, 130, 131, 132, 133, 134, 135, 136, 137, 138, 140, 144, 149, 151, 153, 154, 155, 156, 157, 159},
    # 3.4.2.1 / 3.5.2.1
    'PUBACK': {0, 16, 128, 131, 135, 144, 145, 151, 153},
    'PUBREC': {0, 16, 128, 131, 135, 144, 145, 151, 153},
    # 3.6.2.1 / 3.7.2.1
    'PUBREL': {0, 146},
    'PUBCOMP': {0, 146},
    # 3.9.3
    'SUBACK': {0, 1, 2, 128, 131, 135, 143, 145, 151, 158, 161, 162},
    # 3.11.3
    'UNSUBACK': {0, 17, 128, 131, 135, 143, 145},
    # 3.14.2.1
    'DISCONNECT': {0, 4, 128, 129, 130, 131, 135, 137, 139, 141, 142, 143, 144, 147, 148, 149, 150, 151, 152, 153,
                   154, 155, 156, 157, 158, 159, 160, 161, 162},
    # 3.15.2.1
    'AUTH': {0, 24, 25},
}

# 3.2.2.3 values assumed when a CONNACK property is absent
CONNACK_DEFAULTS = {
    'maximum_qos': 2, 'receive_maximum': 65535, 'maximum_packet_size': (1 << 28) - 1, 'topic_alias_maximum': 0,
    'retain_available': True, 'wildcard_subscriptions_available': True,
    'subscription_identifiers_available': True, 'shared_subscriptions_available': True,
}

# 3.8.3.1 subscription options byte
SUB_OPT_QOS_MASK = 0x03
SUB_OPT_NO_LOCAL = 0x04
SUB_OPT_RETAIN_AS_PUBLISHED = 0x08
SUB_OPT_RETAIN_HANDLING_SHIFT = 4

# 3.1.2.3 Connect flags
CONNECT_FLAG_CLEAN_START = 0x02
CONNECT_FLAG_WILL = 0x04
CONNECT_FLAG_WILL_QOS_SHIFT = 3
CONNECT_FLAG_WILL_RETAIN = 0x20
CONNECT_FLAG_PASSWORD = 0x40
CONNECT_FLAG_USERNAME = 0x80
PROTOCOL_NAME = 'MQTT'
PROTOCOL_LEVEL = 5

VBI_MAX = (1 << 28) - 1
SUBSCRIPTION_IDENTIFIER_RANGE = (1, 268435455)
