"""T11 finite-domain evaluation: a small abstract interpreter over MIR whose values are
known enum variants / small constants / booleans / references / unknown.  Given assumptions
about some input places it enumerates every CFG path that is feasible under those assumptions
(known switch operands follow one edge, unknown ones fork), recording calls of interest and the
final values of tracked places.  No solver, no concrete execution of the analysed program:
a finite lattice and the CFG."""
from .mir import norm, short, show, STD_VARIANTS, ty_head, is_log_mac

MAX_PATHS = 4096
MAX_STEPS = 4000


class Budget(Exception):
    pass


def V_enum(adt, variant, payload=None):
    return ('enum', adt, variant, payload)


def V_some(v):
    return ('enum', 'std::option::Option', 'Some', {'0': v})


V_NONE = ('enum', 'std::option::Option', 'None', None)
UNKNOWN = None


class Path:
    __slots__ = ('events', 'store', 'ret', 'decisions', 'diverged')

    def __init__(self):
        self.events = []
        self.store = {}
        self.ret = None
        self.decisions = []
        self.diverged = None


class Evaluator:
    def __init__(self, F, interest=None, inline=None, max_depth=3):
        self.F = F
        self.interest = interest or (lambda callee, view: False)
        self.inline = inline or (lambda callee, view: False)
        self.max_depth = max_depth
        self.steps = 0

    # ---------------- value helpers
    def discr_of(self, val, ty):
        if val is None or val[0] != 'enum':
            return None
        names = self.F.variant_names(val[1]) or self.F.variant_names(ty)
        if not names:
            return None
        for d, n in names.items():
            if n == val[2]:
                return d
        return None

    def key_of(self, view, env, pl):
        """Canonical store key for a MIR place."""
        l = pl['l']
        projs = list(pl['p'])
        base = '_%d' % l
        # closure upvar
        for n, pj in enumerate(projs):
            if pj.startswith('.^'):
                cap = pj[2:].replace('*', '').replace('(', '').replace(')', '')
                base = cap
                projs = [p for p in projs[n + 1:]]
                break
        else:
            if projs and projs[0] == '*':
                r = env.get(base)
                if r is not None and r[0] == 'ref':
                    base = r[1]
                    projs = projs[1:]
                elif 1 <= l <= view.argc and view.varnames.get(l):
                    base = view.varnames[l]
                    projs = projs[1:]
            elif 1 <= l <= view.argc and view.varnames.get(l) and not view.locals[l]['ty'].startswith('&'):
                base = view.varnames[l]
        out = base
        for pj in projs:
            if pj == '*':
                r = env.get(out)
                if r is not None and r[0] == 'ref':
                    out = r[1]
                continue
            out += pj
        return out

    def read(self, env, key):
        if key in env:
            return env[key]
        # X@Variant.N  /  X.field of a known aggregate
        for cut in range(len(key) - 1, 0, -1):
            if key[cut] in '@.':
                head = key[:cut]
                if head in env:
                    v = env[head]
                    rest = key[cut:]
                    return self._project(v, rest)
        return None

    def _project(self, v, rest):
        if v is None:
            return None
        while rest:
            if rest.startswith('@'):
                j = 1
                while j < len(rest) and (rest[j].isalnum() or rest[j] in '_#'):
                    j += 1
                var = rest[1:j]
                if v[0] != 'enum' or v[2] != var:
                    return None
                rest = rest[j:]
                continue
            if rest.startswith('.'):
                j = 1
                while j < len(rest) and (rest[j].isalnum() or rest[j] in '_'):
                    j += 1
                f = rest[1:j]
                if v[0] == 'enum' and v[3] and f in v[3]:
                    v = v[3][f]
                elif v[0] == 'tuple' and f.isdigit() and int(f) < len(v[1]):
                    v = v[1][int(f)]
                elif v[0] == 'struct' and f in v[2]:
                    v = v[2][f]
                else:
                    return None
                rest = rest[j:]
                if v is None:
                    return None
                continue
            return None
        return v

    def operand(self, view, env, op):
        k = op['k']
        if k in ('copy', 'move'):
            return self.read(env, self.key_of(view, env, op['pl']))
        if k == 'const':
            if 'promoted' in op:
                pe = view.promoted_expr(op['promoted'])
                v = self.expr_value(pe) if pe is not None else None
                return ('refval', v) if v is not None else None
            val = op.get('val')
            if isinstance(val, bool):
                return ('bool', val)
            if isinstance(val, int):
                return ('int', val)
            if isinstance(val, dict) and 'val' in val and isinstance(val['val'], int):
                return ('int', val['val'])
            return None
        return None

    def expr_value(self, e):
        if e is None:
            return None
        if e[0] == 'const':
            if isinstance(e[1], bool):
                return ('bool', e[1])
            if isinstance(e[1], int):
                return ('int', e[1])
            return None
        if e[0] == 'agg':
            if e[1] in ('(tuple)',):
                return ('tuple', [self.expr_value(x) for _, x in e[3]])
            pay = {f: self.expr_value(x) for f, x in e[3]} if e[3] else None
            return ('enum', e[1], e[2], pay)
        return None

    def rvalue(self, view, env, rv, bb):
        k = rv['k']
        if k == 'use':
            return self.operand(view, env, rv['op'])
        if k == 'ref':
            return ('ref', self.key_of(view, env, rv['pl']))
        if k == 'discr':
            v = self.read(env, self.key_of(view, env, rv['pl']))
            d = self.discr_of(v, rv['ty'])
            return ('int', d) if d is not None else None
        if k == 'agg':
            ops = [self.operand(view, env, o) for o in rv['ops']]
            if rv['adt'] == '(tuple)':
                return ('tuple', ops)
            if rv['adt'] in ('(array)', '(closure)', '(other)'):
                return None
            fields = rv.get('fields') or [str(i) for i in range(len(ops))]
            adt = self.F.adts.get(rv['adt'])
            if adt is not None and adt['kind'] == 'struct':
                return ('struct', rv['adt'], dict(zip(fields, ops)))
            return ('enum', rv['adt'], rv.get('variant', ''), dict(zip(fields, ops)) if ops else None)
        if k == 'un':
            a = self.operand(view, env, rv['a'])
            if rv['op'] == 'Not' and a is not None and a[0] == 'bool':
                return ('bool', not a[1])
            return None
        if k == 'bin':
            a = self.operand(view, env, rv['a'])
            b = self.operand(view, env, rv['b'])
            return self.binop(rv['op'], a, b)
        if k == 'cast':
            a = self.operand(view, env, rv['op'])
            if a is not None and a[0] in ('int', 'bool'):
                return ('int', int(a[1]))
            if a is not None and a[0] == 'enum':
                d = self.discr_of(a, a[1])
                return ('int', d) if d is not None else None
            return None
        return None

    def binop(self, op, a, b):
        if a is None or b is None or a[0] not in ('int', 'bool') or b[0] not in ('int', 'bool'):
            return None
        x, y = int(a[1]), int(b[1])
        if op == 'Eq':
            return ('bool', x == y)
        if op == 'Ne':
            return ('bool', x != y)
        if op == 'Lt':
            return ('bool', x < y)
        if op == 'Le':
            return ('bool', x <= y)
        if op == 'Gt':
            return ('bool', x > y)
        if op == 'Ge':
            return ('bool', x >= y)
        if op in ('BitAnd', 'BitOr') and a[0] == 'bool':
            return ('bool', bool(x & y) if op == 'BitAnd' else bool(x | y))
        return None

    def deref(self, env, v):
        for _ in range(4):
            if v is None:
                return None
            if v[0] == 'ref':
                v = self.read(env, v[1])
                continue
            if v[0] == 'refval':
                v = v[1]
                continue
            return v
        return v

    def same_enum(self, a, b):
        if a is None or b is None or a[0] != 'enum' or b[0] != 'enum':
            return None
        if a[2] != b[2]:
            return False
        if not a[3] and not b[3]:
            return True
        return None

    def model_call(self, view, env, t, args):
        """Models for a few std functions; returns (handled, value)."""
        fn = norm(t['fn'])
        sh = short(t['fn'])
        a = [self.deref(env, x) for x in args]
        if sh in ('PartialEq::eq', 'PartialEq::ne') and len(a) == 2:
            r = self.same_enum(a[0], a[1])
            if r is None and a[0] is not None and a[1] is not None and a[0][0] in ('int', 'bool') and a[1][0] in ('int', 'bool'):
                r = a[0][1] == a[1][1]
            if r is None:
                return True, None
            return True, ('bool', r if sh.endswith('eq') else not r)
        if fn in ('std::option::Option::is_some', 'std::option::Option::is_none') and a:
            if a[0] is not None and a[0][0] == 'enum':
                s = a[0][2] == 'Some'
                return True, ('bool', s if fn.endswith('is_some') else not s)
            return True, None
        if fn in ('std::result::Result::is_ok', 'std::result::Result::is_err') and a:
            if a[0] is not None and a[0][0] == 'enum':
                s = a[0][2] == 'Ok'
                return True, ('bool', s if fn.endswith('is_ok') else not s)
            return True, None
        if fn == 'std::option::Option::as_ref' and a:
            return True, a[0]
        if fn in ('std::option::Option::unwrap', 'std::option::Option::expect') and a:
            if a[0] is not None and a[0][0] == 'enum' and a[0][2] == 'Some' and a[0][3]:
                return True, a[0][3].get('0')
            return True, None
        if fn == 'std::option::Option::unwrap_or' and len(a) == 2:
            if a[0] is not None and a[0][0] == 'enum':
                return True, (a[0][3].get('0') if a[0][2] == 'Some' and a[0][3] else a[1])
            return True, None
        if sh in ('Clone::clone', 'Deref::deref', 'Borrow::borrow', 'AsRef::as_ref') and a:
            return True, a[0]
        if sh == 'Try::branch' and a:
            if a[0] is not None and a[0][0] == 'enum' and a[0][2] in ('Ok', 'Err', 'Some', 'None'):
                if a[0][2] in ('Ok', 'Some'):
                    return True, ('enum', 'std::ops::ControlFlow', 'Continue', {'0': (a[0][3] or {}).get('0')})
                return True, ('enum', 'std::ops::ControlFlow', 'Break', {'0': a[0]})
            return True, None
        return False, None

    # ---------------- driver
    def run(self, view, assumptions, tracked=(), depth=0):
        """assumptions: {store key: value}.  Returns list of Path."""
        self.paths = 0
        out = []
        env0 = dict(assumptions)
        self._walk(view, 0, env0, Path(), out, tracked, depth, {})
        return out

    def _walk(self, view, bb, env, path, out, tracked, depth, visits):
        while True:
            self.steps += 1
            if self.steps > MAX_STEPS * 50:
                raise Budget('step budget exceeded in %s' % view.path)
            n = visits.get(bb, 0)
            if n > 6:
                path.diverged = 'loop'
                self._finish(view, env, path, out, tracked)
                return
            visits = dict(visits)
            visits[bb] = n + 1
            b = view.blocks[bb]
            for s in b['stmts']:
                if s['k'] == 'assign':
                    key = self.key_of(view, env, s['lhs'])
                    val = self.rvalue(view, env, s['rv'], bb)
                    self._store(env, key, val)
                elif s['k'] == 'setdiscr':
                    pass
            t = b['term']
            k = t['k']
            if k == 'goto':
                bb = t['t']
                continue
            if k in ('drop', 'assert'):
                bb = t['t']
                continue
            if k == 'return':
                path.ret = self.read(env, '_0')
                self._finish(view, env, path, out, tracked)
                return
            if k in ('unreachable', 'resume', 'terminate'):
                path.diverged = k
                self._finish(view, env, path, out, tracked)
                return
            if k == 'switch':
                v = self.operand(view, env, t['op'])
                if v is not None and v[0] in ('int', 'bool'):
                    iv = int(v[1])
                    tgt = t['otherwise']
                    for val, tg in t['targets']:
                        if val == iv:
                            tgt = tg
                    bb = tgt
                    continue
                # fork
                if is_log_mac(t.get('mac', '')):
                    # logging branches never change the abstract state: take the cheapest edge
                    bb = t['targets'][0][1]
                    continue
                edges = [(val, tg) for val, tg in t['targets']] + [(None, t['otherwise'])]
                cond = show(view.operand_expr(t['op'], bb))
                first = True
                for val, tg in edges:
                    if view.blocks[tg]['term']['k'] == 'unreachable' and not view.blocks[tg]['stmts']:
                        continue
                    self.paths += 1
                    if self.paths > MAX_PATHS:
                        raise Budget('path budget exceeded in %s' % view.path)
                    p2 = Path()
                    p2.events = list(path.events)
                    p2.decisions = path.decisions + [(cond, val)]
                    self._walk(view, tg, dict(env), p2, out, tracked, depth, visits)
                return
            if k == 'call':
                args = [self.operand(view, env, a) for a in t['args']]
                callee = norm(t['fn'])
                dest = self.key_of(view, env, t['dest'])
                handled, val = self.model_call(view, env, t, args)
                if not handled:
                    val = None
                    if self.interest(callee, view) and not is_log_mac(t.get('mac', '')):
                        path.events.append((short(callee), tuple(self._render(view, env, a, x) for a, x in zip(t['args'], args))))
                    if depth < self.max_depth and self.inline(callee, view):
                        cands = self.F.find_fns(callee)
                        if len(cands) == 1:
                            rets = self._inline(view, env, cands[0], t, args, path, tracked, depth)
                            if rets is not None:
                                # fork on distinct callee outcomes
                                if t.get('t') is None:
                                    path.diverged = 'call'
                                    self._finish(view, env, path, out, tracked)
                                    return
                                for (renv, rval, revents, rdec) in rets:
                                    p2 = Path()
                                    p2.events = path.events + revents
                                    p2.decisions = path.decisions + rdec
                                    e2 = dict(env)
                                    e2.update(renv)
                                    self._store(e2, dest, rval)
                                    self._walk(view, t['t'], e2, p2, out, tracked, depth, visits)
                                return
                    # unknown call: havoc places passed by &mut? (conservative: forget tracked self fields the callee may write)
                    for a, x in zip(t['args'], args):
                        if x is not None and x[0] == 'ref' and self._is_mut_borrow(view, a):
                            self._havoc(env, x[1])
                self._store(env, dest, val)
                if t.get('t') is None:
                    path.diverged = 'call'
                    self._finish(view, env, path, out, tracked)
                    return
                bb = t['t']
                continue
            path.diverged = k
            self._finish(view, env, path, out, tracked)
            return

    def _is_mut_borrow(self, view, op):
        if op['k'] not in ('copy', 'move'):
            return False
        ty = view.locals[op['pl']['l']]['ty']
        return ty.startswith('&mut ')

    def _havoc(self, env, key):
        for k in list(env):
            if k == key or k.startswith(key + '.') or k.startswith(key + '@'):
                env[k] = None

    def _store(self, env, key, val):
        # overwrite: forget stale sub-places
        for k in list(env):
            if k != key and (k.startswith(key + '.') or k.startswith(key + '@')):
                del env[k]
        env[key] = val

    def _render(self, view, env, op, val):
        v = self.deref(env, val)
        if v is not None and v[0] == 'enum' and not (v[3] and any(x is None for x in v[3].values())):
            return self.vstr(v)
        if v is not None and v[0] in ('int', 'bool'):
            return str(v[1])
        if v is not None and v[0] == 'enum':
            return self.vstr(v)
        if v is not None and v[0] == 'struct':
            inner = ['%s=%s' % (f, self.vstr(x)) for f, x in v[2].items() if x is not None and x[0] == 'enum']
            return short(v[1], 1) + '{' + ','.join(inner) + '}'
        return '?'

    def vstr(self, v):
        if v is None:
            return '?'
        if v[0] == 'enum':
            s = v[2]
            if v[3]:
                s += '(' + ','.join(self.vstr(x) for x in v[3].values()) + ')'
            return s
        if v[0] in ('int', 'bool'):
            return str(v[1])
        if v[0] == 'tuple':
            return '(' + ','.join(self.vstr(x) for x in v[1]) + ')'
        if v[0] == 'struct':
            return short(v[1], 1) + '{..}'
        return v[0]

    def _inline(self, view, env, callee, t, args, path, tracked, depth):
        """Evaluate a local callee; returns list of (env updates on shared keys, ret value, events, decisions)."""
        cenv = {}
        shared_self = False
        for i in range(callee.argc):
            nm = callee.varnames.get(i + 1) or ('arg%d' % (i + 1))
            a = args[i] if i < len(args) else None
            lty = callee.locals[i + 1]['ty']
            if lty.startswith('&'):
                if a is not None and a[0] == 'ref':
                    if nm == 'self' and a[1] == 'self':
                        shared_self = True
                    elif nm == 'self':
                        return None
                    else:
                        # bind the referent's current value under the callee's name
                        tgt = self.read(env, a[1])
                        if tgt is not None:
                            cenv[nm] = tgt
                        for k, v in env.items():
                            if k.startswith(a[1] + '.') or k.startswith(a[1] + '@'):
                                cenv[nm + k[len(a[1]):]] = v
                elif a is not None and a[0] == 'refval':
                    cenv[nm] = a[1]
            else:
                cenv[nm] = self.deref(env, a) if a is not None and a[0] in ('ref', 'refval') else a
        if shared_self:
            for k, v in env.items():
                if k == 'self' or k.startswith('self.'):
                    cenv[k] = v
        sub = Evaluator(self.F, self.interest, self.inline, self.max_depth)
        sub.steps = self.steps
        outp = []
        sub.paths = 0
        sub._walk(callee, 0, cenv, Path(), outp, tracked, depth + 1, {})
        self.steps = sub.steps
        rets = []
        seen = set()
        for p in outp:
            if p.diverged:
                continue
            upd = {k: v for k, v in p.store.items() if shared_self and (k.startswith('self.'))}
            sig = (repr(sorted((k, repr(v)) for k, v in upd.items())), repr(p.ret), repr(p.events))
            if sig in seen:
                continue
            seen.add(sig)
            rets.append((upd, p.ret, p.events, p.decisions))
        return rets

    def _finish(self, view, env, path, out, tracked):
        path.store = {k: v for k, v in env.items() if not k.startswith('_') or k == '_0'}
        out.append(path)
