"""Analysis primitives shared by the rule files (T1 who-may-write, T2 must-dominate,
T3 must-pass-through, helpers for tables)."""
import re

from .mir import (norm, short, show, show_atom, subexprs, is_log_mac, call_is, const_val, atom_renderings)

# std methods that change the *membership / content* of a container or slot when given &mut
MUTATORS = {
    'insert', 'remove', 'clear', 'push', 'push_back', 'push_front', 'pop', 'pop_back', 'pop_front',
    'append', 'swap', 'take', 'replace', 'drain', 'retain', 'truncate', 'extend', 'sort', 'sort_by',
    'rotate_right', 'rotate_left', 'entry', 'get_or_insert', 'get_or_insert_with', 'put', 'push_str',
    'remove_entry', 'split_off', 'resize', 'dedup', 'reverse', 'set', 'reset', 'insert_entry',
    'swap_remove', 'pop_lru', 'extend_from_slice', 'copy_from_slice', 'write_all', 'write',
}
# &mut accessors that hand out element references without changing membership
ACCESSORS = {
    'get_mut', 'iter_mut', 'front_mut', 'back_mut', 'as_mut', 'as_mut_slices', 'values_mut', 'borrow_mut',
    'deref_mut', 'as_deref_mut', 'index_mut', 'peek_mut', 'first_mut', 'last_mut', 'as_mut_slice', 'by_ref',
    'into_iter', 'next', 'as_mut_ptr',
}


class Mutation:
    __slots__ = ('view', 'bb', 'kind', 'path', 'field', 'callee', 'cs', 'stmt', 'rv', 'ln', 'mac', 'idx')

    def __init__(self, view, bb, kind, path, callee=None, cs=None, stmt=None, rv=None, ln=None, mac=''):
        self.view = view
        self.bb = bb
        self.kind = kind          # 'assign' | 'mutcall' | 'access' | 'escape'
        self.path = path          # place expression written
        self.callee = callee
        self.cs = cs
        self.stmt = stmt
        self.rv = rv
        self.ln = ln
        self.mac = mac
        self.idx = None

    @property
    def pos(self):
        return (self.bb, self.idx)

    @property
    def method(self):
        return self.callee.split('::')[-1] if self.callee else '='

    def loc(self):
        return self.view.loc(ln=self.ln)

    def desc(self):
        if self.kind == 'assign':
            return '%s := %s' % (show(self.path), show(self.rv))
        return '%s(%s)' % (short(self.callee), show(self.path))

    def __repr__(self):
        return '<mut %s in %s @%s>' % (self.desc(), short(self.view.path), self.ln)


def borrow_of(view, operand):
    """If `operand` is (a move/copy of a temp holding) a reference to a place, return
    (is_mut, placeE); follows reborrows `&mut *tmp`."""
    seen = 0
    op = operand
    while seen < 12:
        seen += 1
        if op['k'] not in ('copy', 'move'):
            return None
        pl = op['pl']
        if pl['p'] and pl['p'] != ['*']:
            # a field of something: a place, not a borrow temp
            return None
        sd = view.single_def(pl['l'])
        if sd is None:
            # argument of reference type counts as a borrow of itself
            l = pl['l']
            if 1 <= l <= view.argc:
                ty = view.locals[l]['ty']
                if ty.startswith('&mut '):
                    return (True, view.place_expr({'l': l, 'p': []}))
                if ty.startswith('&'):
                    return (False, view.place_expr({'l': l, 'p': []}))
            return None
        kind, i, j, s = sd
        if kind != 'stmt':
            # result of a call returning a reference (e.g. get_queue)
            ty = view.locals[pl['l']]['ty']
            if ty.startswith('&mut '):
                return (True, view.local_expr(pl['l']))
            if ty.startswith('&'):
                return (False, view.local_expr(pl['l']))
            return None
        rv = s['rv']
        if rv['k'] == 'ref':
            inner = rv['pl']
            if inner['p'] == ['*']:
                # reborrow of another reference temp/arg
                sub = borrow_of(view, {'k': 'copy', 'pl': {'l': inner['l'], 'p': []}})
                if sub is not None:
                    return (rv['mut'] and sub[0], sub[1])
            return (rv['mut'], view.place_expr(inner))
        if rv['k'] == 'use':
            op = rv['op']
            continue
        return None
    return None


def mutations(view, skip_log=True):
    """All sites in `view` that write through a place: direct assignments to projected places
    and calls receiving `&mut place`."""
    out = []
    for (i, j, s) in view.stmts():
        if s['k'] != 'assign' or not s['lhs']['p']:
            continue
        if skip_log and is_log_mac(s.get('mac', '')):
            continue
        pe = view.place_expr(s['lhs'])
        mu = Mutation(view, i, 'assign', pe, stmt=s, rv=view.rvalue_expr(s['rv'], i), ln=s['ln'], mac=s.get('mac', ''))
        mu.idx = j
        out.append(mu)
    for cs in view.calls(skip_log=skip_log):
        meth = cs.nfn.split('::')[-1]
        for a in cs.args:
            b = borrow_of(view, a)
            if b is None or not b[0]:
                continue
            if meth in MUTATORS:
                kind = 'mutcall'
            elif meth in ACCESSORS:
                kind = 'access'
            else:
                kind = 'escape'
            mu = Mutation(view, cs.bb, kind, b[1], callee=cs.nfn, cs=cs, ln=cs.ln, mac=cs.mac)
            mu.idx = len(view.blocks[cs.bb]['stmts'])
            if short(cs.nfn) == 'Option::take':
                # `x.take()` is the write `x := None` (its result is the old value): kept as a mutcall, with the value it leaves behind
                mu.rv = ('agg', 'std::option::Option', 'None', ())
            out.append(mu)
    return out


def self_field(e):
    """`self.<field>…` -> field name (also through closure upvar named self)."""
    if e[0] == 'var' and e[1] == 'self' and e[2] and e[2][0].startswith('.'):
        f = e[2][0][1:]
        return f[1:] if f.startswith('^') else f
    return None


def is_method_of(view, type_prefix):
    p = view.path
    if view.f.get('parent'):
        p = view.f['parent']
    return norm(p).startswith(type_prefix + '::')


def field_mutations(F, type_prefix, file_suffix):
    """Mutations of `self.<field>` in methods (and their closures) of the given type."""
    out = []
    for v in F.fns_in(file_suffix):
        if not is_method_of(v, type_prefix):
            continue
        for m in mutations(v):
            f = self_field(m.path)
            if f is not None:
                out.append((f, m))
    return out


# ---------------- guards
def guard_strs(view, bb):
    """Renderings of the atoms guarding block bb (the written form first, then equivalent spellings)."""
    out = []
    for a in view.guards(bb):
        for s in atom_renderings(a):
            if s not in out:
                out.append(s)
    return out


def guard_strs_plain(view, bb):
    return [show_atom(a) for a in view.guards(bb)]


def has_guard(view, bb, pattern):
    rx = re.compile(pattern)
    return any(rx.search(g) for g in guard_strs(view, bb))


def missing_guards(view, bb, patterns):
    gs = guard_strs(view, bb)
    miss = []
    for p in patterns:
        rx = re.compile(p)
        if not any(rx.search(g) for g in gs):
            miss.append(p)
    return miss, gs


# ---------------- paths
def blocks_where(view, pred_call=None, pred_stmt=None):
    out = set()
    if pred_call:
        for cs in view.calls(skip_log=True):
            if pred_call(cs):
                out.add(cs.bb)
    if pred_stmt:
        for (i, j, s) in view.stmts():
            if pred_stmt(i, s):
                out.add(i)
    return out


def must_pass(view, start_bb, through_blocks, targets=None, after_start=True):
    """True iff every CFG path from start_bb (exclusive when after_start) to any target block
    (default: normal returns) passes through one of `through_blocks`.
    Returns (ok, witness_target)."""
    succ, _, _ = view.graph()
    targets = set(view.exits() if targets is None else targets)
    through = set(through_blocks)
    starts = succ[start_bb] if after_start else [start_bb]
    if not after_start and start_bb in through:
        return True, None
    seen = view.reach(starts, avoid=through)
    bad = sorted(t for t in targets if t in seen)
    return (not bad), (bad[0] if bad else None)


def can_reach(view, start_bb, target_blocks, avoid=()):
    succ, _, _ = view.graph()
    seen = view.reach(succ[start_bb], avoid=avoid)
    return any(t in seen for t in target_blocks)


def ret_variants(view):
    """(block, expr) for every value that can flow into the return place (phi locals are
    expanded to their definitions, so the block is where the value is chosen)."""
    out = []

    def subst(e, target, repl):
        if e == target:
            return repl
        if e[0] == 'agg':
            return (e[0], e[1], e[2], tuple((f, subst(x, target, repl)) for f, x in e[3]))
        return e

    def expand(i, e, depth=0):
        if e[0] == 'phi' and depth < 4:
            for bb, de in view.phi_defs(e[1]):
                expand(bb, de, depth + 1)
            return
        if e[0] == 'agg' and depth < 4:
            inner = [x for x in subexprs(e) if x[0] == 'phi']
            if inner:
                defs = view.phi_defs(inner[0][1])
                if defs:
                    for bb, de in defs:
                        expand(bb, subst(e, inner[0], de), depth + 1)
                    return
        out.append((i, e))
    for (i, j, s) in view.stmts():
        if s['k'] == 'assign' and s['lhs']['l'] == 0 and not s['lhs']['p']:
            expand(i, view.rvalue_expr(s['rv'], i))
    for cs in view.calls():
        if cs.dest['l'] == 0 and not cs.dest['p']:
            out.append((cs.bb, ('call', cs.nfn, tuple(cs.arg(i) for i in range(len(cs.args))), cs.bb)))
    return out


def err_blocks(view):
    """Blocks that assign `Err(..)` to the return place, or forward a residual (`?`)."""
    out = set()
    for (i, j, s) in view.stmts():
        if s['k'] == 'assign' and s['lhs']['l'] == 0 and not s['lhs']['p']:
            e = view.rvalue_expr(s['rv'], i)
            if e[0] == 'agg' and e[2] == 'Err':
                out.add(i)
    for cs in view.calls():
        if cs.dest['l'] == 0 and cs.is_fn('FromResidual::from_residual', 'from_residual'):
            out.add(cs.bb)
    return out


def enum_arg(cs, i):
    """Argument i of a call as an enum-variant literal name (or None)."""
    e = cs.arg(i)
    if e[0] == 'agg':
        return e[2]
    return None


# ---------------- disjunctive guards (edge cut)
def edge_nodes_matching(view, patterns, keep_log=False):
    _, _, edge = view.graph()
    rxs = [re.compile(p) for p in patterns]
    out = []
    # polarity: a pattern that is not anchored at the start describes a *positive* atom; it must not match the negated
    # atom `!(...)` by accident (write `^!` or `^!?` to ask for the negative / either polarity)
    unanch = [not p.startswith('^') and not p.startswith('!') for p in patterns]
    for en in edge:
        ss = atom_renderings(view.edge_atom(en))
        hit = False
        for rx, ua in zip(rxs, unanch):
            for s in ss:
                if ua and s.startswith('!'):
                    continue
                if rx.search(s):
                    hit = True
        if hit:
            out.append(en)
    return out


def guarded_any(view, bb, patterns):
    """True iff every path from the entry to block `bb` takes at least one switch edge whose
    atom matches one of `patterns` (dominance generalised to `a || b` and if/else-if)."""
    cut = edge_nodes_matching(view, patterns)
    if not cut:
        return False
    if bb == 0:
        return False
    seen = view.reach([0], avoid=cut)
    return bb not in seen


def requires(ctx, view, bb, reqs, key, what, loc=None):
    """Record one obligation per requirement: each requirement is a regex (or list of
    alternative regexes) over the rendered guard atoms; all must cut the entry from `bb`."""
    ok_all = True
    for r in reqs:
        alts = [r] if isinstance(r, str) else list(r)
        ok = guarded_any(view, bb, alts)
        ctx.ob(ok, '%s requires guard /%s/' % (what, ' | '.join(alts)),
               '%s|%s|%s' % (short(view.path), key, alts[0]), loc=loc or view.loc(bb),
               detail=None if ok else 'dominating guards here: ' + ' ; '.join(guard_strs(view, bb)))
        ok_all = ok_all and ok
    return ok_all


def closure_hosts(parent, closure_view):
    """Call sites in `parent` that receive the closure `closure_view` as an argument."""
    tag = norm(closure_view.path)
    out = []
    for cs in parent.calls(skip_log=True):
        for i in range(len(cs.args)):
            e = cs.arg(i)
            if any(x[0] == 'agg' and x[1] == '(closure)' and norm(x[2]) == tag for x in subexprs(e)):
                out.append(cs)
                break
    return out


def parent_view(F, view):
    p = view.f.get('parent')
    if not p:
        return None
    c = [F.view(k) for k, f in F.fns.items() if f['path'] == p]
    return c[0] if c else None


def self_fields_read(F, view, depth=2, type_prefix=None, _seen=None):
    """Fields `self.<f>` mentioned (read or written) in a body and, up to `depth`, in the local
    methods/closures it calls with `self`."""
    _seen = _seen if _seen is not None else set()
    if view.key in _seen:
        return set()
    _seen.add(view.key)
    out = set()

    def scan(e):
        for x in subexprs(e):
            f = self_field(x) if x[0] == 'var' else None
            if f:
                out.add(f)
    for (i, j, s) in view.stmts():
        if s['k'] == 'assign' and not is_log_mac(s.get('mac', '')):
            scan(view.rvalue_expr(s['rv'], i))
            if s['lhs']['p']:
                scan(view.place_expr(s['lhs']))
    for cs in view.calls(skip_log=True):
        for i in range(len(cs.args)):
            scan(cs.arg(i))
    for i in view.live_blocks():
        t = view.blocks[i]['term']
        if t['k'] == 'switch' and not is_log_mac(t.get('mac', '')):
            scan(view.operand_expr(t['op'], i))
    if depth > 0:
        for cs, cv in F.callees_of(view):
            if cs is not None and is_log_mac(cs.mac):
                continue
            if type_prefix and not (is_method_of(cv, type_prefix)):
                continue
            if cv.path.split('::')[-1] in ('log_state', 'log_debug', 'log_trace', 'fmt'):
                continue
            out |= self_fields_read(F, cv, depth - 1, type_prefix, _seen)
    return out


def never_ok_after(view, patterns):
    """Guard completeness: once the conjunction `patterns` (regexes over edge atoms, evaluated in
    order as nested/&&-chained tests) holds, no Ok/true return is reachable: the function must fail.
    Returns (found, ok): found = the conjunction exists as nested edges; ok = every innermost edge
    reaches only failing exits."""
    edges = None
    for pat in patterns:
        cand = edge_nodes_matching(view, [pat])
        if edges is None:
            edges = cand
        else:
            edges = [e for e in cand if any(view.dominates(p, e) for p in edges)]
        if not edges:
            return False, False
    good = []
    for b, e in ret_variants(view):
        s = show(e)
        if (e[0] == 'agg' and e[2] == 'Ok') or s == 'True':
            good.append(b)
    ok = True
    for en in edges:
        r = view.reach([en])
        if any(b in r for b in good):
            ok = False
    return True, ok


def rets_after(view, patterns):
    """Renderings of every return value reachable once the conjunction `patterns` holds (nested /
    &&-chained edges, each dominated by the previous).  None when the conjunction does not occur.
    Used for guard *completeness*: an extra conjunct that weakens a rejection shows up as an
    additional reachable outcome."""
    edges = None
    for pat in patterns:
        cand = edge_nodes_matching(view, [pat])
        if edges is None:
            edges = cand
        else:
            edges = [e for e in cand if any(view.dominates(p, e) for p in edges)]
        if not edges:
            return None
    out = set()
    rv = ret_variants(view)
    for en in edges:
        r = view.reach([en])
        for b, e in rv:
            if b in r:
                if e[0] == 'agg' and e[2] in ('Ok', 'Err', 'Some', 'None'):
                    out.add(e[2])
                else:
                    out.add(show(e))
        # `?`-forwarded errors
        for cs in view.calls('FromResidual::from_residual', 'from_residual'):
            if cs.dest['l'] == 0 and cs.bb in r:
                out.add('Err')
    return out


# ---------------------------------------------------------------------------------------------
# accumulator freeze: a running total is complete before anything derived from it is computed
def _operand_reads(node, local):
    """Count operand/borrow uses of bare local `local` anywhere inside a JSON rvalue/terminator."""
    n = 0
    if isinstance(node, dict):
        pl = node.get('pl')
        if node.get('k') in ('copy', 'move', 'ref') and isinstance(pl, dict) and pl.get('l') == local and not pl.get('p'):
            n += 1
        for k, x in node.items():
            if k in ('lhs', 'dest'):
                continue
            n += _operand_reads(x, local)
    elif isinstance(node, list):
        for x in node:
            n += _operand_reads(x, local)
    return n


def accumulators(view):
    """Named integer locals that are self-incremented (`a += x`): local -> name."""
    out = {}
    for (i, j, s) in view.stmts():
        if s['k'] == 'assign' and s['rv'].get('k') == 'bin' and s['rv'].get('op') in ('AddWithOverflow', 'Add'):
            a = s['rv']['a']
            if a.get('k') in ('copy', 'move') and not a['pl']['p'] and a['pl']['l'] in view.varnames:
                out[a['pl']['l']] = view.varnames[a['pl']['l']]
    return out


def accumulator_freeze(view, local):
    """-> (increments, external_reads, late) where `late` lists (read_pos, def_pos) pairs such that
    a definition/increment of the accumulator is reachable strictly after a use of its value by
    something other than its own increment.  Positions are (bb, stmt index | 'term', line)."""
    incs, defs, reads = [], [], []
    tmp_of_inc = set()
    for (i, j, s) in view.stmts():
        if s['k'] != 'assign':
            continue
        rv = s['rv']
        is_inc = rv.get('k') == 'bin' and rv.get('op') in ('AddWithOverflow', 'Add') and rv['a'].get('k') in ('copy', 'move') and rv['a']['pl']['l'] == local and not rv['a']['pl']['p']
        if is_inc:
            incs.append((i, j, s['ln']))
            tmp_of_inc.add(s['lhs']['l'])
            # the increment's own right operand may still read the accumulator (a += a): ignore
            continue
        if s['lhs']['l'] == local and not s['lhs']['p']:
            defs.append((i, j, s['ln']))
            if _operand_reads(rv, local) == 0 and not (rv.get('k') == 'use' and rv['op'].get('k') in ('copy', 'move') and rv['op']['pl']['l'] in tmp_of_inc):
                pass
            continue
        if _operand_reads(rv, local):
            reads.append((i, j, s['ln']))
    for i in view.live_blocks():
        t = view.blocks[i]['term']
        if t['k'] == 'assert':
            continue
        if t['k'] == 'call' and t['dest']['l'] == local and not t['dest']['p']:
            defs.append((i, 10 ** 6, t['ln']))
        if _operand_reads({k: v for k, v in t.items() if k not in ('dest',)}, local):
            reads.append((i, 10 ** 6 - 1, t['ln']))
    succ, _, _ = view.graph()
    late = []
    for r in reads:
        after = view.reach(list(succ[r[0]]))
        for d in incs + defs:
            if (d[0] == r[0] and d[1] > r[1]) or d[0] in after:
                late.append((r, d))
    return incs, reads, late


def accept_blocks(view):
    """Blocks that assign an accepting value (Ok / true) to the return place."""
    out = []
    for b, e in ret_variants(view):
        if (e[0] == 'agg' and e[2] == 'Ok') or show(e) == 'True':
            out.append(b)
    return out


def decision_dominates_accept(view, patterns):
    """Every accepting return is dominated by a block that *decides* one of `patterns` (the
    switch whose outgoing edge carries the atom, in either polarity): the test cannot be skipped
    by an else-branch or an early accepting return.  -> (found, ok, undominated accept blocks)."""
    _, pred, _ = view.graph()
    dec = set()
    for en in edge_nodes_matching(view, patterns):
        dec.update(pred[en])
    acc = accept_blocks(view)
    if not dec:
        return False, False, acc
    bad = [b for b in acc if not any(view.dominates(d, b) for d in dec)]
    return True, not bad and bool(acc), bad


# ---------------------------------------------------------------------------------------------
# deadline coverage: a timer is consulted on every path to a return and flows into the answer
def field_read_blocks(view, field):
    """Blocks of `view` whose statements / terminator mention `self.<field>` (resolved)."""
    out = set()

    def has(e):
        return any(self_field(x) == field for x in subexprs(e) if x[0] == 'var')
    for (i, j, s) in view.stmts():
        if s['k'] == 'assign' and not is_log_mac(s.get('mac', '')):
            if has(view.rvalue_expr(s['rv'], i)):
                out.add(i)
    for cs in view.calls(skip_log=True):
        if any(has(cs.arg(k)) for k in range(len(cs.args))):
            out.add(cs.bb)
    for i in view.live_blocks():
        t = view.blocks[i]['term']
        if t['k'] == 'switch' and not is_log_mac(t.get('mac', '')) and has(view.operand_expr(t['op'], i)):
            out.add(i)
    return out


def consulted_on_every_return(view, field):
    """(ok, blocks reading the field, a return block reachable without reading it)."""
    rb = field_read_blocks(view, field)
    if not rb:
        return False, rb, None
    if 0 in rb:
        return True, rb, None
    seen = view.reach([0], avoid=rb)
    bad = [b for b in view.exits() if b in seen]
    return (not bad), rb, (bad[0] if bad else None)


# ---------------------------------------------------------------------------------------------
# use-after-drain: a local container is emptied (moved from by `append`, drained, cleared, taken)
# and read afterwards — the later read silently sees nothing
def use_after_drain(view):
    """-> list of (name, drain CallSite, later CallSite)."""
    out = []
    drains = []
    for cs in view.calls(skip_log=True):
        meth = cs.nfn.split('::')[-1]
        idxs = {'append': [1], 'drain': [0], 'clear': [0], 'take': [0], 'split_off': [], 'truncate': []}.get(meth)
        if not idxs:
            continue
        for i in idxs:
            if i >= len(cs.args):
                continue
            b = borrow_of(view, cs.args[i])
            if b is None or not b[0]:
                continue
            e = b[1]
            if e[0] == 'var' and not e[2] and e[1] != 'self':
                drains.append((e[1], cs))
    if not drains:
        return out
    succ, _, _ = view.graph()
    for name, dcs in drains:
        after = view.reach(list(succ[dcs.bb]))
        for cs in view.calls(skip_log=True):
            if cs.bb not in after or cs.bb == dcs.bb:
                continue
            meth = cs.nfn.split('::')[-1]
            if meth in ('drop', 'drop_in_place'):
                continue
            for i in range(len(cs.args)):
                a = cs.arg(i)
                if a == ('var', name, ()):
                    # re-filled in between?  (an assignment / swap into the variable kills the drain)
                    refills = [m for m in mutations(view) if m.path == ('var', name, ()) and (m.kind == 'assign' or m.method in ('swap', 'push_back', 'push_front', 'push', 'insert', 'extend'))
                               and m.bb in after and (cs.bb in view.reach(list(succ[m.bb])) or m.bb == cs.bb)]
                    if not refills:
                        out.append((name, dcs, cs))
                    break
    return out


# ---------------------------------------------------------------------------------------------
# must-effects: writes to self.<field> that happen on *every* path of a method (through local callees)
def must_field_effects(F, view, depth=3, _seen=None, targets=None):
    """-> {field: set(renderings of the value written / 'clear()' ...)} for effects that every
    entry->return path performs.  Callee effects count when the call block is on every path."""
    _seen = _seen or set()
    if view.key in _seen or depth < 0:
        return {}
    _seen = _seen | {view.key}
    per_block = {}   # bb -> list of (field, what)
    for m in mutations(view):
        f = self_field(m.path)
        if f is None:
            continue
        if m.kind == 'assign' and show(m.path) == 'self.' + f:
            per_block.setdefault(m.bb, []).append((f, show(m.rv)))
        elif m.kind == 'mutcall' and show(m.path) == 'self.' + f:
            per_block.setdefault(m.bb, []).append((f, m.method + '()'))
    for cs, cv in F.callees_of(view):
        if cs is None or cv.key == view.key:
            continue
        if not cs.args:
            continue
        a0 = cs.arg(0)
        if not (a0[0] == 'var' and a0[1] == 'self' and not a0[2]):
            continue
        for f, whats in must_field_effects(F, cv, depth - 1, _seen).items():
            for w in whats:
                per_block.setdefault(cs.bb, []).append((f, w))
    out = {}
    fields = {f for effs in per_block.values() for f, _ in effs}
    for f in fields:
        blocks = [b for b, effs in per_block.items() if any(ff == f for ff, _ in effs)]
        if 0 in blocks:
            ok = True
        else:
            seen = view.reach([0], avoid=blocks)
            ok = not any(e in seen for e in (view.exits() if targets is None else targets))
        if ok:
            out[f] = {w for b in blocks for ff, w in per_block[b] if ff == f}
    return out


# ---------------------------------------------------------------------------------------------
# engine clock: every public entry point of the protocol engine adopts the caller's time before anything else
def clock_updates(F, entry_names=('handle_network_event', 'service', 'handle_user_event', 'get_next_service_timepoint', 'reset')):
    """-> list of (entry name, ok, time argument rendering, view)."""
    out = []
    for nm in entry_names:
        vs = F.find_fns('ProtocolState::' + nm, 'src/protocol.rs')
        if len(vs) != 1:
            out.append((nm, False, 'anchor missing', None))
            continue
        v = vs[0]
        ups = v.calls('ProtocolState::update_internal_clock')
        ok = len(ups) == 1
        arg = show(ups[0].arg(1)) if ups else None
        if ok:
            # dominates every other engine call / state read in the entry point: the update's block dominates all other call blocks
            others = [c for c in v.calls(skip_log=True) if c.bb != ups[0].bb and c.nfn.startswith('protocol::')]
            ok = all(v.dominates(ups[0].bb, c.bb) for c in others) and ups[0].bb in view_must_blocks(v)
            ok = ok and arg in ('context.current_time', 'current_time')
        out.append((nm, ok, arg, v))
    return out


def view_must_blocks(view):
    """Blocks every entry->return path passes through."""
    out = set()
    ex = view.exits()
    for b in view.live_blocks():
        if b == 0:
            out.add(b)
            continue
        seen = view.reach([0], avoid=[b])
        if not any(e in seen for e in ex):
            out.add(b)
    return out


def ok_blocks(view):
    return [b for b, e in ret_variants(view) if (e[0] == 'agg' and e[2] == 'Ok')]


def reaches_ret(view, from_patterns, want, avoid_patterns=()):
    """Sufficiency: from the innermost edge of the nested conjunction `from_patterns`, a return whose rendering/variant is `want`
    is reachable without taking any edge matching `avoid_patterns`.  None when the conjunction does not occur."""
    edges = None
    for pat in from_patterns:
        cand = edge_nodes_matching(view, [pat])
        edges = cand if edges is None else [e for e in cand if any(view.dominates(p, e) for p in edges)]
        if not edges:
            return None
    avoid = edge_nodes_matching(view, list(avoid_patterns)) if avoid_patterns else []
    rv = ret_variants(view)
    for en in edges:
        r = view.reach([en], avoid=avoid)
        for b, e in rv:
            if b in r:
                lab = e[2] if e[0] == 'agg' and e[2] in ('Ok', 'Err', 'Some', 'None') else show(e)
                if lab == want:
                    return True
    return False


def reaching_defs(view, name, bb):
    """Definitions (bb, idx, rendered value) of the user variable `name` that can reach the *end* of block bb
    (i.e. its terminator: the position of a call in that block) without an intervening redefinition."""
    from .mir import var_init_sites
    from .cursor import _reaches
    sites = var_init_sites(view, name)
    alld = [(b, i, k) for k, (b, i, e) in enumerate(sites)]
    use = (bb, len(view.blocks[bb]['stmts']) + 1)
    return sorted((b, i, show(sites[k][2])) for (b, i, k) in alld if _reaches(view, alld, (b, i), use))
