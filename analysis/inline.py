"""Transparent inlining of *new* helper functions.

The rules anchor on the functions that exist in the tree they were written for (frozen list
analysis/tables/known_fns.txt).  A behaviour-preserving "extract function" refactoring moves a
guard, a table write or a release call out of an anchored function into a helper the rules have
never seen; intra-procedural dominance/path rules would then report the site as unguarded although
nothing changed.  To stay silent on such edits (and to keep seeing *into* the helper when a bug is
introduced there) every call from a local body to a local function that is not in the frozen list
is replaced by the callee's MIR body (locals, blocks and promoted constants renumbered, arguments
assigned to the callee's parameter locals, `return` turned into an assignment of the destination
followed by a jump to the call's target block).  Known functions are never inlined: they are what
rules name.  Nothing is executed; this is a CFG splice over the exported facts."""
import copy
import os
import re

_TABLE = os.path.join(os.path.dirname(os.path.abspath(__file__)), 'tables', 'known_fns.txt')
_GEN = re.compile(r'::<[^<>]*>')


def _norm(path):
    prev = None
    while prev != path:
        prev = path
        path = _GEN.sub('', path)
    return path


def load_known():
    try:
        with open(_TABLE) as f:
            return set(l.strip() for l in f if l.strip() and not l.startswith('#'))
    except OSError:
        return None


def _remap(node, lmap, bmap, poff, is_term=False):
    """Deep copy of a JSON MIR node with locals / block targets / promoted indices renumbered."""
    if isinstance(node, dict):
        out = {}
        is_place = 'l' in node and 'p' in node and isinstance(node.get('p'), list)
        for k, v in node.items():
            if is_place and k == 'l':
                out[k] = lmap(v)
            elif is_place and k == 'p':
                out[k] = [re.sub(r'^\[_(\d+)\]$', lambda m: '[_%d]' % lmap(int(m.group(1))), x) if isinstance(x, str) else x for x in v]
            elif k == 'promoted' and isinstance(v, int):
                out[k] = v + poff
            elif is_term and k in ('t', 'otherwise', 'unwind') and isinstance(v, int):
                out[k] = bmap(v)
            elif is_term and k == 'targets':
                out[k] = [[val, bmap(t)] for val, t in v]
            else:
                out[k] = _remap(v, lmap, bmap, poff, False)
        return out
    if isinstance(node, list):
        return [_remap(x, lmap, bmap, poff, False) for x in node]
    return node


def _splice(caller, bi, callee):
    """Inline `callee` at the call terminating block `bi` of `caller` (both fact dicts; caller is mutated)."""
    t = caller['blocks'][bi]['term']
    loff = len(caller['locals'])
    boff = len(caller['blocks'])
    poff = len(caller.get('promoted') or [])
    lmap = lambda l: l + loff
    bmap = lambda b: b + boff
    # locals: callee local i -> caller local loff+i (callee _0 becomes an ordinary local holding the result)
    for lc in callee['locals']:
        caller['locals'].append(dict(lc))
    # debug names of the callee's own locals (not its parameters: those are plain copies of the arguments)
    for v in callee['vars']:
        pl = v['pl']
        if not pl['p'] and 1 <= pl['l'] <= callee['argc']:
            continue
        caller['vars'].append({'name': v['name'], 'pl': _remap(pl, lmap, bmap, poff)})
    if callee.get('promoted'):
        caller.setdefault('promoted', [])
        caller['promoted'].extend(copy.deepcopy(callee['promoted']))
    ln = {'ln': t.get('ln'), 'col': t.get('col')}
    # argument passing
    stmts = caller['blocks'][bi]['stmts']
    for i, a in enumerate(t['args']):
        if i + 1 > callee['argc']:
            break
        stmts.append({'k': 'assign', 'lhs': {'l': loff + i + 1, 'p': []}, 'rv': {'k': 'use', 'op': a}, 'ln': t.get('ln'), 'col': t.get('col'), 'inl': callee['path']})
    target = t.get('t')
    dest = t['dest']
    caller['blocks'][bi]['term'] = dict({'k': 'goto', 't': boff}, **ln)
    for cb in callee['blocks']:
        nb = {'cleanup': cb.get('cleanup', False), 'stmts': [_remap(s, lmap, bmap, poff) for s in cb['stmts']], 'term': _remap(cb['term'], lmap, bmap, poff, True)}
        for s in nb['stmts']:
            s.setdefault('file', callee['file'])
        nb['term'].setdefault('file', callee['file'])
        if nb['term']['k'] == 'return':
            nb['stmts'].append({'k': 'assign', 'lhs': copy.deepcopy(dest), 'rv': {'k': 'use', 'op': {'k': 'move', 'pl': {'l': loff, 'p': []}}}, 'ln': nb['term'].get('ln'), 'col': nb['term'].get('col'), 'file': callee['file']})
            if target is None:
                nb['term'] = dict({'k': 'unreachable'}, ln=nb['term'].get('ln'), col=nb['term'].get('col'))
            else:
                nb['term'] = {'k': 'goto', 't': target, 'ln': nb['term'].get('ln'), 'col': nb['term'].get('col'), 'file': callee['file']}
        caller['blocks'].append(nb)


def inline_unknown(fns, known, max_rounds=3, max_blocks=400):
    """fns: list of fn fact dicts of one crate set (mutated in place).  Returns {caller path: [callee paths]}."""
    if known is None:
        return {}
    by_path = {}
    for f in fns:
        if f.get('kind') in ('Fn', 'AssocFn'):
            by_path.setdefault(_norm(f['path']), f)
    cand = {p: f for p, f in by_path.items() if p not in known}
    if not cand:
        return {}
    pristine = {p: copy.deepcopy(f) for p, f in cand.items()}
    done = {}
    for _ in range(max_rounds):
        changed = False
        for f in fns:
            if f.get('kind') not in ('Fn', 'AssocFn', 'Closure'):
                continue
            i = 0
            while i < len(f['blocks']) and len(f['blocks']) < max_blocks:
                t = f['blocks'][i]['term']
                if t['k'] == 'call' and t.get('local') and not f['blocks'][i].get('cleanup'):
                    cp = _norm(t.get('fn') or '')
                    callee = pristine.get(cp)
                    if callee is not None and _norm(f['path']) != cp and len(callee['blocks']) <= 120 and len(t['args']) == callee['argc']:
                        _splice(f, i, callee)
                        done.setdefault(f['path'], []).append(cp)
                        changed = True
                i += 1
        if not changed:
            break
    # helpers whose every call site was inlined are represented in their callers: hide their own bodies from
    # whole-file scans (who-may-write rules), otherwise the same write would be attributed to an unknown function
    used = set()
    for cs in done.values():
        used.update(cs)
    still_called = set()
    for f in fns:
        if _norm(f['path']) in cand and f.get('inlined_away'):
            continue
        for b in f['blocks']:
            t = b['term']
            if t['k'] == 'call' and t.get('local') and _norm(t.get('fn') or '') in cand and _norm(f['path']) not in cand:
                still_called.add(_norm(t['fn']))
    for p, f in cand.items():
        if p in used and p not in still_called:
            f['inlined_away'] = True
    return done



# ---------------------------------------------------------------------------------------------
# jump threading over boolean temporaries: `let ok = matches!(x, A | B); if ok {..}` (and the MIR of
# `matches!`, `a && b` stored in a local, ...) assigns a constant in each arm of a branch, joins, and
# branches again on that constant.  Redirecting every such predecessor straight to the target its
# constant selects gives the same CFG as writing the test directly in the `if`, so dominance-based
# rules and the typestate analysis see through the temporary.
def merge_linear(fn):
    """Append a block to its unique predecessor when that predecessor jumps to it unconditionally (goto chains left behind by inlining)."""
    blocks = fn['blocks']
    changed = False
    for _ in range(50):
        preds = {}
        for i, b in enumerate(blocks):
            for tg in _targets(b['term']):
                preds.setdefault(tg, []).append(i)
        did = False
        for i, b in enumerate(blocks):
            t = b['term']
            if t['k'] != 'goto' or b.get('cleanup'):
                continue
            j = t.get('t')
            if j is None or j == i or j == 0 or preds.get(j, []) != [i] or blocks[j].get('cleanup') or blocks[j].get('merged'):
                continue
            b['stmts'] = b['stmts'] + blocks[j]['stmts']
            b['term'] = blocks[j]['term']
            blocks[j] = {'cleanup': True, 'merged': True, 'stmts': [], 'term': {'k': 'unreachable', 'ln': t.get('ln'), 'col': t.get('col')}}
            did = True
            changed = True
            break
        if not did:
            break
    return changed


def thread_bool_jumps(fn, max_iter=6):
    blocks = fn['blocks']
    changed_any = False
    for _ in range(max_iter):
        preds = {}
        for i, b in enumerate(blocks):
            t = b['term']
            for tg in _targets(t):
                preds.setdefault(tg, []).append(i)
        changed = False
        for j, jb in enumerate(blocks):
            t = jb['term']
            if t['k'] != 'switch' or t.get('ty') != 'bool' or jb.get('cleanup'):
                continue
            op = t['op']
            if op.get('k') not in ('copy', 'move') or op['pl']['p']:
                continue
            loc = op['pl']['l']
            # the join block may only shuffle the tested value between temporaries (`dest = move ret_local`): follow that chain
            # back to the local the predecessors assign; those copies are replicated into each threaded predecessor
            chain_ok = True
            for s_ in reversed(jb['stmts']):
                if s_['k'] == 'assign' and not s_['lhs']['p'] and s_['rv'].get('k') == 'use' and s_['rv']['op'].get('k') in ('copy', 'move') and not s_['rv']['op']['pl']['p']:
                    if s_['lhs']['l'] == loc:
                        loc = s_['rv']['op']['pl']['l']
                    continue
                chain_ok = False
                break
            if not chain_ok:
                continue
            tgt_false = None
            for v, tg in t['targets']:
                if v == 0:
                    tgt_false = tg
            if tgt_false is None:
                continue
            tgt_true = t['otherwise']
            ps = preds.get(j, [])
            if len(ps) < 2:
                continue
            for p in ps:
                pb = blocks[p]
                if pb['term']['k'] != 'goto' or pb['term'].get('t') != j:
                    continue
                val = None
                for s in pb['stmts']:
                    if s['k'] == 'assign' and s['lhs']['l'] == loc and not s['lhs']['p']:
                        rv = s['rv']
                        if rv.get('k') == 'use' and rv['op'].get('k') == 'const' and rv['op'].get('ty') == 'bool' and isinstance(rv['op'].get('val'), bool):
                            val = rv['op']['val']
                        else:
                            val = None
                if val is None:
                    # not a constant (e.g. the arm evaluates a comparison): duplicate the join's switch into this predecessor so
                    # that the branch is taken on this arm's own value (tail duplication; the join only copies temporaries)
                    if len(jb['stmts']) <= 3 and len(ps) <= 8 and _defines_upstream(blocks, preds, p, loc):
                        pb['stmts'] = pb['stmts'] + [dict(x) for x in jb['stmts']]
                        pb['term'] = copy.deepcopy(t)
                        changed = True
                        changed_any = True
                    continue
                pb['stmts'] = pb['stmts'] + [dict(x) for x in jb['stmts']]
                pb['term'] = dict(pb['term'], t=(tgt_true if val else tgt_false))
                changed = True
                changed_any = True
        if not changed:
            break
    return changed_any


def _targets(t):
    out = []
    if 't' in t and isinstance(t['t'], int):
        out.append(t['t'])
    if t['k'] == 'switch':
        out.extend(tg for _, tg in t['targets'])
        out.append(t['otherwise'])
    return out


def _defines_upstream(blocks, preds, p, loc, hops=4):
    """The tested local is (re)defined on the way into predecessor p: by a statement of p, or by the call that ends p's only
    predecessor (possibly through a short goto chain).  Only then does duplicating the join's switch into p separate values."""
    cur = p
    for _ in range(hops):
        b = blocks[cur]
        if any(s_['k'] == 'assign' and s_['lhs']['l'] == loc and not s_['lhs']['p'] for s_ in b['stmts']):
            return True
        ps = preds.get(cur, [])
        if len(ps) != 1:
            return False
        q = blocks[ps[0]]
        t = q['term']
        if t['k'] == 'call' and t['dest']['l'] == loc and not t['dest']['p'] and t.get('t') == cur:
            return True
        if t['k'] != 'goto':
            return False
        cur = ps[0]
    return False
