"""Fact base loader and per-function views (CFG with edge nodes, dominators, symbolic
expression resolution, guard atoms).  Pure stdlib.  Nothing here executes the analysed
program: everything is computed from the MIR/ADT/const facts exported by tools/mirfacts."""
import json
import os
import re
import sys

sys.setrecursionlimit(10000)

_GEN = re.compile(r'::<[^<>]*>')
_IMPLFOR = re.compile(r'<impl (?:[\w:]+::)?(\w+)(?:<.*>)? for .*>::(\w+)$')
_QSELF = re.compile(r'^<.* as ([^<>]*(?:<.*>)?)>::(\w+)$')


def norm(path):
    """Strip generic argument lists (`::<T, A>`) from a def path."""
    if path is None:
        return ''
    prev = None
    while prev != path:
        prev = path
        path = _GEN.sub('', path)
    return path


def short(path, n=2):
    p = norm(path)
    mi = _IMPLFOR.search(p)
    if mi:
        return mi.group(1) + '::' + mi.group(2)
    if p.startswith('<'):
        m = _QSELF.match(p)
        if m:
            return m.group(1).split('<')[0].split('::')[-1] + '::' + m.group(2)
        return p
    return '::'.join(p.split('::')[-n:])


STD_VARIANTS = {
    'std::option::Option': {0: 'None', 1: 'Some'},
    'std::result::Result': {0: 'Ok', 1: 'Err'},
    'std::collections::hash_map::Entry': {0: 'Occupied', 1: 'Vacant'},
    'std::cmp::Ordering': {-1: 'Less', 0: 'Equal', 1: 'Greater', 255: 'Less'},
    'std::ops::ControlFlow': {0: 'Continue', 1: 'Break'},
    'std::task::Poll': {0: 'Ready', 1: 'Pending'},
}


def ty_head(ty):
    """`&mut std::option::Option<u64>` -> `std::option::Option`."""
    t = ty.strip()
    while True:
        if t.startswith('&mut '):
            t = t[5:]
        elif t.startswith('&'):
            t = t[1:].lstrip()
            if t.startswith("'"):
                t = t.split(' ', 1)[1] if ' ' in t else t
        else:
            break
    i = t.find('<')
    return t if i < 0 else t[:i]


def _load_facts(p):
    """json facts with a marshal side-cache (same content, ~5x faster to load)."""
    import marshal
    mp = p + '.marshal'
    try:
        if os.path.getmtime(mp) >= os.path.getmtime(p):
            with open(mp, 'rb') as f:
                return marshal.load(f)
    except (OSError, ValueError, EOFError, TypeError):
        pass
    with open(p) as f:
        d = json.load(f)
    try:
        tmp = '%s.%d.tmp' % (mp, os.getpid())
        with open(tmp, 'wb') as f:
            marshal.dump(d, f)
        os.replace(tmp, mp)
    except OSError:
        pass
    return d


class Facts:
    def __init__(self, paths):
        self.crates = {}
        self.fns = {}
        self.adts = {}
        self.consts = {}
        self.hir = {}
        loaded = [_load_facts(p) for p in paths]
        from . import inline as _inline
        allfns = [fn for d in loaded for fn in d['fns']]
        self.inlined = _inline.inline_unknown(allfns, _inline.load_known()) if os.environ.get('GV_NO_INLINE') != '1' else {}
        if os.environ.get('GV_NO_THREAD') != '1':
            inl = set(self.inlined)
            for fn in allfns:
                if fn['path'] in inl:
                    _inline.merge_linear(fn)
                _inline.thread_bool_jumps(fn)
        for d in loaded:
            cn = d['crate']
            self.crates[cn] = d
            for a in d['adts']:
                self.adts[a['path']] = a
            for c in d['consts']:
                self.consts[c['path']] = c
            for fn in d['fns']:
                if fn.get('inlined_away'):
                    continue
                key = fn['path']
                if key in self.fns:  # disambiguate duplicates (cfg'd twins, closures)
                    k = 2
                    while '%s#%d' % (key, k) in self.fns:
                        k += 1
                    key = '%s#%d' % (key, k)
                fn['key'] = key
                fn['crate'] = cn
                self.fns[key] = fn
            for h in d.get('hir', []):
                self.hir.setdefault(h['path'], h)
        self._views = {}
        self._callers = None

    # ---- lookup
    def fn(self, suffix, file=None):
        """Unique function whose normalised path ends with `suffix` (and lives in `file`)."""
        c = self.find_fns(suffix, file)
        if len(c) != 1:
            raise AnchorError('anchor %r%s: expected exactly 1 body, found %d: %s' % (
                suffix, ' in ' + file if file else '', len(c), [x.path for x in c][:6]))
        return c[0]

    def find_fns(self, suffix, file=None):
        out = []
        for k, f in self.fns.items():
            p = norm(f['path'])
            if (p == suffix or p.endswith('::' + suffix)) and (file is None or f['file'].endswith(file)):
                out.append(self.view(k))
        return out

    def fns_in(self, file_suffix):
        return [self.view(k) for k, f in self.fns.items() if f['file'].endswith(file_suffix)]

    def all_fns(self):
        return [self.view(k) for k in self.fns]

    def view(self, key):
        v = self._views.get(key)
        if v is None:
            v = FnView(self, self.fns[key])
            self._views[key] = v
        return v

    def adt(self, suffix):
        c = [a for p, a in self.adts.items() if p == suffix or p.endswith('::' + suffix)]
        if len(c) != 1:
            raise AnchorError('adt anchor %r: expected 1, found %d' % (suffix, len(c)))
        return c[0]

    def const(self, suffix):
        c = [a for p, a in self.consts.items() if p == suffix or p.endswith('::' + suffix)]
        if len(c) != 1:
            raise AnchorError('const anchor %r: expected 1, found %d' % (suffix, len(c)))
        return c[0]

    def variant_names(self, ty):
        h = ty_head(ty)
        if h in STD_VARIANTS:
            return STD_VARIANTS[h]
        a = self.adts.get(h)
        if a and a['kind'] == 'enum':
            return {v['discr']: v['name'] for v in a['variants']}
        return None

    # ---- call graph
    def callers(self):
        """callee key -> list of (FnView caller, bb).  Closures are attached to the body that
        constructs them (edge kind 'closure')."""
        if self._callers is None:
            bypath = {}
            for k, f in self.fns.items():
                bypath.setdefault(f['path'], []).append(k)
            cg = {}
            for k in self.fns:
                v = self.view(k)
                for cs in v.calls():
                    for ck in bypath.get(cs.fn, []):
                        cg.setdefault(ck, []).append((v, cs.bb))
                for (bb, i, st) in v.stmts():
                    rv = st.get('rv')
                    if rv and rv['k'] == 'agg' and 'closure' in rv:
                        for ck in bypath.get(rv['closure'], []):
                            cg.setdefault(ck, []).append((v, bb))
            self._callers = cg
            self._bypath = bypath
        return self._callers

    def callees_of(self, view):
        """Local callee views of a body (direct calls + closures it constructs)."""
        self.callers()
        out = []
        for cs in view.calls():
            for ck in self._bypath.get(cs.fn, []):
                out.append((cs, self.view(ck)))
        for (bb, i, st) in view.stmts():
            rv = st.get('rv')
            if rv and rv['k'] == 'agg' and 'closure' in rv:
                for ck in self._bypath.get(rv['closure'], []):
                    out.append((None, self.view(ck)))
        return out

    def reachable_from(self, roots):
        """Transitive closure over local calls and constructed closures."""
        seen = {}
        work = list(roots)
        for r in roots:
            seen[r.key] = r
        while work:
            v = work.pop()
            for _, c in self.callees_of(v):
                if c.key not in seen:
                    seen[c.key] = c
                    work.append(c)
        return list(seen.values())


class AnchorError(Exception):
    pass


class CallSite:
    __slots__ = ('view', 'bb', 'term', 'fn', 'nfn', 'args', 'dest', 'ln', 'mac', 'src')

    def __init__(self, view, bb, term):
        self.view = view
        self.bb = bb
        self.term = term
        self.fn = term['fn']
        self.nfn = norm(term['fn'])
        self.src = norm(term.get('src', ''))
        self.args = term['args']
        self.dest = term['dest']
        self.ln = term['ln']
        self.mac = term.get('mac', '')

    def is_fn(self, *suffixes):
        for s in suffixes:
            if self.nfn == s or self.nfn.endswith('::' + s) or self.src == s or self.src.endswith('::' + s):
                return True
        return False

    def arg(self, i):
        return self.view.operand_expr(self.args[i], self.bb)

    def loc(self):
        return '%s:%d' % (self.term.get('file', self.view.file), self.ln)

    def __repr__(self):
        return '<call %s @%s in %s>' % (short(self.fn), self.loc(), short(self.view.path))


LOG_MACROS = ('trace', 'debug', 'info', 'warn', 'error', 'log')


def is_log_mac(mac):
    if not mac:
        return False
    parts = mac.split('>')
    return any(p.rstrip('!') in LOG_MACROS or p.rstrip('!').startswith('log::') or p.startswith('$crate::log')
               or p.rstrip('!') in ('format_args', 'log_enabled') and False for p in parts)


class FnView:
    def __init__(self, facts, fn):
        self.facts = facts
        self.f = fn
        self.key = fn['key']
        self.path = fn['path']
        self.file = fn['file']
        self.ln = fn['ln']
        self.blocks = fn['blocks']
        self.locals = fn['locals']
        self.argc = fn['argc']
        self.n = len(self.blocks)
        self.varnames = {}
        self.upvars = {}
        for v in fn['vars']:
            pl = v['pl']
            if not pl['p']:
                if pl['l'] in self.varnames:
                    continue
                nm = v['name']
                used = set(self.varnames.values())
                k = 2
                while nm in used:
                    nm = "%s'%d" % (v['name'], k)
                    k += 1
                self.varnames[pl['l']] = nm
            else:
                # closure upvar: _1.^name or (*_1).^name ...
                self.upvars[(pl['l'], tuple(pl['p']))] = v['name']
        self._defs = None
        self._graph = None
        self._dom = None
        self._calls = None
        self._expr_cache = {}

    def __repr__(self):
        return '<fn %s>' % self.path

    def loc(self, bb=None, ln=None):
        if ln is None and bb is not None:
            ln = self.blocks[bb]['term']['ln']
        return '%s:%s' % (self.file, ln if ln is not None else self.ln)

    # ---------------- iteration
    def live_blocks(self):
        return [i for i, b in enumerate(self.blocks) if not b['cleanup']]

    def stmts(self):
        for i, b in enumerate(self.blocks):
            if b['cleanup']:
                continue
            for j, s in enumerate(b['stmts']):
                yield (i, j, s)

    def calls(self, *suffixes, skip_log=True):
        if self._calls is None:
            cs = []
            for i, b in enumerate(self.blocks):
                if b['cleanup']:
                    continue
                t = b['term']
                if t['k'] == 'call':
                    cs.append(CallSite(self, i, t))
            self._calls = cs
        out = self._calls
        if skip_log:
            out = [c for c in out if not is_log_mac(c.mac)]
        if suffixes:
            out = [c for c in out if c.is_fn(*suffixes)]
        return out

    # ---------------- CFG with edge nodes
    def graph(self):
        """Nodes 0..n-1 are blocks; every switch edge gets its own node >= n so that an edge
        can dominate.  Returns (succ, pred, edgeinfo) with edgeinfo[node] = (bb, value|None,
        excluded values)."""
        if self._graph is None:
            n = self.n
            succ = {i: [] for i in range(n)}
            edge = {}
            nxt = n
            resume = {}
            if self.f.get('coroutine') and self.blocks and self.blocks[0]['term']['k'] == 'switch':
                # Coroutine state machine: bb0 dispatches on the saved state.  Re-link every
                # suspension point (state := N; return) to its resume block and keep only the
                # "unresumed" edge of the dispatch, so dominance/reachability follow source order.
                for v, tg in self.blocks[0]['term']['targets']:
                    if v >= 3:
                        resume[v] = tg
            for i, b in enumerate(self.blocks):
                if b['cleanup']:
                    continue
                t = b['term']
                k = t['k']
                if resume and i == 0:
                    start = [tg for v, tg in t['targets'] if v == 0]
                    succ[0] = list(start)
                    continue
                if resume and k == 'return':
                    st = [s for s in b['stmts'] if s['k'] == 'setdiscr' and s.get('vi') in resume]
                    if st:
                        succ[i].append(resume[st[-1]['vi']])
                        continue
                if k == 'switch':
                    vals = [v for v, _ in t['targets']]
                    for v, tg in t['targets']:
                        succ[nxt] = [tg]
                        succ[i].append(nxt)
                        edge[nxt] = (i, v, None)
                        nxt += 1
                    succ[nxt] = [t['otherwise']]
                    succ[i].append(nxt)
                    edge[nxt] = (i, None, tuple(vals))
                    nxt += 1
                elif k in ('goto', 'call', 'assert', 'drop', 'yield'):
                    if t.get('t') is not None:
                        succ[i].append(t['t'])
            pred = {i: [] for i in succ}
            for a, ss in succ.items():
                for s in ss:
                    pred[s].append(a)
            self._graph = (succ, pred, edge)
        return self._graph

    def reach(self, start_nodes, avoid=()):
        """Forward reachability over graph nodes, never entering `avoid` nodes."""
        succ, _, _ = self.graph()
        avoid = set(avoid)
        seen = set()
        work = [s for s in start_nodes if s not in avoid]
        seen.update(work)
        while work:
            a = work.pop()
            for s in succ[a]:
                if s not in seen and s not in avoid:
                    seen.add(s)
                    work.append(s)
        return seen

    def successors_after(self, bb):
        succ, _, _ = self.graph()
        return succ[bb]

    def exits(self):
        succ, _, _ = self.graph()
        return [i for i in self.live_blocks() if self.blocks[i]['term']['k'] == 'return' and not succ[i]]

    def dominators(self):
        """dom[node] = bitset (python int) of nodes dominating node (including itself)."""
        if self._dom is None:
            succ, pred, _ = self.graph()
            reach = self.reach([0])
            order = []
            seen = set()

            def dfs(r):
                stack = [(r, iter(succ[r]))]
                seen.add(r)
                while stack:
                    nd, it = stack[-1]
                    adv = False
                    for s in it:
                        if s not in seen:
                            seen.add(s)
                            stack.append((s, iter(succ[s])))
                            adv = True
                            break
                    if not adv:
                        order.append(nd)
                        stack.pop()
            dfs(0)
            order.reverse()
            full = 0
            for nd in reach:
                full |= (1 << nd)
            dom = {nd: full for nd in reach}
            dom[0] = 1
            changed = True
            while changed:
                changed = False
                for nd in order:
                    if nd == 0:
                        continue
                    new = full
                    for p in pred[nd]:
                        if p in dom:
                            new &= dom[p]
                    new |= (1 << nd)
                    if new != dom[nd]:
                        dom[nd] = new
                        changed = True
            self._dom = dom
        return self._dom

    def dominates(self, a, b):
        d = self.dominators()
        return b in d and bool(d[b] >> a & 1)

    # ---------------- definitions / expressions
    def defs(self):
        if self._defs is None:
            d = {}
            for i, b in enumerate(self.blocks):
                if b['cleanup']:
                    continue
                for j, s in enumerate(b['stmts']):
                    l = s['lhs']['l']
                    if s['lhs']['p'] and s['lhs']['p'][0] == '*':
                        continue    # a store through a reference does not redefine the reference
                    d.setdefault(l, []).append(('stmt', i, j, s))
                t = b['term']
                if t['k'] == 'call':
                    d.setdefault(t['dest']['l'], []).append(('call', i, None, t))
            self._defs = d
        return self._defs

    def single_def(self, local):
        ds = self.defs().get(local, [])
        if len(ds) != 1:
            return None
        kind, i, j, s = ds[0]
        if kind == 'stmt':
            if s['k'] != 'assign' or s['lhs']['p']:
                return None
        else:
            if s['dest']['p']:
                return None
        return ds[0]

    def local_expr(self, l, depth=0, through_named=True):
        key = (l, through_named)
        if key in self._expr_cache:
            return self._expr_cache[key]
        if depth > 40:
            return ('phi', l)
        self._expr_cache[key] = ('phi', l)  # cycle guard
        e = self._local_expr(l, depth, through_named)
        self._expr_cache[key] = e
        return e

    def _local_expr(self, l, depth, through_named):
        name = self.varnames.get(l)
        if 1 <= l <= self.argc:
            return ('var', name or ('arg%d' % l), ())
        if name and (not through_named or self.locals[l].get('mut')):
            return ('var', name, ())
        sd = self.single_def(l)
        if sd is None:
            if name:
                return ('var', name, ())
            if l == 0:
                return ('var', '<ret>', ())
            # several definitions that all denote the same value (e.g. a captured reference
            # reloaded after each suspension point of a coroutine)
            ds = self.defs().get(l, [])
            if 1 < len(ds) <= 8 and depth < 30 and all(k == 'stmt' and s['k'] == 'assign' and not s['lhs']['p'] and s['rv']['k'] in ('use', 'ref') for k, i, j, s in ds):
                es = [self.rvalue_expr(s['rv'], i, depth + 1) for k, i, j, s in ds]
                if all(e == es[0] for e in es) and es[0][0] in ('var',):
                    return es[0]
            return ('phi', l)
        kind, i, j, s = sd
        if kind == 'call':
            args = tuple(self.operand_expr(a, i, depth + 1) for a in s['args'])
            return ('call', norm(s['fn']), args, i)
        if name and self._is_snapshot_of_mut_self(s['rv']):
            # `let start = self.cursor;` is a snapshot of state that is mutated later: keep the name
            return ('var', name, ())
        return self.rvalue_expr(s['rv'], i, depth + 1)

    def _is_snapshot_of_mut_self(self, rv):
        if rv['k'] != 'use' or rv['op']['k'] not in ('copy', 'move'):
            return False
        pl = rv['op']['pl']
        if pl['l'] != 1 or self.argc < 1 or not pl['p']:
            return False
        if not self.locals[1]['ty'].startswith('&mut '):
            return False
        return self.varnames.get(1) == 'self'

    def phi_defs(self, l):
        """All definitions (bb, expr) of a multiply-assigned local."""
        out = []
        for kind, i, j, s in self.defs().get(l, []):
            if kind == 'call':
                out.append((i, ('call', norm(s['fn']), tuple(self.operand_expr(a, i) for a in s['args']), i)))
            elif s['k'] == 'assign' and not s['lhs']['p']:
                out.append((i, self.rvalue_expr(s['rv'], i)))
        return out

    def rvalue_expr(self, rv, bb, depth=0):
        k = rv['k']
        if k == 'use':
            return self.operand_expr(rv['op'], bb, depth)
        if k in ('ref', 'rawptr'):
            return self.place_expr(rv['pl'], depth)
        if k == 'cast':
            inner = self.operand_expr(rv['op'], bb, depth)
            # Box<T> deref at mir-opt-level 0: (box.0.pointer as *const T) -> box
            if inner[0] in ('var', 'proj') and tuple(inner[2][-2:]) == ('.0', '.pointer') and rv['ty'].startswith('*const'):
                rest = tuple(inner[2][:-2])
                if inner[0] == 'var':
                    return ('var', inner[1], rest)
                return ('proj', inner[1], rest) if rest else inner[1]
            return ('cast', inner, rv['ty'])
        if k == 'bin':
            return ('bin', rv['op'], self.operand_expr(rv['a'], bb, depth), self.operand_expr(rv['b'], bb, depth))
        if k == 'un':
            return ('un', rv['op'], self.operand_expr(rv['a'], bb, depth))
        if k == 'discr':
            return ('discr', self.place_expr(rv['pl'], depth), rv['ty'])
        if k == 'agg':
            ops = tuple(self.operand_expr(o, bb, depth) for o in rv['ops'])
            fields = rv.get('fields') or [str(i) for i in range(len(ops))]
            return ('agg', rv['adt'], rv.get('variant', rv.get('closure', '')), tuple(zip(fields, ops)))
        if k == 'repeat':
            return ('repeat', self.operand_expr(rv['op'], bb, depth))
        return ('other', rv.get('dbg', k))

    def operand_expr(self, op, bb=None, depth=0):
        k = op['k']
        if k in ('copy', 'move'):
            return self.place_expr(op['pl'], depth)
        if k == 'const':
            if 'fn' in op:
                return ('fnref', norm(op['fndef']))
            if 'promoted' in op:
                pe = self.promoted_expr(op['promoted'])
                if pe is not None:
                    return pe
            return ('const', op.get('val'), op.get('name'), op.get('ty'))
        return ('other', k)

    def promoted_expr(self, idx):
        proms = self.f.get('promoted') or []
        if idx >= len(proms):
            return None
        pv = PromotedView(self, proms[idx])
        return pv.value()

    def place_expr(self, pl, depth=0):
        l = pl['l']
        projs = [p for p in pl['p']]
        # locals saved in a coroutine frame keep their debug names
        if self.upvars:
            for n in range(len(projs), 0, -1):
                nm = self.upvars.get((l, tuple(projs[:n])))
                if nm is not None:
                    return ('var', nm, tuple(p for p in projs[n:] if p != '*'))
        # closure upvars: `.^<captured place>` restarts the path at the captured variable
        for n, pj in enumerate(projs):
            if pj.startswith('.^'):
                cap = pj[2:].replace('*', '').replace('(', '').replace(')', '')
                segs = cap.split('.')
                rest = tuple('.' + s for s in segs[1:]) + tuple(p for p in projs[n + 1:] if p != '*')
                return ('var', segs[0], rest)
        base = self.local_expr(l, depth + 1)
        rest = tuple(p for p in projs if p != '*')
        if not rest:
            return base
        if base[0] == 'var':
            return ('var', base[1], base[2] + rest)
        if base[0] == 'proj':
            return ('proj', base[1], base[2] + rest)
        # field of a freshly built aggregate
        if base[0] == 'agg' and rest and rest[0].startswith('.'):
            for fname, fe in base[3]:
                if '.' + fname == rest[0]:
                    if len(rest) == 1:
                        return fe
                    if fe[0] == 'var':
                        return ('var', fe[1], fe[2] + rest[1:])
                    return ('proj', fe, rest[1:])
        return ('proj', base, rest)

    # ---------------- guards
    def edge_atom(self, node):
        """Normalised atom for a switch-edge node: ('truth', E, bool) or
        ('variant', E, frozenset(names), positive) or ('value', E, v|None, excluded)."""
        _, _, edge = self.graph()
        bb, val, excl = edge[node]
        t = self.blocks[bb]['term']
        e = self.operand_expr(t['op'], bb)
        ty = t['ty']
        return self._atom(e, ty, val, excl)

    def _atom(self, e, ty, val, excl):
        if ty == 'bool':
            if val is not None:
                truth = bool(val)
            else:
                truth = not bool(excl[0]) if len(excl) == 1 else True
            return normalize_truth(e, truth)
        if e[0] == 'discr':
            names = self.facts.variant_names(e[2])
            if names:
                if val is not None:
                    return ('variant', e[1], frozenset([names.get(val, '#%s' % val)]), True)
                allv = set(names.values())
                ex = set(names.get(v, '#%s' % v) for v in excl)
                return ('variant', e[1], frozenset(allv - ex), True)
        return ('value', e, val, excl)

    def guards(self, node, keep_log=False):
        """Atoms of all switch edges that dominate graph node `node` (a block index)."""
        dom = self.dominators()
        if node not in dom:
            return []
        _, _, edge = self.graph()
        out = []
        bits = dom[node]
        for en in edge:
            if bits >> en & 1:
                a = self.edge_atom(en)
                if not keep_log and _is_log_atom(a):
                    continue
                out.append(a)
        return out

    def guard_edges(self, node):
        dom = self.dominators()
        if node not in dom:
            return []
        _, _, edge = self.graph()
        bits = dom[node]
        return [en for en in edge if bits >> en & 1]

    # ---------------- writes
    def field_writes(self):
        """Direct assignments `place := rv` whose place has a field projection.
        yields (bb, stmt, placeE, rvE)."""
        for (i, j, s) in self.stmts():
            if s['k'] != 'assign':
                continue
            if not s['lhs']['p']:
                continue
            pe = self.place_expr(s['lhs'])
            yield (i, s, pe, self.rvalue_expr(s['rv'], i))
        # `x.take()` leaves None behind: report it as the write `x := None` it is
        for cs in self.calls(skip_log=True):
            if short(cs.nfn) == 'Option::take' and len(cs.args) == 1:
                pe = cs.arg(0)
                if pe[0] in ('var', 'proj') and pe[2]:
                    yield (cs.bb, {'k': 'assign', 'ln': cs.ln, 'synthetic': 'take'}, pe, ('agg', 'std::option::Option', 'None', ()))


def _is_log_atom(a):
    r = show_atom(a)
    return 'STATIC_MAX_LEVEL' in r or 'log::max_level' in r or 'max_level()' in r


class PromotedView:
    """A promoted constant body: tiny MIR that builds a value and returns a reference to it."""

    def __init__(self, parent, blocks):
        self.parent = parent
        self.blocks = blocks

    def value(self):
        assigns = {}
        for b in self.blocks:
            for s in b['stmts']:
                if s['k'] == 'assign' and not s['lhs']['p']:
                    assigns[s['lhs']['l']] = s['rv']

        def ev(rv, d=0):
            if d > 10:
                return None
            k = rv['k']
            if k in ('ref',):
                pl = rv['pl']
                if pl['l'] in assigns and not pl['p']:
                    return ev(assigns[pl['l']], d + 1)
                return None
            if k == 'use':
                op = rv['op']
                if op['k'] == 'const':
                    return ('const', op.get('val'), op.get('name'), op.get('ty'))
                pl = op['pl']
                if pl['l'] in assigns and not pl['p']:
                    return ev(assigns[pl['l']], d + 1)
                return None
            if k == 'agg':
                ops = []
                for o in rv['ops']:
                    if o['k'] == 'const':
                        ops.append(('const', o.get('val'), o.get('name'), o.get('ty')))
                    elif o['pl']['l'] in assigns and not o['pl']['p']:
                        ops.append(ev(assigns[o['pl']['l']], d + 1) or ('other', '?'))
                    else:
                        ops.append(('other', '?'))
                fields = rv.get('fields') or [str(i) for i in range(len(ops))]
                return ('agg', rv['adt'], rv.get('variant', ''), tuple(zip(fields, ops)))
            return None
        if 0 in assigns:
            return ev(assigns[0])
        return None


def normalize_truth(e, truth):
    """Push negations / ne into the polarity; canonicalise comparisons."""
    while True:
        if e[0] == 'un' and e[1] == 'Not':
            e = e[2]
            truth = not truth
            continue
        if e[0] == 'call' and (short(e[1]) == 'PartialEq::ne' or e[1].endswith('::ne')) and len(e[2]) == 2:
            e = ('eq', e[2][0], e[2][1])
            truth = not truth
            continue
        if e[0] == 'call' and (short(e[1]) == 'PartialEq::eq' or e[1].endswith('::eq')) and len(e[2]) == 2:
            e = ('eq', e[2][0], e[2][1])
            continue
        if e[0] == 'bin' and e[1] == 'Ne':
            e = ('eq', e[2], e[3])
            truth = not truth
            continue
        if e[0] == 'bin' and e[1] == 'Eq':
            e = ('eq', e[2], e[3])
            continue
        if e[0] == 'bin' and e[1] in ('Lt', 'Le', 'Gt', 'Ge'):
            op, a, b = e[1], e[2], e[3]
            # canonical: only Lt / Le with positive polarity: a < b, a <= b
            if op == 'Gt':
                op, a, b = 'Lt', b, a
            elif op == 'Ge':
                op, a, b = 'Le', b, a
            if not truth:
                # !(a < b) == b <= a ; !(a <= b) == b < a
                op = 'Le' if op == 'Lt' else 'Lt'
                a, b = b, a
                truth = True
            e = ('cmp', op, a, b)
            break
        if e[0] == 'call' and len(e[2]) == 2:
            m = re.search(r'PartialOrd::(lt|le|gt|ge)$', short(e[1]))
            if m:
                e = ('bin', {'lt': 'Lt', 'le': 'Le', 'gt': 'Gt', 'ge': 'Ge'}[m.group(1)], e[2][0], e[2][1])
                continue
        break
    # `x.is_some()` / `x.is_none()` / `r.is_ok()` / `r.is_err()` are the same tests as matching on the variant:
    # render both as the variant atom `x is Some` so that `if x.is_some() { x.unwrap() }` and `if let Some(v) = x` look alike
    if e[0] == 'call' and len(e[2]) == 1:
        sn = short(e[1])
        pol = {'Option::is_some': ('Some', 'None'), 'Option::is_none': ('None', 'Some'), 'Result::is_ok': ('Ok', 'Err'), 'Result::is_err': ('Err', 'Ok')}.get(sn)
        if pol:
            return ('variant', e[2][0], frozenset([pol[0] if truth else pol[1]]), True)
    return ('truth', e, truth)


# ---------------- rendering / matching helpers
def show(e, depth=0):
    if e is None:
        return '?'
    k = e[0]
    if depth > 8:
        return '…'
    if k == 'var':
        return e[1] + ''.join(e[2])
    if k == 'proj':
        return '(' + show(e[1], depth + 1) + ')' + ''.join(e[2])
    if k == 'call':
        return short(e[1]) + '(' + ', '.join(show(a, depth + 1) for a in e[2]) + ')'
    if k == 'const':
        if e[2]:
            return short(e[2], 1)
        if isinstance(e[1], dict) and 'static' in e[1]:
            return short(e[1]['static'], 1)
        return repr(e[1]) if not isinstance(e[1], dict) else json.dumps(e[1])
    if k == 'fnref':
        return 'fn:' + short(e[1])
    if k == 'bin':
        return '(' + show(e[2], depth + 1) + ' ' + e[1] + ' ' + show(e[3], depth + 1) + ')'
    if k == 'un':
        return e[1] + '(' + show(e[2], depth + 1) + ')'
    if k == 'discr':
        return 'discr(' + show(e[1], depth + 1) + ')'
    if k == 'cast':
        return show(e[1], depth + 1) + ' as ' + e[2]
    if k == 'agg':
        nm = short(e[1], 1) + ('::' + e[2] if e[2] and e[2] != short(e[1], 1) else '')
        return nm + '{' + ', '.join('%s: %s' % (f, show(v, depth + 1)) for f, v in e[3]) + '}'
    if k == 'eq':
        return '(' + show(e[1], depth + 1) + ' == ' + show(e[2], depth + 1) + ')'
    if k == 'cmp':
        return '(' + show(e[2], depth + 1) + (' < ' if e[1] == 'Lt' else ' <= ') + show(e[3], depth + 1) + ')'
    if k == 'phi':
        return 'phi(_%d)' % e[1]
    return str(e)


def map_expr(e, fn):
    """Bottom-up rewrite of an expression tree: fn(node) -> node."""
    k = e[0]
    if k == 'call':
        e = (e[0], e[1], tuple(map_expr(a, fn) for a in e[2])) + tuple(e[3:])
    elif k == 'bin':
        e = (e[0], e[1], map_expr(e[2], fn), map_expr(e[3], fn)) + tuple(e[4:])
    elif k == 'un':
        e = (e[0], e[1], map_expr(e[2], fn)) + tuple(e[3:])
    elif k in ('discr', 'cast', 'repeat', 'proj'):
        e = (e[0], map_expr(e[1], fn)) + tuple(e[2:])
    elif k == 'agg':
        e = (e[0], e[1], e[2], tuple((f, map_expr(v, fn)) for f, v in e[3])) + tuple(e[4:])
    elif k == 'eq':
        e = (e[0], map_expr(e[1], fn), map_expr(e[2], fn)) + tuple(e[3:])
    elif k == 'cmp':
        e = (e[0], e[1], map_expr(e[2], fn), map_expr(e[3], fn)) + tuple(e[4:])
    return fn(e)


_UNWRAPS = {'Option::unwrap': '@Some', 'Option::expect': '@Some', 'Result::unwrap': '@Ok', 'Result::expect': '@Ok', 'Result::unwrap_err': '@Err'}


def _unwrap_to_proj(e):
    if e[0] == 'call' and e[2] and short(e[1]) in _UNWRAPS:
        base = e[2][0]
        pj = (_UNWRAPS[short(e[1])], '.0')
        if base[0] == 'var':
            return ('var', base[1], tuple(base[2]) + pj)
        if base[0] == 'proj':
            return ('proj', base[1], tuple(base[2]) + pj)
        return ('proj', base, pj)
    return e


def _proj_to_unwrap(e):
    if e[0] in ('var', 'proj') and len(e[2]) >= 2:
        pj = list(e[2])
        for i in range(len(pj) - 1):
            if pj[i] in ('@Some', '@Ok') and pj[i + 1] == '.0':
                head = (e[0], e[1], tuple(pj[:i])) if pj[:i] or e[0] == 'var' else e[1]
                call = ('call', 'std::option::Option::unwrap' if pj[i] == '@Some' else 'std::result::Result::unwrap', (head,), -1)
                rest = tuple(pj[i + 2:])
                return _proj_to_unwrap(('proj', call, rest)) if rest else call
    return e


def atom_renderings(a):
    """All equivalent renderings of a guard atom: as written, with `x.unwrap()` spelled as the variant payload
    `x@Some.0` (what `if let Some(v) = x` / `let .. else` produce), and the other way round."""
    out = [show_atom(a)]
    # emptiness: `q.front() / q.pop_front() / q.first() / h.peek() is Some|None` says the same as `!q.is_empty()` / `q.is_empty()`
    try:
        if a[0] == 'variant' and a[1][0] == 'call' and len(a[1][2]) == 1 and a[2] in (frozenset(['Some']), frozenset(['None'])):
            sn = short(a[1][1])
            cont, meth = sn.split('::')[0], sn.split('::')[-1]
            if meth in ('front', 'back', 'pop_front', 'pop_back', 'pop', 'first', 'last', 'peek', 'peek_lru', 'pop_lru', 'iter_next'):
                q = show(a[1][2][0])
                out.append(('!' if a[2] == frozenset(['Some']) else '') + '%s::is_empty(%s)' % (cont, q))
        if a[0] == 'truth' and a[1][0] == 'call' and len(a[1][2]) == 1 and short(a[1][1]).endswith('::is_empty'):
            cont = short(a[1][1]).split('::')[0]
            q = show(a[1][2][0])
            v = 'None' if a[2] else 'Some'
            for meth in (('front', 'pop_front') if cont == 'VecDeque' else ('first', 'last', 'pop') if cont in ('Vec', 'slice') else ('peek',) if cont == 'BinaryHeap' else ()):
                out.append('%s::%s(%s) is %s' % (cont, meth, q, v))
        if a[0] == 'variant' and a[1][0] == 'call' and len(a[1][2]) == 2 and short(a[1][1]) in ('HashMap::get', 'HashMap::get_mut', 'HashSet::get') and a[2] in (frozenset(['Some']), frozenset(['None'])):
            cont = short(a[1][1]).split('::')[0]
            out.append(('' if a[2] == frozenset(['Some']) else '!') + '%s::contains_key(%s, %s)' % (cont, show(a[1][2][0]), show(a[1][2][1])))
    except Exception:
        pass
    # `x.take()` yields what x held: testing the taken value tests x
    try:
        if a[0] == 'variant' and a[1][0] == 'call' and len(a[1][2]) == 1 and short(a[1][1]) in ('Option::take', 'mem::take'):
            out.append(show_atom(('variant', a[1][2][0]) + tuple(a[2:])))
    except Exception:
        pass
    for fn in (_unwrap_to_proj, _proj_to_unwrap):
        try:
            b = (a[0], map_expr(a[1], fn)) + tuple(a[2:])
            s = show_atom(b)
            if s not in out:
                out.append(s)
        except Exception:
            pass
    return out


def show_atom(a):
    if a[0] == 'truth':
        return ('' if a[2] else '!') + show(a[1])
    if a[0] == 'variant':
        return show(a[1]) + ' is ' + '|'.join(sorted(a[2]))
    return show(a[1]) + (' == %s' % a[2] if a[2] is not None else ' not in %s' % (a[3],))


def subexprs(e):
    """All sub-expressions of e (including e)."""
    yield e
    k = e[0]
    if k == 'call':
        for a in e[2]:
            yield from subexprs(a)
    elif k in ('bin',):
        yield from subexprs(e[2])
        yield from subexprs(e[3])
    elif k in ('un',):
        yield from subexprs(e[2])
    elif k in ('discr', 'cast', 'repeat'):
        yield from subexprs(e[1])
    elif k == 'proj':
        yield from subexprs(e[1])
    elif k == 'agg':
        for _, v in e[3]:
            yield from subexprs(v)
    elif k == 'eq':
        yield from subexprs(e[1])
        yield from subexprs(e[2])
    elif k == 'cmp':
        yield from subexprs(e[2])
        yield from subexprs(e[3])


def mentions(e, pred):
    return any(pred(x) for x in subexprs(e))


def is_var(e, name=None, *projs):
    """e is a path rooted at variable `name` whose projection list ends with `projs`."""
    if e[0] != 'var':
        return False
    if name is not None and e[1] != name:
        return False
    if projs:
        return tuple(e[2][-len(projs):]) == tuple(projs)
    return True


def path_has(e, field):
    """e is a var/proj path containing `.field` anywhere in its projections."""
    if e[0] in ('var', 'proj'):
        return ('.' + field) in e[2]
    return False


def root_field(e):
    """First field projection of a `self.<field>...` path, or None."""
    if e[0] == 'var' and e[1] == 'self' and e[2]:
        return e[2][0][1:] if e[2][0].startswith('.') else None
    return None


def call_is(e, *suffixes):
    if e[0] != 'call':
        return False
    p = e[1]
    return any(p == s or p.endswith('::' + s) for s in suffixes)


def const_val(e):
    if e[0] == 'const':
        return e[1]
    if e[0] == 'cast':
        return const_val(e[1])
    return None


def enum_const(e):
    """('agg', adt, variant, ()) for a unit enum literal -> (adt, variant)."""
    if e[0] == 'agg' and e[1] not in ('(tuple)', '(array)', '(closure)'):
        return (e[1], e[2])
    return None


def fold(e):
    """Constant-fold an expression made of integer constants, casts and arithmetic; None when
    not constant."""
    k = e[0]
    if k == 'const':
        if isinstance(e[1], dict) and 'static' in e[1]:
            return e[1].get('val')
        return e[1] if isinstance(e[1], (int, bool)) else None
    if k == 'cast':
        return fold(e[1])
    if k == 'proj' and e[2] == ('.0',):
        return fold(e[1])
    if k == 'bin':
        a, b = fold(e[2]), fold(e[3])
        if a is None or b is None:
            return None
        a, b = int(a), int(b)
        op = e[1].replace('WithOverflow', '').replace('Unchecked', '')
        try:
            return {'Shl': lambda: a << b, 'Shr': lambda: a >> b, 'BitOr': lambda: a | b, 'BitAnd': lambda: a & b,
                    'Add': lambda: a + b, 'Sub': lambda: a - b, 'Mul': lambda: a * b, 'BitXor': lambda: a ^ b,
                    'Div': lambda: a // b if b else None}.get(op, lambda: None)()
        except Exception:
            return None
    return None


def var_inits(view, name):
    """Direct whole-variable assignments to the user variable `name` (for `mut` locals that
    expression resolution deliberately does not see through; also variables saved in a
    coroutine frame, which are places with projections)."""
    out = []
    for (i, j, s) in view.stmts():
        if s['k'] != 'assign':
            continue
        if not s['lhs']['p']:
            if view.varnames.get(s['lhs']['l']) == name:
                out.append((i, view.rvalue_expr(s['rv'], i)))
        elif view.upvars:
            pe = view.place_expr(s['lhs'])
            if pe == ('var', name, ()):
                out.append((i, view.rvalue_expr(s['rv'], i)))
    for cs in view.calls(skip_log=False):
        if not cs.dest['p']:
            if view.varnames.get(cs.dest['l']) == name:
                out.append((cs.bb, ('call', cs.nfn, tuple(cs.arg(i) for i in range(len(cs.args))), cs.bb)))
        elif view.upvars and view.place_expr(cs.dest) == ('var', name, ()):
            out.append((cs.bb, ('call', cs.nfn, tuple(cs.arg(i) for i in range(len(cs.args))), cs.bb)))
    return out


def var_init_sites(view, name):
    """Like var_inits but with the statement position: (bb, index, expr); a call's position is
    after all statements of its block."""
    out = []
    for i, b in enumerate(view.blocks):
        if b['cleanup']:
            continue
        for j, s in enumerate(b['stmts']):
            if s['k'] != 'assign':
                continue
            if not s['lhs']['p']:
                if view.varnames.get(s['lhs']['l']) == name:
                    out.append((i, j, view.rvalue_expr(s['rv'], i)))
            elif view.upvars and view.place_expr(s['lhs']) == ('var', name, ()):
                out.append((i, j, view.rvalue_expr(s['rv'], i)))
    for cs in view.calls(skip_log=False):
        hit = (not cs.dest['p'] and view.varnames.get(cs.dest['l']) == name) or (cs.dest['p'] and view.upvars and view.place_expr(cs.dest) == ('var', name, ()))
        if hit:
            out.append((cs.bb, len(view.blocks[cs.bb]['stmts']), ('call', cs.nfn, tuple(cs.arg(i) for i in range(len(cs.args))), cs.bb)))
    return out


def happens_before(view, a, b):
    """Site a = (bb, idx) is executed before site b on every path reaching b (same block: by
    statement order; otherwise: block dominance)."""
    if a[0] == b[0]:
        return a[1] < b[1]
    return view.dominates(a[0], b[0])



def sum_terms(e):
    """Flatten `a + b + ...` (checked or plain addition, any association/order) into a sorted list of term renderings."""
    if e[0] == 'proj' and tuple(e[2]) == ('.0',) and e[1][0] == 'bin' and e[1][1] in ('AddWithOverflow', 'Add'):
        return sorted(sum_terms(e[1][2]) + sum_terms(e[1][3]))
    if e[0] == 'bin' and e[1] in ('Add', 'AddWithOverflow'):
        return sorted(sum_terms(e[2]) + sum_terms(e[3]))
    return [show(e)]
