"""Reviewed table of panic-capable sites that no local guard discharges.  Each entry names the
invariant that protects the site; every invariant has maintenance obligations checked by a
rule (column `kept_by`).  Keys are (function regex, kind, construct regex) — never lines.
A site that matches no entry and no automatic idiom is a violation of R-C11-1."""

INVARIANTS = {
    'I1': 'ids stored in the ack tables / intake queues / key snapshots refer to operations that exist (pending tables are purged in both completion points, R-C06-3; ids inserted are ids of existing operations, R-C01-5)',
    'I2': 'the current operation exists at this site: it was looked up successfully earlier in the same service-loop iteration (straight-line code, no completion in between). '
          'NOTE: the stronger claim made here until round 3 ("nothing completes an operation before it is fully written") was false - an ack timeout can fail a PUBREL-phase publish whose PUBREL is '
          'only partially encoded (defect 17, fixed by 3132f67: the lookup in service_queue_aux is now a match, not an unwrap); R-C11-1 obligation `I2|lookup-dominates` checks the remaining sites',
    'I4': 'the CONNACK deadline is Some while PendingConnack (armed on every Ok path of the opened handler, R-C07-1; cleared only on leaving PendingConnack)',
    'I5': 'negotiated settings are Some whenever a non-CONNECT packet is validated or keep-alive is serviced (set at the CONNACK success site, cleared only by reset; R-C11-5)',
    'I6': 'the response handler is present until the operation completes (one-shot, only taken in the deliverers, R-C01-1/2) and the response variant matches the operation kind (R-C01-4/5)',
    'I7': 'operation.packet_id is Some only for Subscribe/Unsubscribe/Publish operations (bind is the only writer of Some and is reached only for those kinds, R-C06-4)',
    'I8': 'slow_start_ack_count is the sum of the per-operation values at CONNACK and each value is subtracted at most once (operation removed on completion), R-C09-4',
    'I9': 'enqueue_operation receives ids of operations created or looked up in the same handler',
    'I10': 'operation ids start at 1 and only increase (R-C10-2)',
    'ENC': 'encoder internal consistency: step processing is bounded by the free capacity (R-C02-6) and the ack length functions return (2,0)/(3,0) exactly in the cases the writer asserts (R-C11-6)',
    'LIB': 'library precondition satisfied by construction (argument derived from the same container)',
    'RC': 'RefCell borrowed for the duration of one resolver call only; resolver implementations do not call back into the engine',
    'DRV': 'driver invariant: the connected loop runs only after process_connecting stored the stream (R-C11-8); a result sender is applied at most once (FnOnce handler, or the failed-send path on which the handler never runs)',
    'CLI': 'client-impl invariant maintained by the state machine of transition_to_state (checked in C12)',
}

# (function regex, kind, construct regex, invariant)
TABLE = [
    (r'_outbound_internal$|is_valid_topic_filter_internal$', 'unwrap', r'^Option::unwrap\(context\.negotiated_settings\)$', 'I5'),
    (r'ProtocolState::service_keep_alive$', 'unwrap', r'^Option::unwrap\(Option::as_ref\(self\.current_settings\)\)$', 'I5'),
    (r'ProtocolState::(service_pending_connack|get_next_service_timepoint_pending_connack)$', 'unwrap', r'^Option::unwrap\(self\.connack_timeout_timepoint\)$', 'I4'),
    (r'ProtocolState::(handle_suback|handle_unsuback|handle_pubcomp)$', 'unwrap', r'^Option::unwrap\(HashMap::get(_mut)?\(self\.operations, \(HashMap::get\(self\.pending_(non_)?publish_operations, .*\)\)@Some\.0\)\)$', 'I1'),
    (r'ProtocolState::(apply_slow_start_initialization|update_interrupted_retries|initialize_slow_start)$', 'unwrap', r"^Option::unwrap\(HashMap::get(_mut)?\(self\.operations, \(Iterator::next\(iter('\d)?\)\)@Some\.0\)\)$", 'I1'),
    (r'fail_operations_exceeding_max_interruption_limit::\{closure#\d\}$', 'unwrap', r'^Option::unwrap\(HashMap::get\(self\.operations, val\)\)$', 'I1'),
    (r'partition_operation_queue_by_queue_policy::\{closure#1\}$', 'unwrap', r'^Option::unwrap\(HashMap::get\(self\.operations, id\)\)$', 'LIB'),
    (r'ProtocolState::acquire_packet_id_for_operation$', 'unwrap', r'^Option::unwrap\(HashMap::get(_mut)?\(self\.operations, operation_id\)\)$', 'I2'),
    (r'ProtocolState::on_current_operation_fully_written$', 'unwrap', r'^Option::unwrap\(self\.current_operation\)$', 'I2'),
    (r'ProtocolState::on_current_operation_fully_written$', 'unwrap', r'^Option::unwrap\(HashMap::get_mut\(self\.operations, Option::unwrap\(self\.current_operation\)\)\)$', 'I2'),
    (r'ProtocolState::handle_pubcomp$', 'panic', r'^pending publish operation is not a publish$', 'I1'),
    (r'ClientOperation::(bind|unbind)_packet_id$', 'panic', r'^Invalid packet type for packet id (un)?binding$', 'I7'),
    (r'ProtocolState::apply_ackable_completion$', 'panic', r'slow start operation count', 'I8'),
    (r'ProtocolState::enqueue_operation$', 'panic', r'^Attempt to enqueue a non-existent operation$', 'I9'),
    (r'ProtocolState::handle_user_event$', 'assert', r'.*', 'I10'),
    (r'protocol::complete_operation_with_(result|error)$', 'unwrap', r'^Option::unwrap\(Option::take\(operation_options@\w+\.0\.response_handler\)\)$', 'I6'),
    (r'protocol::complete_operation_with_result$', 'unwrap', r'^Option::unwrap\(completion_result\)$', 'I6'),
    (r'protocol::sort_operation_deque$', 'lib-precondition', r'^VecDeque::rotate_right\(operations, slice::len\(\(VecDeque::as_slices\(operations\)\)\.1\)\)$', 'LIB'),
    (r'encode::process_byte_slice_encoding$', 'unwrap', r'^Option::unwrap\(slice::get\(bytes, Range\{start: offset, end: \(\(offset AddWithOverflow Ord::min\(', 'ENC'),
    (r'Encoder::encode$', 'panic', r'^Encoder::encode: encoding logic resized dest buffer$', 'ENC'),
    (r'Encoder::encode$', 'panic', r'^Encoder::encode - target buffer too small$', 'ENC'),
    (r'::write_(puback|pubrec|pubrel|pubcomp|disconnect)_encoding_steps5$', 'assert', r'.*', 'ENC'),
    (r'ProtocolState::(compute_outbound_alias_resolution|handle_connack)$', 'refcell', r'^RefCell::borrow_mut\(self\.outbound_alias_resolver\)$', 'RC'),
    (r'LruOutboundAliasResolver::new$', 'unwrap', r'^Option::unwrap\(NonZero::new\(Ord::max\(1, maximum_alias_value\) as usize\)\)$', 'LIB'),
    (r'LruOutboundAliasResolver::resolve_topic_alias$', 'panic', r'^Illegal state in LRU outbound topic alias resolver$', 'LIB'),
    (r'MqttClientImpl::emit_connection_success_event$', 'unwrap', r'^Option::unwrap\(Option::as_ref\((ProtocolState::get_negotiated_settings\(self\.protocol_state\)|self\.last_connack)\)\)$', 'CLI'),
    (r'MqttClientImpl::transition_to_state$', 'unwrap', r'^Option::unwrap\(self\.last_start_connect_time\)$', 'CLI'),
    (r'ClientRuntimeState::process_connected(::\{closure#0\})?$', 'unwrap', r'^Option::unwrap\(Option::take\(self\.stream\)\)$', 'DRV'),
    (r'ClientRuntimeState::process_connected(::\{closure#0\})?$', 'index', r'^inbound_data\[RangeTo\{end: .*@Ok\.0\}\]$', 'LIB'),
    (r'ws_stream::MessageCursor::read$', 'index', r'^(dest|self\.data)\[Range(To)?\{', 'LIB'),
    (r'ws_stream::MessageCursor::read$', 'lib-precondition', r'^slice::copy_from_slice\(', 'LIB'),
    (r'SyncResultSender::apply$|SyncResultReceiver::(recv|try_recv)$', 'unwrap', r'^Result::unwrap\((Mutex::lock|Condvar::wait)\(', 'LIB'),
    (r'SyncResultReceiver::recv$', 'unwrap', r'^Option::unwrap\(Option::take\(', 'LIB'),
    (r'SyncResultSender::apply$', 'panic', r'^Cannot set operation result twice!$', 'DRV'),
    (r'\{closure#0\}::\{closure#\d\}$', 'panic', r'^internal error: entered unreachable code: reaching this means there pr', 'LIB'),
]
