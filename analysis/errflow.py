"""T8 error-origin flow: which `GneissError::new_*` constructor sites (and which local callees'
errors) can flow into a function's returned `Err`.  Inter-procedural fixpoint over local
callees; a value "flows to the return" when it occurs in an expression assigned to the return
place, possibly through named result variables (`result = fold_mqtt_result(result, f())`) and
`?` residuals."""
import re
from .mir import show, short, norm, subexprs, var_inits
from . import prims


def _ret_exprs(view):
    """Expressions that may be returned, expanded through named variables (depth-limited)."""
    out = []
    seen = set()
    work = [e for _, e in prims.ret_variants(view)]
    # `?` : from_residual(Try::branch(X)@Break) writes the return place through a call
    for cs in view.calls('FromResidual::from_residual', 'from_residual'):
        if cs.dest['l'] == 0:
            work.append(cs.arg(0))
    depth = 0
    while work and depth < 200:
        depth += 1
        e = work.pop()
        k = repr(e)
        if k in seen:
            continue
        seen.add(k)
        out.append(e)
        for x in subexprs(e):
            if x[0] == 'var' and not x[2]:
                for _, ie in var_inits(view, x[1]):
                    work.append(ie)
            elif x[0] == 'phi':
                for _, ie in view.phi_defs(x[1]):
                    work.append(ie)
    return out


def origins(F, view, _memo=None, _stack=None):
    """Set of (function path, constructor name) that can reach `view`'s Err return."""
    _memo = _memo if _memo is not None else {}
    _stack = _stack if _stack is not None else set()
    if view.key in _memo:
        return _memo[view.key]
    if view.key in _stack:
        return set()
    _stack.add(view.key)
    out = set()
    PASS = ('Try::branch', 'FromResidual::from_residual', 'error::fold_mqtt_result', 'From::from', 'Into::into', 'Result::map_err',
            'Iterator::fold', 'Result::and', 'Result::or', 'Result::and_then')

    def walk(e, d=0):
        if d > 30 or e is None:
            return
        k = e[0]
        if k == 'call':
            fn = e[1]
            sh = short(fn)
            if re.search(r'GneissError::new_\w+$', fn):
                out.add((norm(view.path), fn.split('::')[-1]))
                return
            if 'GneissError' in fn and sh in ('From::from',):
                out.add((norm(view.path), 'From::from'))
                return
            if any(sh == p_ or fn.endswith(p_) for p_ in PASS):
                for a in e[2]:
                    walk(a, d + 1)
                return
            if not fn.startswith('std::') and not fn.startswith('core::'):
                for cv in F.find_fns(fn):
                    ty = cv.locals[0]['ty']
                    if 'GneissError' in ty or 'Result' in ty:
                        out.update(origins(F, cv, _memo, _stack))
            return
        if k == 'agg':
            if e[1] == '(closure)':
                for cv in F.find_fns(norm(e[2])):
                    out.update(origins(F, cv, _memo, _stack))
                return
            for _, x in e[3]:
                walk(x, d + 1)
            return
        if k in ('proj', 'cast', 'discr', 'repeat'):
            walk(e[1], d + 1)
            return
        if k == 'un':
            walk(e[2], d + 1)
            return
        if k == 'bin':
            walk(e[2], d + 1)
            walk(e[3], d + 1)
            return
    for e in _ret_exprs(view):
        walk(e)
    _stack.discard(view.key)
    _memo[view.key] = out
    return out
