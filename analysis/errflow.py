"""T8 error-origin flow: which `GneissError::new_*` constructor sites (and which local callees'
errors) can flow into a function's returned `Err`.  Inter-procedural fixpoint over local
callees; a value "flows to the return" when it occurs in an expression assigned to the return
place, possibly through named result variables (`result = fold_mqtt_result(result, f())`) and
`?` residuals."""
import re
from .mir import show, short, norm, subexprs, var_inits
from . import prims


def _ret_exprs(view):
    """Expressions that may be returned, expanded through named variables (depth-limited)."""
    out = []
    seen = set()
    work = [e for _, e in prims.ret_variants(view)]
    # `?` : from_residual(Try::branch(X)@Break) writes the return place through a call
    for cs in view.calls('FromResidual::from_residual', 'from_residual'):
        if cs.dest['l'] == 0:
            work.append(cs.arg(0))
    for e in work:
        out.append(e)
    return out


_CTOR = {}


def ctor_variant(F, ctor_name):
    """`new_user_initiated_disconnect` -> `UserInitiatedDisconnect` (from the constructor's body)."""
    if ctor_name in _CTOR:
        return _CTOR[ctor_name]
    v = None
    for cv in F.find_fns('error::GneissError::' + ctor_name):
        for _, e in prims.ret_variants(cv):
            if e[0] == 'agg' and e[1].endswith('GneissError'):
                v = e[2]
    _CTOR[ctor_name] = v
    return v


def passthrough_params(F, view):
    """[(param index, {error variants mapped to Ok})] for parameters the function may return."""
    out = []
    names = {view.varnames.get(i): i - 1 for i in range(1, view.argc + 1)}
    rets = prims.ret_variants(view)
    for b, e in rets:
        if e[0] == 'var' and not e[2] and e[1] in names:
            filtered = set()
            for b2, e2 in rets:
                if e2[0] == 'agg' and e2[2] == 'Ok':
                    for g in prims.guard_strs(view, b2):
                        m = re.match(r'^' + re.escape(e[1]) + r'@Err\.0 is ([\w|]+)$', g)
                        if m:
                            filtered |= set(m.group(1).split('|'))
            out.append((names[e[1]], filtered))
    return out


def origins(F, view, _memo=None, _stack=None):
    """Set of (function path, constructor name) that can reach `view`'s Err return."""
    _memo = _memo if _memo is not None else {}
    _stack = _stack if _stack is not None else set()
    if view.key in _memo:
        return _memo[view.key]
    if view.key in _stack:
        return set()
    _stack.add(view.key)
    out = set()
    PASS = ('Try::branch', 'FromResidual::from_residual', 'error::fold_mqtt_result', 'From::from', 'Into::into', 'Result::map_err',
            'Iterator::fold', 'Result::and', 'Result::or', 'Result::and_then')

    seen_vars = set()

    def walk(e, d=0):
        if d > 40 or e is None:
            return
        k = e[0]
        if k == 'var' and not e[2]:
            if e[1] in seen_vars:
                return
            seen_vars.add(e[1])
            for _, ie in var_inits(view, e[1]):
                walk(ie, d + 1)
            seen_vars.discard(e[1])
            return
        if k == 'phi':
            key = ('phi', e[1])
            if key in seen_vars:
                return
            seen_vars.add(key)
            for _, ie in view.phi_defs(e[1]):
                walk(ie, d + 1)
            seen_vars.discard(key)
            return
        if k == 'call':
            fn = e[1]
            sh = short(fn)
            if re.search(r'GneissError::new_\w+$', fn):
                out.add((norm(view.path), fn.split('::')[-1]))
                return
            if 'GneissError' in fn and sh in ('From::from',):
                out.add((norm(view.path), 'From::from'))
                return
            if sh in ('FnOnce::call_once', 'FnMut::call_mut', 'Fn::call'):
                # a callback: a local closure is followed, anything else (a boxed user / driver
                # handler) is an opaque origin — its error is not under the engine's control
                a0 = e[2][0] if e[2] else None
                if a0 is not None and a0[0] == 'agg' and a0[1] == '(closure)':
                    walk(a0, d + 1)
                else:
                    out.add((norm(view.path), 'callback-result'))
                return
            if any(sh == p_ or fn.endswith(p_) for p_ in PASS):
                for a in e[2]:
                    walk(a, d + 1)
                return
            if not fn.startswith('std::') and not fn.startswith('core::'):
                for cv in F.find_fns(fn):
                    ty = cv.locals[0]['ty']
                    if 'GneissError' in ty or 'Result' in ty:
                        out.update(origins(F, cv, _memo, _stack))
                        # a callee that may return one of its parameters passes that argument's
                        # origins through, except the error variants it explicitly maps to Ok
                        for pi, filtered in passthrough_params(F, cv):
                            if pi < len(e[2]):
                                sub = set()
                                saved = set(out)
                                out.clear()
                                walk(e[2][pi], d + 1)
                                sub = set(out)
                                out.clear()
                                out.update(saved)
                                for o in sub:
                                    if ctor_variant(F, o[1]) not in filtered:
                                        out.add(o)
            return
        if k == 'agg':
            if e[1] == '(closure)':
                for cv in F.find_fns(norm(e[2])):
                    out.update(origins(F, cv, _memo, _stack))
                return
            for _, x in e[3]:
                walk(x, d + 1)
            return
        if k in ('proj', 'cast', 'discr', 'repeat'):
            walk(e[1], d + 1)
            return
        if k == 'un':
            walk(e[2], d + 1)
            return
        if k == 'bin':
            walk(e[2], d + 1)
            walk(e[3], d + 1)
            return
    for e in _ret_exprs(view):
        walk(e)
    _stack.discard(view.key)
    _memo[view.key] = out
    return out
