// Side note (pristine tree, not part of seeds A/B): append to gneiss-mqtt/src/testing/protocol.rs.
// An ack timeout that fires for a QoS 2 publish whose PUBREL is the partially encoded current operation
// removes the operation but leaves current_operation set; the next service() panics at
// protocol.rs:1439 (`self.operations.get(&self.current_operation.unwrap()).unwrap()`).
#[cfg(test)]
mod scratch_side_note {
    use super::*;

    #[test]
    fn scratch_timeout_of_current_pubrel() {
        let mut fixture = ProtocolStateTestFixture::new(build_standard_test_config(5));
        assert!(fixture.advance_disconnected_to_state(ProtocolStateType::Connected, 0).is_ok());
        let publish = PublishPacket { topic: "a".to_string(), qos: QualityOfService::ExactlyOnce, ..Default::default() };
        let receiver = fixture.publish(0, publish, PublishOptions::builder().with_ack_timeout(Duration::from_secs(30)).build()).unwrap();
        // publish -> pubrec
        assert!(fixture.service_round_trip(0, 10, 4096).is_ok());
        assert_eq!(1, fixture.client_state.high_priority_operation_queue.len());
        // pubrel only partially written (4 byte socket buffer => 1 byte), at the time the ack timeout is due
        let bytes = fixture.service_once(30000, 4).unwrap();
        assert_eq!(1, bytes.len());
        assert!(receiver.try_recv().unwrap().is_err()); // AckTimeout delivered, operation removed
        assert!(fixture.on_write_completion(30001).is_ok());
        let _ = fixture.service_once(30002, 4096); // panics: Option::unwrap() on None at protocol.rs:1439
    }
}
