
#[cfg(test)]
mod gv_d3_repro {
    use super::*;
    use std::sync::{Arc, Mutex};
    use tungstenite::protocol::Role;

    // a transport that refuses the first write with WouldBlock (full send buffer) and accepts everything afterwards
    struct StingyStream { written: Arc<Mutex<Vec<u8>>>, refusals_left: usize }
    impl Read for StingyStream { fn read(&mut self, _: &mut [u8]) -> std::io::Result<usize> { Err(std::io::Error::new(ErrorKind::WouldBlock, "no data")) } }
    impl Write for StingyStream {
        fn write(&mut self, buf: &[u8]) -> std::io::Result<usize> {
            if self.refusals_left > 0 { self.refusals_left -= 1; return Err(std::io::Error::new(ErrorKind::WouldBlock, "full")); }
            self.written.lock().unwrap().extend_from_slice(buf); Ok(buf.len())
        }
        fn flush(&mut self) -> std::io::Result<()> { Ok(()) }
    }

    fn count_payload_occurrences(wire: &[u8], payload: &[u8]) -> usize {
        // client frames are masked; decode the frames instead of searching raw bytes
        let mut n = 0; let mut i = 0;
        while i + 2 <= wire.len() {
            let len7 = (wire[i + 1] & 0x7F) as usize; let masked = wire[i + 1] & 0x80 != 0; let mut p = i + 2;
            let len = if len7 == 126 { let l = ((wire[p] as usize) << 8) | wire[p + 1] as usize; p += 2; l } else { len7 };
            let mut key = [0u8; 4]; if masked { key.copy_from_slice(&wire[p..p + 4]); p += 4; }
            let data : Vec<u8> = wire[p..p + len].iter().enumerate().map(|(k, b)| b ^ key[k % 4]).collect();
            if data == payload { n += 1; }
            i = p + len;
        }
        n
    }

    #[test]
    fn gv_ws_write_would_block_does_not_duplicate_the_message() {
        let written = Arc::new(Mutex::new(Vec::new()));
        let ws = WebSocket::from_raw_socket(StingyStream { written: written.clone(), refusals_left: 1 }, Role::Client, None);
        let mut w = WebsocketStreamWrapper::new(ws);
        let payload = b"MQTT-BYTES-0123456789".to_vec();
        // what the threaded driver does: write; on WouldBlock nothing counts as written, so the same bytes are offered again later
        let mut attempts = 0;
        loop {
            attempts += 1;
            match w.write(&payload) {
                Ok(n) => { assert_eq!(n, payload.len()); break; }
                Err(e) if e.kind() == ErrorKind::WouldBlock => { assert!(attempts < 5); continue; }
                Err(e) => panic!("unexpected {:?}", e),
            }
        }
        let _ = w.flush();
        let wire = written.lock().unwrap().clone();
        let n = count_payload_occurrences(&wire, &payload);
        println!("GV d3 attempts = {}, messages carrying the payload on the wire = {}", attempts, n);
        assert_eq!(1, n);
    }
}
